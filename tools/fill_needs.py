#!/usr/bin/env python3
"""Fill meta.json['needs_to_manifest'] of seeded changes from the title line of the sub-agent's notes.md when it is empty."""
import glob, json, os, re
for f in sorted(glob.glob("/verif/seeded/*/meta.json")):
    m = json.load(open(f))
    if m.get("needs_to_manifest"):
        continue
    notes = os.path.join(os.path.dirname(f), "notes.md")
    if not os.path.exists(notes):
        continue
    title = next((l for l in open(notes) if l.startswith("#")), "").lstrip("# ").strip()
    title = re.sub(r"^C\d\d\s*[/-]\s*(round\s*\d\s*[/-]\s*)?(change\s*)?\(?[ab]\)?\s*(\(round \d\))?\s*[:—–-]*\s*", "", title, flags=re.I)
    m["needs_to_manifest"] = title[:220]
    json.dump(m, open(f, "w"), indent=1)
    print(m["id"], "->", title[:100])
