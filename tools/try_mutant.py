#!/usr/bin/env python3
"""Apply a one-off textual mutation to a scratch copy of /repo and run checks against it (VERIF_REPO).

usage: try_mutant.py --file opendsm/...py --old 'text' --new 'text' --checks C19,C07 [--tests] [--tier quick]
       try_mutant.py --patch file.diff --checks C19 [--tests]
The scratch copy lives under /tmp/verif-scratch-<pid> and is always removed.
"""
import argparse, os, shutil, subprocess, sys, tempfile

ap = argparse.ArgumentParser()
ap.add_argument("--file"); ap.add_argument("--old"); ap.add_argument("--new"); ap.add_argument("--patch")
ap.add_argument("--checks", default=""); ap.add_argument("--tests", action="store_true"); ap.add_argument("--tier", default="quick")
ap.add_argument("--count", type=int, default=1)
a = ap.parse_args()
d = tempfile.mkdtemp(prefix="verif-scratch-")
try:
    subprocess.run(["git", "-C", "/repo", "worktree", "add", "--detach", "-q", d + "/repo", "HEAD"], check=True)
    # carry uncommitted changes of /repo too
    diff = subprocess.run(["git", "-C", "/repo", "diff"], capture_output=True, text=True).stdout
    if diff.strip():
        subprocess.run(["git", "-C", d + "/repo", "apply"], input=diff, text=True, check=True)
    if a.patch:
        subprocess.run(["git", "-C", d + "/repo", "apply", os.path.abspath(a.patch)], check=True)
    else:
        p = os.path.join(d, "repo", a.file)
        s = open(p).read()
        if s.count(a.old) < 1:
            sys.exit(f"old text not found in {a.file}")
        s = s.replace(a.old, a.new, a.count)
        open(p, "w").write(s)
    print(subprocess.run(["git", "-C", d + "/repo", "diff", "--stat"], capture_output=True, text=True).stdout)
    rc = {}
    if a.tests:
        r = subprocess.run(["python3", "/verif/tools/baseline_check.py", d + "/repo"], capture_output=True, text=True)
        print("TESTS:", r.stdout.strip().splitlines()[-1] if r.stdout.strip() else r.stderr[-300:])
        rc["tests"] = r.returncode
    env = dict(os.environ, VERIF_REPO=d + "/repo")
    env.pop("_MC_ENV_DONE", None); env.pop("PYTHONPATH", None)
    for c in [c for c in a.checks.split(",") if c]:
        r = subprocess.run(["/venv/bin/python", "-m", "mc.run", c, "--tier", a.tier], cwd="/verif", env=env, capture_output=True, text=True)
        lines = [l for l in r.stdout.splitlines() if l.startswith("VIOLATION") or l.startswith("  clause=") or l.startswith("[" + c + "]") or "HARNESS" in l]
        print(f"== {c}: exit {r.returncode}")
        print("\n".join(lines[:14]))
        if r.returncode == 2:
            print(r.stdout[-1500:], r.stderr[-1500:])
        rc[c] = r.returncode
    print("SUMMARY", rc)
finally:
    subprocess.run(["git", "-C", "/repo", "worktree", "remove", "--force", d + "/repo"])
    shutil.rmtree(d, ignore_errors=True)
    # evidence files were overwritten by the mutant run: restore the committed ones
    subprocess.run(["git", "-C", "/verif", "checkout", "--", "evidence"], capture_output=True)
