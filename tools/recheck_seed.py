#!/usr/bin/env python3
"""Re-run quick checks against an already confirmed seeded change and merge the outcome into its meta.json.

usage: recheck_seed.py <seed id> [C01,C02 ...]      (default: the change's own property)

The change (seeded/<id>/patch.diff) is applied to a scratch worktree of /repo HEAD outside /repo and /verif,
the named checks run with VERIF_REPO pointing at it, and the worktree is removed.  The demo and the baseline
are not repeated (tools/eval_seed.py did that when the change was confirmed).
"""
import json, os, shutil, subprocess, sys, tempfile, time

sid = sys.argv[1]
out = f"/verif/seeded/{sid}"
meta = json.load(open(out + "/meta.json"))
checks = sys.argv[2].split(",") if len(sys.argv) > 2 else [meta["property"]]
d = tempfile.mkdtemp(prefix="verif-scratch-")
tree = d + "/repo"
try:
    subprocess.run(["git", "-C", "/repo", "worktree", "add", "--detach", "-q", tree, "HEAD"], check=True)
    ap_ = subprocess.run(["git", "-C", tree, "apply", out + "/patch.diff"], capture_output=True, text=True)
    if ap_.returncode != 0:
        print("PATCH DOES NOT APPLY ANY MORE:", ap_.stderr[-400:]); sys.exit(2)
    envc = dict(os.environ, VERIF_REPO=tree, VERIF_EVIDENCE_DIR=d + "/evidence", VERIF_REPLAY_DIR=d + "/replays")
    envc.pop("_MC_ENV_DONE", None); envc.pop("PYTHONPATH", None)
    for c in checks:
        t0 = time.time()
        r = subprocess.run(["/venv/bin/python", "-m", "mc.run", c, "--tier", "quick"], cwd="/verif", env=envc,
                           capture_output=True, text=True)
        clauses = sorted(set(l.strip().split(" key=")[0].replace("clause=", "") for l in r.stdout.splitlines()
                             if l.strip().startswith("clause=")))
        meta.setdefault("checks", {})[c] = {"exit": r.returncode, "clauses": clauses[:12], "wall_s": round(time.time() - t0),
                                            "verif_commit": subprocess.run(["git", "-C", "/verif", "rev-parse", "--short", "HEAD"],
                                                                           capture_output=True, text=True).stdout.strip()}
        meta.setdefault("ran", []).append(
            f"(recheck) cd /verif && VERIF_REPO=<tree with patch> /venv/bin/python -m mc.run {c} --tier quick  -> exit {r.returncode}")
        print(sid, c, meta["checks"][c], flush=True)
        if r.returncode not in (0, 1):
            print(r.stdout[-1500:], r.stderr[-1500:])
    meta["detected_by"] = sorted(c for c, v in meta["checks"].items() if v["exit"] == 1)
    meta["harness_errors"] = sorted(c for c, v in meta["checks"].items() if v["exit"] not in (0, 1))
finally:
    subprocess.run(["git", "-C", "/repo", "worktree", "remove", "--force", tree], capture_output=True)
    shutil.rmtree(d, ignore_errors=True)
json.dump(meta, open(out + "/meta.json", "w"), indent=1)
print("detected_by", meta["detected_by"])
