#!/usr/bin/env python3
"""Run the repository's pinned baseline suite (guard OFF) and compare with
/root/.vp/BASELINE.json: every test in stable_pass must still pass.

usage: baseline_check.py [repo_dir]   (default /repo)
exit 0 iff no stable_pass test is missing/failed.
"""
import json, os, subprocess, sys, tempfile
import xml.etree.ElementTree as ET

repo = sys.argv[1] if len(sys.argv) > 1 else "/repo"
base = json.load(open("/root/.vp/BASELINE.json"))
want = set(base["stable_pass"])
fd, junit = tempfile.mkstemp(suffix=".xml"); os.close(fd)
env = dict(os.environ)
for k in list(env):
    if k.startswith("OPENDSM_EEMETER_VERIF"):
        del env[k]
env["PYTHONPATH"] = repo
cmd = ["/venv/bin/python", "-m", "pytest", "-q", "-p", "no:cacheprovider", "--timeout=900",
       "--continue-on-collection-errors", "-o", "addopts=", "-n", os.environ.get("BASELINE_N", "8"),
       "--junitxml=" + junit]
p = subprocess.run(cmd, cwd=repo, env=env, stdout=subprocess.PIPE, stderr=subprocess.STDOUT, text=True)
passed = set()
for tc in ET.parse(junit).getroot().iter("testcase"):
    if not any(ch.tag in ("failure", "error", "skipped") for ch in tc):
        passed.add(tc.get("classname") + "::" + tc.get("name"))
os.unlink(junit)
missing = sorted(want - passed)
print(p.stdout.strip().splitlines()[-1])
print(f"baseline stable_pass={len(want)} still_passing={len(want & passed)} newly_passing={len(passed - want)} missing={len(missing)}")
for m in missing[:40]:
    print("  MISSING", m)
sys.exit(1 if missing else 0)
