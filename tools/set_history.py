#!/usr/bin/env python3
"""Records in meta.json['history'] which seeded changes were missed on their first evaluation and what made them detectable
(read by tools/gen_detection.py).  The table is maintained by hand from the evaluation logs."""
import json, os
H = {
 # round 3
 "C03_r3a": "first run: C02 only (document_changed_by_use); C03 itself after every fitted model is re-read at the end of its process",
 "C04_r3a": "C10 only, on purpose: the change removes a data-class disqualification, the gate then agrees with what the data object says",
 "C10_r3b": "not detected, on purpose: whether a day with 50-90 % of its hourly temperature readings is a 'day with valid temperature' is open in the statement (CalTRACK daily-mean rule vs the library's per-period coverage constant); the reference accepts both",
 "C11_r3b": "first run: C13 only (wrong_submodel); C11 itself after the two-component (weekday/weekend) documents",
 "C12_r3a": "first run missed (no case fitted one object twice); detected after the C12 histories with an object fitted before",
 "C13_r3b": "first run missed; detected after 'a refitted object selects like a fresh object'",
 "C14_r3a": "first run missed; detected after tampered stored documents (lock_bypassed_by_stored_document)",
 # round 4
 "C01_r4a": "first run missed (no document was kept while the object was fitted again; CalTRACK refit only in the thorough tier); detected after the kept-document clause of part R",
 "C01_r4b": "first run missed by C01 (float64 reporting temperatures only); detected after int64 / float32 temperatures in part A (C11 saw it at once)",
 "C02_r4a": "first run missed (no model built from a 2.0 document, one zone only); detected after the docgraph cases",
 "C02_r4b": "first run missed (pandas 3 builds microsecond indexes, the frames were never in nanoseconds); detected after the index-resolution forms",
 "C03_r4a": "first run missed (one CalTRACK meter per process); detected after fleet histories caltrack_pacific / caltrack_eastern",
 "C03_r4b": "first run missed (the harness pins one BLAS thread); detected after the two-thread history 'CalTRACK after other fits equals CalTRACK alone'",
 "C04_r4a": "first run missed (every baseline kind covered all seasons and weekdays); detected after realisations four_months_no_summer / no_sunday_readings / two_months_60d",
 "C04_r4b": "first run missed (predict was never handed the very object the model was fitted on); detected after input type fit_data in Gate.tla",
 "C05_r4a": "first run missed (the daily class was never handed an hourly frame with exact zeros); detected after variant hourly_frame + zero alterations",
 "C05_r4b": "first run missed (no model used the has_pv flag); detected after family hourly_pv",
 "C06_r4b": "first run missed (missing weather only next to the clock change); detected after defects Tnan_first2 / Tnan_last2 / Tnan_ends",
 "C07_r4a": "first run missed (temperatures were ordinary or non-finite); detected after the sentinel symbols 9999 / -9999 / 999.9",
 "C07_r4b": "first run missed (reporting data classes only); detected after baseline-class data objects as predict input",
 "C08_r4a": "first run missed ON PURPOSE-BUILT GROUND: the oracle accepted 'kept or dropped' for a 25/35/70-day period across a clock change; detected after that band was closed (period length = calendar days)",
 "C09_r4a": "first run missed (every case had a meter); detected after temperature-only reporting objects",
 "C11_r4a": "first run missed (positive intercepts only); detected after the negative base load",
 "C11_r4b": "first run missed (documents always had hdd_bp <= cdd_bp); detected after reversed_bps documents",
 "C12_r4b": "not confirmed on the current tree: it 'repaired' the int64-temperature crash of fit() in a way that truncated the scored curve; the tree now casts the fit arrays to float64 (fix 1649f930), so the patch has nothing left to break",
 "C15_r4a": "first run missed (daily temperatures: 365 distinct values); detected after family billing_monthlyT (one temperature per month)",
 "C16_r4b": "first run missed (float64 columns only); detected after the dtype cases",
 "C17_r4b": "first run missed (irradiance was never negative); detected after the irradiance column starts below zero",
 "C18_r4b": "first run missed (stamps always on the local hour); detected after UTC-lattice data in zones with 30/45-minute offsets",
 "C20_r4b": "first run missed (float readings only); detected after integer / nullable / float32 shapes",
 # round 5
 "C01_r5a": "first run missed (no fitted model with a custom week whose split was selected; C13 saw it through its document-built models); detected after part P profile weekday_map on a building that follows the custom week",
 "C01_r5b": "first run missed (complete CalTRACK baselines only); detected after profile caltrack_gappy",
 "C02_r5b": "first run missed (every other model lived in the same zone); detected after operation other_model_in_another_zone_same_instants",
 "C04_r5a": "evaluated with the patch rebased onto fix 0a54c7d4 (same function); the first C04 run after realisation june_ghi_8d_missing existed detected it",
 "C05_r5b": "first run missed (CalTRACK reporting data through the frame constructor only); detected after variant from_series_weather_in_utc (the opposite orientation, meter in UTC, already fails on the unchanged tree: known finding)",
 "C07_r5a": "first run missed (daily weather only); its patch no longer applies since fix 6c84e1dc rewrote the same statement - the equivalent edit on the repaired tree (fill without a limit) is detected by C07 (day_without_temperature_readings_gets_a_temperature) and C09 (tools/try_mutant.py)",
 "C07_r5b": "first run missed (aggregated frames were held to the totals identity only); detected after the row-pairing and period-sum clauses and the first-period states",
 "C13_r5a": "first run missed (one frame per model object); detected after two more frames of the same period with different gaps",
 "C13_r5b": "first run missed (the oracle asked the library's own criterion function, which the change had altered consistently); detected after the textbook BIC reference and the exact two-level meter",
 "C14_r5b": "first run missed (wavelet names were not among the alternative values); detected after the wavelet cluster",
 "C16_r5a": "first run missed (usage never below zero in the fits); detected after the net-metered fits",
 "C19_r5a": "first run missed (document-built models are never refitted); detected after the refit histories",
 "C20_r5a": "first run missed (max_days >= 1 only); detected after max_days 0.5 and 0",
}
for sid, text in H.items():
    f = f"/verif/seeded/{sid}/meta.json"
    if not os.path.exists(f):
        continue
    m = json.load(open(f))
    m["history"] = text
    json.dump(m, open(f, "w"), indent=1)
print(len(H), "histories set")
