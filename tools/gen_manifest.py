#!/usr/bin/env python3
"""Regenerates /verif/MANIFEST.json from the table below (single source of truth)."""
import json, os, subprocess

HERE = os.path.dirname(os.path.dirname(os.path.abspath(__file__)))
PY = "/venv/bin/python"

# id -> (category, technique, text, note, design_ref)
CHECKS = {
 "C20": ("exploration",
         "deviation-bounded exhaustive enumeration of cut instants x options on the real functions, reference-model oracle",
         "Every cut instant (each timestamp, each mid-point, before/after the data, expressed in the data's zone and in another) x "
         "max_days {365,None,1,5,10} x all overshoot/ignore-gap/n_days option combinations x hourly/daily/billing series x 2 zones x "
         "Series/DataFrame/NaN-edged inputs is executed against get_baseline_data/get_reporting_data and compared with a windows "
         "reference evaluated on the input alone; calls without any limit (end/start None) under every option combination are included; complete enumeration of that finite space (exhaustive: true unless a cap is reported).",
         "Finite stated space only; readings of the statement pinned in evidence.assumptions (DESIGN.md C20/A).",
         "DESIGN.md section 6, C20"),
 "C11": ("exploration",
         "exhaustive product: coefficient lattice x dense temperature sweep on document-built models through predict()",
         "For each of the seven model shapes an admissible coefficient lattice (balance points at the segment limits, interior and "
         "equal; slope magnitudes 0.05/1/20; smoothing fractions incl. 0, below/at the 0.01 cut-off, sums below/at/above 1; two "
         "intercepts; two fitted ranges) is turned into model documents, loaded with DailyModel.from_dict and evaluated by predict() "
         "on ~830 temperatures (-60..140F step 0.25 plus every stored/effective balance point and range limit with their float "
         "neighbours). Continuity (Lipschitz), base load between the effective balance points, monotonicity, the straight line with "
         "the stored slope (exact unsmoothed, exponential bound smoothed), non-negative exclusive loads and additivity are checked on "
         "every curve; every 4th (thorough: every) document is also loaded with its JSON object keys sorted / reversed, and 2.0-format documents "
         "(from_2_0_dict, four model types x a coefficient lattice) are held to the same clauses; complete enumeration of the lattice.",
         "Lattice, not the continuum: nothing is claimed between lattice points (DESIGN.md section 7). Tolerances are ulp-scaled.",
         "DESIGN.md section 6, C11"),
 "C07": ("exploration",
         "exhaustive enumeration of all |A|^n defect patterns of a day window on document-built models through the data classes and predict()",
         "Every assignment of a defect symbol {ok, T NaN, T +inf, T -inf, usage NaN, usage 0 (electric), both NaN} to each day of a 4-day "
         "(quick) / 5-day (thorough) window embedded in ordinary days, with and without a usage column, for four daily model documents "
         "(three shapes and a 4-way split); billing: all temperature patterns on 3 days straddling a period boundary x {ok, NaN read, "
         "off-cycle} states of the adjoining periods x every aggregation. Oracle: both-or-neither per row, masking, no prediction "
         "without usage, complete days keep both, column sums == row-wise savings.",
         "Window length bound n; data classes are part of the path (a pattern they reject is counted as rejected).",
         "DESIGN.md section 6, C07"),
 "C13": ("exploration",
         "exhaustive products on real DailyModel objects: flags x support x maps for _combinations(); layouts x maps x all dates for routing; recomputed criteria on fits",
         "A: all 16 allow-flag combinations x Gaussian reduction {off,on} x 6-8 data-support patterns x 4 season maps x 4 weekday maps: "
         "every candidate must be an exact cover of the 3x2 (season, day type) cells, unsplit present, nothing the flags forbid or the data "
         "cannot support. B: every split layout the library can produce (quick: every 4th) loaded as a document of marker sub-models "
         "x 16 map combinations x all 731 dates of 2023-2024: model_split and the marker value must be the unique component owning the "
         "date's cell under the model's own maps. C: real fits, also under each of the 10 selection criteria the settings accept; the chosen split must minimise the recomputed criterion.",
         "Candidate generation is driven through the private _combinations() on the model's own prepared frame (anchored seam).",
         "DESIGN.md section 6, C13"),
 "C19": ("exploration",
         "deviation-bounded enumeration of billing reporting sets x models x every aggregation argument; oracle recomputed from the un-aggregated prediction",
         "Start day {1,2,15,28,31} x span {20,45,95,130} x zones x usage present/absent x <=1 (quick) / <=2 (thorough) deviations (NaN-temperature "
         "day, NaN read) at every lattice position x 2-4 billing model documents; each case predicts with None/'none'/'monthly'/'bimonthly' and, "
         "undeviated, with 8 invalid arguments. One row per calendar period with the right label; sums, mean temperature, root-sum-square "
         "uncertainty per period and grand totals equal the daily frame's (1e-9 relative); invalid arguments raise.",
         "Finite stated space; bimonthly blocks counted from the month of the first reporting day.",
         "DESIGN.md section 6, C19"),
 "C02": ("model_checking",
         "explicit-state BFS over call histories on the real objects (state = structural fingerprint of the whole object graph + serialised document), run to a fixpoint; aliasing audit",
         "Per family (daily, billing, hourly, hourly solar, CalTRACK hourly, plus variants that take the side-effect paths: poor-fit fits and an "
         "ignored GHI column) one fitted model is explored breadth-first over the alphabet {predict(R_i) for 5 spans x with/without usage, "
         "fit of another meter}: every state must serialise to the initial document, every transition's output must equal the same call on a "
         "pristine copy, the data object passed must keep its fingerprint (also on the first call it ever sees). The same graph is explored from the model as it comes back from storage. The search closes (every operation maps every discovered state into "
         "the discovered set), so the verdict holds for histories of any length over the alphabet. Separately every constructor/from_series entry "
         "point is checked for leaving the caller's input unchanged, and handed-out / prediction frames for independence (behaviourally).",
         "deepcopy snapshots (asserted faithful on every use); hourly models get an explicit seed (to_json re-draws a private seed otherwise); "
         "C-level state of numba/BLAS is observed only through outputs.",
         "DESIGN.md section 6, C02"),
 "C14": ("exploration",
         "exhaustive enumeration by introspection of every settings field x alternative values x key spellings x input forms x developer_mode, against a frozen table of approved constants",
         "Every field of the daily, legacy, billing and hourly settings trees (found by model_fields introspection united with the frozen table "
         "spec/approved_constants.json) x alternative values (default +/- step, bounds and next floats, members/non-members, None, mistyped) x key "
         "spelling x input form (kwargs, nested dict, nested object of the declared and related classes, model constructors, update helper, "
         "attribute assignment) x developer_mode {absent, False, True}; full products over the cross-field validator groups; stored-document "
         "round trips; a default-built settings object of every class handed to every model constructor. Oracle: defaults == table; a developer-only leaf differing from its approved value without developer_mode is rejected "
         "(evaluated on the result for every form); valid non-developer values accepted; invalid rejected; stored settings == built settings.",
         "The approved table is the specification: a deliberate change of a default must update it. Unspecified inputs listed in evidence.assumptions.",
         "DESIGN.md section 6, C14"),
 "C18": ("exploration",
         "exhaustive products: every hour of 2023+2024 x zones x segmentation types; marker models through from_json for routing; all 64 bin-endpoint subsets x temperature lattice; all 168 hours-of-week x occupancy lookups",
         "segment_time_series weights for every hour of a leap and a non-leap year in 4 zones x 4 segmentation types x 52 windows, plus two-call histories (one UTC window localised to zone A, then to zone B, all ordered pairs); weighted "
         "fitting on intercept-only designs; prediction routing with marker models built through the public JSON path (segment j answers a value "
         "naming j, its bin tables and its occupancy bit); compute_temperature_bin_features for all 64 subsets of the candidate endpoints x "
         "{-40..130 step 0.5, every endpoint and its float neighbours, NaN}; hour_of_week over all 168 values incl. DST weeks; occupied/unoccupied "
         "exclusivity in fit and prediction design matrices.",
         "Reference model refmodels/segments.py (zoneinfo + Fractions, no pandas).",
         "DESIGN.md section 6, C18"),
 "C01": ("model_checking",
         "explicit-state BFS over {to_json->from_json, to_dict->from_dict, predict(R_i)} histories on fitted models of every family; exhaustive lattice of document-built models against a closed-form reference",
         "B: for each fitted model (daily current/legacy/developer/custom maps/poor fit, billing, hourly non-solar/solar/robust scaler/other "
         "binning/poor fit/supplemental columns with capitals, fixed-offset zones, CalTRACK hourly) a BFS over round-trip and predict operations, where a round trip replaces the state's object by the "
         "loaded one; in every state the document, the prediction on each of 8 reporting sets (inside the range, 70-90F colder, hotter, NaN "
         "temperature; with/without usage), timezone, warnings and disqualifications must equal the freshly fitted model's; the graphs close, so "
         "the result holds for any number of round trips. A: daily/billing documents over the coefficient lattice x split layouts with mixed "
         "shapes x 7 settings profiles: loaded, round-tripped twice, predicted, and compared with refmodels/curve evaluated from the JSON alone "
         "(exact for unsmoothed shapes, 4 ulp for smoothed); every document is also loaded with its JSON keys sorted and reversed, and a dict is loaded twice and must stay unchanged.",
         "Finite set of baselines/profiles and lattice; 'same document' is JSON-value equality; deepcopy snapshots asserted faithful.",
         "DESIGN.md section 6, C01"),
 "C10": ("exploration",
         "deviation-bounded enumeration at every published threshold (span, coverage, per-month coverage, value defects) x classes x entry points; oracle = criteria evaluated independently from the input",
         "class {daily, billing, hourly} x {baseline, reporting} x fuel x entry point/temperature feed x span N in {250,328,329,330,364,365,366,367,420} x "
         "missing-day count m at floor/ceil(0.1N)+-1 x what is missing x placement; value defects (negative reading, 10xIQR spike, UTC index, off-cycle "
         "read); per-month coverage at exactly 10% of 28/30/31-day months (hourly: by the hour); DST zones one day or more from the thresholds (incl. zones whose clock changes at local midnight); empty "
         "columns; temperature-only reporting; NaN billing reads. The set of disqualification criteria must equal the reference's "
         "(refmodels/sufficiency.py: integers and Fractions on plain rows); warning-only conditions must be warnings.",
         "Ambiguity bands (hourly truncated day totals, hourly feeds under daily meters, closing billing read, DST +-1 day) accept both verdicts and are counted in the evidence.",
         "DESIGN.md section 6, C10"),
 "C16": ("exploration",
         "small-scope exhaustive: all (observed, predicted) series of length <= 3 over a 7-value alphabet x parameter counts; structured series; threshold-placed gates on real model objects; real fits",
         "Every pair of series of length <= 2 (quick: length 3 over an exhaustive 5-value sub-alphabet; thorough: the full 7^6) over {0,1,3,-2,0.001,NaN,+inf} x "
         "p in {1,2,5} through BaselineMetrics; structured series of 24-400 rows x contaminations through BaselineMetrics, ReportingMetrics (3 frequencies) "
         "and CalTRACK ModelMetrics; every dumped field is compared with its textbook formula on the finite pairs (refmodels/metrics.py, Fractions/fsum, "
         "1e-12), identities, undefined ratios; the hourly poor-fit gate at value*(1+-1e-6) on real HourlyModel objects; stored metrics of real "
         "hourly/daily/billing fits vs predict(baseline), incl. solar fits with irradiance gaps and a fit told to ignore the (gappy) irradiance column.",
         "Library's documented statistical conventions accepted (ddof 0, linear quantiles, PNRMSE by IQR); listed in evidence.assumptions.",
         "DESIGN.md section 6, C16"),
 "C17": ("exploration",
         "deviation-bounded enumeration (d<=2, d<=3 on the shortest frame) of NaN cells, absent rows, duplicate rows, zeros and NaN runs at every hour of short frames and on a lattice of long ones; cell-by-cell oracle from the input",
         "Base frames of 3/4/22/43/730 days (every branch of interpolate) x zones {UTC, Kolkata, Chicago, Sydney; Havana, Santiago keyed separately} with the "
         "23/25-hour day first/mid/last x first/last supplied hour x fuel x ghi x class x index unit; deviations at EVERY hour of the short frames. "
         "Gap-free whole-local-day index (zoneinfo arithmetic), supplied finite values bit-identical, flag == (not supplied and now present), no NaN "
         "left unless the column was empty, first duplicate (in the order supplied: also with the extra rows appended / prepended and newest-first frames) wins, caller's frame untouched.",
         "Filled values are unconstrained beyond being non-NaN; Lord Howe (30-minute DST) not enumerated.",
         "DESIGN.md section 6, C17"),
 "C06": ("exploration",
         "exhaustive product over IANA zone signature classes x every UTC-offset transition 2000-2037 (quick: 2019-2023), through the data classes and predict(); slot-level check of the clock normalisation",
         "All zones known to zoneinfo are grouped by their 2000-2037 transition list (computed from pandas' own conversion); for every transition of "
         "every class representative, hourly frames of whole local days with the transition day in the middle / first / last (for changes at local midnight also the day after the instant), with holes and NaN cells, with and without "
         "usage, go through HourlyReportingData and HourlyModel.predict; spans of 230-730 days holding two to four clock changes in either order (hourly, and daily with season- and day-type-split models); (document-loaded model naming the zone): index identical to data.df, strictly "
         "chronological and unique in UTC, every prediction finite; feeding the clock normalisation the slot numbers shows that no row is shifted. "
         "Daily/billing: 10 daily rows / 70 days of reads around every transition of 2021 (+2027) per class x NaN-temperature / NaN-usage days "
         "adjacent to it: index equality and the finiteness pattern.",
         "Zone classes are represented by one member; the hourly coefficients come from one Chicago fit.",
         "DESIGN.md section 6, C06"),
 "C04": ("model_checking",
         "TLA+ model checked by TLC; the complete labelled state graph (-dump dot,actionlabels) is replayed edge by edge against the real classes (model <-> implementation conformance)",
         "spec/tla/Gate.tla models the gate as object x override flags x storage with actions Fit(kind, ignore), Refit(kind, ignore) on an object that already holds a fit (fitted or loaded), Predict(data type, timezone, ignore), Store; "
         "TLC checks FailClosed, FitGate, StorePreserves, UnfittedNeverPredicts on all reachable states (305; counts are re-read from TLC on every run). Every one of the edges (11862) is then "
         "executed on DailyModel, BillingModel and HourlyModel for every concrete realisation of the abstract baseline kinds (too short, too long, "
         "usage gaps / off-cycle read, a month of missing temperature, negative gas, weather-independent noise, threshold-placed poor fit, and "
         "combinations): the observed outcome class must be the model's and the abstraction of the real object after the call must equal the "
         "edge's target state. Whether a fit is a poor fit is decided from the model's published statistics against its own thresholds, independently of its disqualification list (the two must agree). A concrete dataset that does not realise its abstract kind is counted as rejected, never as a pass.",
         "Abstraction function alpha and the concrete kinds are the trusted bridge; listed in evidence.",
         "DESIGN.md section 6, C04"),
 "C05": ("exploration",
         "exhaustive product: fitted models of every family x reporting sets x every alteration of the observed column; paired runs compared bit for bit",
         "For daily, billing, hourly, hourly-solar and CalTRACK hourly models fitted on full-year baselines, each of three reporting sets (a week, a month "
         "with a DST change, a year) is predicted under every alteration of the usage column {x0.5, x7, reversed, shuffled, every 2nd NaN, first half "
         "NaN, NaN runs of 1/6/24/48 h or 1/3/10 d, all NaN, absent, all zero, negative, constant}; the prediction must equal the identity run's on "
         "every commonly predicted timestamp (variants: weather gaps, a 06:00 daily meter under an hourly feed, duplicated rows, a baseline with a systematic Saturday gap), hourly rows must all be predicted, and an alteration must not turn the run into an exception.",
         "Gap patterns the data class itself refuses are counted (alterations_refused_by_data_class), not judged.",
         "DESIGN.md section 6, C05"),
 "C03": ("model_checking",
         "explicit-state BFS over histories of library use, each replayed in a fresh interpreter, state = process-global fingerprint; all interleavings of 2-3 threads' public calls under a baton scheduler; concurrent processes on a shared cold/warm JIT cache",
         "S: histories over the alphabet {fits of daily/hourly/billing meters A and B, fit+predict+round-trip, refits of a used object on another meter, adaptive-weight and seed-0 hourly fits, an unseeded hourly fit, a developer-mode fit, building custom "
         "settings objects, mutating the lists a settings object hands out, np.random.seed/rand, import order} are run in fresh interpreters to "
         "depth 2 (thorough 3, last level: core fits); after every operation the process-global fingerprint (module-level containers, mutable "
         "defaults, pydantic field defaults, numpy RNG, sklearn config, numba signatures, BLAS/OMP env) identifies the state; every fit anywhere "
         "must give the document and predictions of that fit alone in a fresh process (itself run twice). T: every interleaving of the public "
         "calls of 2-3 real threads. P: 8 (thorough 1-16) concurrent processes sharing a cold then warm numba cache. E: thread-count environments, other string-hash seeds (the harness pins PYTHONHASHSEED=0; a fit of every family incl. CalTRACK hourly is re-run under 2-5 other seeds), other process time zones, and developer profiles selecting a randomised optimiser (twice in one process and in fresh ones).",
         "Call-granularity interleavings only (inside a fit: one free-running execution, reported separately); C-level state seen through outputs only.",
         "DESIGN.md section 6, C03"),
 "C08": ("exploration",
         "deviation-bounded enumeration of billing calendars (period lengths at every off-cycle threshold, every position, DST alignments) and of sub-daily readings with runs of missing readings at every offset; exact-arithmetic reference",
         "Billing: four base calendars x <=1 (thorough <=2) periods replaced by each of {1,10,24,25,35,36,45,70,71,90} days at every position x zones x "
         "three entry points x temperature feeds, plus every alignment of the reads with the DST dates. Sub-daily: 15/30/60-minute and daily "
         "readings over local days containing the DST day x runs of {1,2,half-1,half,half+1,full day} missing readings (NaN and absent rows) at "
         "every start on a 1-hour lattice. Oracle (refmodels/intervals.py, Fractions over integer minutes): valid periods sum to the bill, off-cycle "
         "periods dropped, no usage elsewhere; fully covered day == sum of readings, >1/2 scaled by 1/coverage, <=1/2 missing.",
         "Threshold lengths containing a DST change accept kept or dropped; absent-row gaps accept either documented reading.",
         "DESIGN.md section 6, C08"),
 "C09": ("exploration",
         "deviation-bounded enumeration of temperature feeds (hourly/half-hourly, zone offsets) x meters x entry points x NaN runs at every offset; exact per-meter-day reference",
         "Feeds {hourly, half-hourly} in zones offset from the meter by whole sampling intervals x meters {daily at midnight, daily at 06:00, hourly, "
         "billing} x entry points x a 6-day window containing a DST day x <=1 (thorough <=2) NaN runs of {1,6,11,12,13,23,24} hours at every "
         "offset, and a meter day without a reading at every interior position. Oracle (refmodels/tempday.py): day temperature == mean of the present readings of the meter day, missing when half or fewer are "
         "present, per-day present/absent counts exact (read through the class's own _set_data).",
         "Feed covers the meter span plus a day on each side.",
         "DESIGN.md section 6, C09"),
 "C12": ("exploration",
         "exhaustive over a stated finite grid of generated baselines x profiles: every fitted sub-model inspected, every fitted component's kept coefficients re-evaluated at its own baseline temperatures (guarded hook attributes mismatches)",
         "Grid: shape {heating, cooling, both, flat, narrow dead band} x regime {none, weekend, summer} x noise {0.5, 5, 20 %} x outliers {0, 3 spikes} x length "
         "{365, 330} x climate {continental, mild} x {daily: current + legacy, billing} (quick: a sub-grid containing every value of every factor). "
         "For every sub-model of every fit: finite coefficients, hdd_bp <= cdd_bp inside the segment's temperature range, slope signs, non-zero declared "
         "slopes, k >= 0, base load within the usage range, finite non-negative uncertainty, model type vs coefficient set, temperature limits equal to "
         "those of the days fitted on; for every entry of model.fit_components and model.model: eval(T) reproduces the fitted values (1e-9).",
         "A grid, not all datasets (the optimisers are black boxes); hook OPENDSM_EEMETER_VERIF=1 keeps the raw optimiser vector for attribution only.",
         "DESIGN.md section 6, C12"),
 "C15": ("exploration",
         "exhaustive over the stated finite grid of generating parameters: fit, predict on the baseline year and a second weather year, compare with the generating curve",
         "base load {5,50} x slope {0.3,3} x heating balance point {45,58} x cooling balance point {64,75} x shape {heating, cooling, both, flat} x climate "
         "{continental, mild, hot} x zone {UTC, Chicago} x noise draw {0,1,2} (1 % multiplicative) x {daily, monthly-billed}; precondition >= 30 days per "
         "active regime (else counted as rejected). NRMSE vs the generating curve <= 5 % of mean usage on both years; no heating (cooling) load above 5 % "
         "of usage where the generator has none.",
         "Grid only; billing compared at daily and monthly resolution (the better counts).",
         "DESIGN.md section 6, C15"),
}

NOT_YET = {}

# sentences appended to the level text: what the fourth round added to each explored space (DESIGN.md section 18)
ROUND4 = {
 "C01": " Also: part P fits, stores (to_json and to_dict), loads and predicts one model per one-field settings profile (33 hourly, 15 daily: every field moved to another accepted value); "
        "part R holds a dict returned by to_dict() while the object is fitted again (CalTRACK wrapper included in the quick tier); part A predicts int64 and float32 temperatures.",
 "C02": " Also: models built from a 2.0 / current / billing document are explored over reporting sets in three zones to a fixpoint; the frames part compares the caller's index "
        "freq / name / attrs as well, with freq-less indexes and every datetime resolution; a reporting set carrying a configured supplemental column the baseline lacked.",
 "C03": " Also: every model fitted in a history is serialised and used again at the end of its process; CalTRACK hourly fits of fleet meters covering the same instants in two zones, "
        "one after the other; CalTRACK hourly under 2 (thorough: 4, 16, unset) BLAS threads, alone and after fits of the other families.",
 "C04": " The predict inputs include the very data object the model was fitted on (model and data snapshotted as one graph); baseline kinds include year-long baselines without a "
        "season / a weekday, a 60-day baseline and non-float64 temperature columns (323 states, 13 208 edges).",
 "C05": " Also: the daily class handed an hourly frame (usage and temperature per hour), scattered exact zeros, and a net-metered site whose has_pv flag is a model feature.",
 "C06": " Daily/billing defects include weather missing on the first / last two days of the frame.",
 "C07": " Also: finite sentinel temperatures (9999, -9999, 999.9) as day symbols, and the baseline data classes as predict input.",
 "C08": " Period validity is decided by calendar days in every zone (a 25/35/70-day period across a clock change is valid); calendars include perfectly regular 4-, 5- and 8-weekly "
        "cycles and reads on the first business day of the month.",
 "C09": " Also: temperature-only reporting objects (no meter) whose feed starts at any instant, through from_series(None, feed, tzinfo) and a usage-less frame.",
 "C10": " The span is decided exactly in every zone; the DST family holds spans of 328/329/365/366 days that start in one clock phase and end in the other.",
 "C11": " Also: fitted ranges whose segment limits coincide with the observed extremes, a negative base load, two-slope documents with reversed balance points, and two-component "
        "(weekday / weekend) documents evaluated on a calendar whose temperatures are monotone in neither component.",
 "C12": " Also: histories in which the model object was fitted before on a baseline with another split structure; the stored sub-models must be those of the split chosen last.",
 "C14": " Option lists naming a season / day type the models do not know must be rejected.",
 "C16": " Also: whole-number series handed over as float32, signed and unsigned integer columns (7 dtypes), with a negative-savings reporting frame.",
 "C17": " Supplied irradiance values of either sign.",
 "C20": " Inputs include integer, nullable-integer and float32 readings.",
}

# ... and the fifth round (DESIGN.md section 19)
HUNT = {
 "C20": " After round 5: frames carrying a boolean flag column.",
 "C01": " After round 5: an hourly model fitted on a float32 frame; largest / zero seed profiles; every fitted-model graph also reloads the document with its keys sorted.",
 "C04": " After round 5: the largest accepted hourly seed as a fit realisation.",
 "C02": " After round 5: a model configured with a supplemental categorical column predicting sets with and without it; a refit attempt that fails inside the daily / billing fit.",
 "C06": " After round 5 (part M): hourly models fitted on meters exactly constant over part of the temperature range (heating-only at 0 when warm, cooling-only, two-decimal resolution, constant pilot), fitted and reloaded, predicting their baseline, a summer and a winter window; part D: daily windows of two and three rows with the transition day at every position through both entry points.",
 "C09": " After round 5: one-day and two-day data objects through every entry point; frames whose weather rows start 6 / 30 hours before the first meter day.",
 "C10": " After round 5: frames carrying an unrelated column with missing values; hourly day totals decided exactly (truncation band closed), DST margin 1/8 day, the clock-change day among 35-37 missing days.",
 "C14": " After round 5 (space sharing): nested hourly settings blocks shared between settings objects, re-validation of a finished object - the seed an object works with stays its own.",
}

ROUND5 = {
 "C01": " Round 5: profiles whose custom week is actually selected, a CalTRACK baseline with an hour of the week never metered, a float32 meter with an extreme value, and one default-featured hourly object fitted on baselines with and without irradiance.",
 "C02": " Round 5: another model fitted on / predicting the same instants in a zone with the same offsets but other clock changes.",
 "C03": " Round 5: ESCH twice in one process in the quick tier; silhouette-scored temporal clusters after different uses of numpy's global generator.",
 "C04": " Round 5: an hourly baseline whose only defect is irradiance coverage.",
 "C05": " Round 5: CalTRACK from_series with the two series in different zones (both orientations).",
 "C06": " Round 5: billing frames with an off-cycle usage gap.",
 "C07": " Round 5: half-hourly weather feeds with whole-day outages, aggregated rows paired and equal to the sums of their complete days, a first billing period without consumption.",
 "C10": " Round 5: zones changing at local midnight with the no-midnight day first / last in the data.",
 "C11": " Round 5: the sweep embedded between mild days; one object fitted on two buildings shows the curve of the coefficients it publishes.",
 "C12": " Round 5: regimes active on every day but one.",
 "C13": " Round 5: cells with about segment_minimum_count days under the current and legacy profiles; two gapped frames of one period on one object; the default criterion recomputed from the fitted components by the textbook formula; a meter one split reproduces exactly.",
 "C14": " Round 5: NaN elements of list-valued fields; wavelet names (continuous-only families are invalid).",
 "C16": " Round 5: net-metered daily / billing fits (usage below zero on some days).",
 "C17": " Round 5: negative gas readings; timestamps in a tz-aware datetime column.",
 "C18": " Round 5: hour of week on stamps off the local hour; fit design matrices with the weather series localized differently from the meter.",
 "C19": " Round 5: a fitted model refitted between two predictions of one data object.",
 "C20": " Round 5: max_days of half a day and zero; limits as stdlib datetimes and max_days as numpy integers.",
}


def main():
    props = [json.loads(l) for l in open(os.path.join(HERE, "properties.jsonl"))]
    checks = []
    na = []
    for p in props:
        pid = p["id"]
        if pid in CHECKS:
            cat, tech, text, note, ref = CHECKS[pid]
            checks.append({
                "property_id": pid,
                "quick_cmd": f"cd /verif && {PY} -m mc.run {pid} --tier quick",
                "thorough_cmd": f"cd /verif && {PY} -m mc.run {pid} --tier thorough",
                "evidence_file": f"/verif/evidence/{pid}.json",
                "replay_cmd_template": f"cd /verif && {PY} -m mc.run {pid} --replay {{path}}",
                "engine": "mc",
                "level_claimed": {"category": cat, "text": text + ROUND4.get(pid, "") + ROUND5.get(pid, "") + HUNT.get(pid, ""),
                                  "design_ref": ref + ("; section 18" if pid in ROUND4 else "") + ("; section 19" if pid in ROUND5 else "") + ("; sections 20-21" if pid in HUNT else "")},
                "level_note": note,
                "technique": tech,
            })
        else:
            na.append({"property_id": pid, "reason": NOT_YET.get(pid, "check not built yet in this session (planned in DESIGN.md section 6); not claimed until its check exists, has failed on a seeded change and is silent on the unchanged tree")})
    hooks_commits = subprocess.run(["git", "-C", "/repo", "log", "--format=%h %s", "--grep=^hook:"], capture_output=True, text=True).stdout.strip().splitlines()
    man = {
        "version": 1,
        "setup_cmd": f"cd /verif && {PY} tools/setup.py",
        "hooks": {
            "guard": "OPENDSM_EEMETER_VERIF",
            "enable": "checks export OPENDSM_EEMETER_VERIF=1 in every worker (mc/env.py); opendsm is an editable install of /repo, nothing is built",
            "baseline_off_cmd": "cd /repo && env -u OPENDSM_EEMETER_VERIF /venv/bin/python -m pytest -ra -q -p no:cacheprovider --timeout=900 --continue-on-collection-errors",
            "source_commits": [c.split()[0] for c in hooks_commits],
            "add_only": True,
        },
        "engines": [
            {"name": "mc", "path": "/verif/mc", "serves_properties": sorted(CHECKS),
             "kind_free_text": "hand-written bounded exhaustive explorer for Python: deviation-bounded input enumeration, exhaustive product spaces, explicit-state BFS over call histories of real objects, TLC model + full-graph replay; worker pool of spawn-started interpreters"},
        ],
        "checks": checks,
        "not_applicable": na,
        "notes": "All checks run the working tree in /repo (editable install; PYTHONPATH=/repo first). VERIF_SEED only permutes dispatch order; the explored set and the verdict do not depend on it. Genuine defects are in /verif/known_findings.json.",
    }
    with open(os.path.join(HERE, "MANIFEST.json"), "w") as fh:
        json.dump(man, fh, indent=1)
    print("claimed:", sorted(CHECKS), "not_applicable:", len(na))

if __name__ == "__main__":
    main()
