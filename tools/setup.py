#!/usr/bin/env python3
"""MANIFEST.setup_cmd: verify the toolchain offline and create scratch dirs.  Nothing is fetched or built."""
import os, shutil, subprocess, sys
here = os.path.dirname(os.path.dirname(os.path.abspath(__file__)))
for d in (".cache", ".work", "evidence", "replays"):
    os.makedirs(os.path.join(here, d), exist_ok=True)
ok = True
def need(cmd, what):
    global ok
    try:
        r = subprocess.run(cmd, capture_output=True, text=True, timeout=300)
        good = r.returncode == 0
    except Exception as e:
        good = False
    print(("ok   " if good else "FAIL ") + what)
    ok = ok and good
need([sys.executable, "-c", "import sys; sys.path.insert(0,'/repo'); import opendsm, pandas, numpy, sklearn, numba, nlopt"], "opendsm and its dependencies import in /venv")
for tool in ("tlc", "python3-vt"):
    good = shutil.which(tool) is not None
    print(("ok   " if good else "WARN ") + f"{tool} on PATH")
sys.exit(0 if ok else 1)
