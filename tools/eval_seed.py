#!/usr/bin/env python3
"""Validate one seeded property-breaking change and record it under /verif/seeded/<id>/.

usage: eval_seed.py <PROP> <variant> --diff <file> --demo <file> [--notes <file>] [--checks C01,C02 | --all]

Steps (all in a scratch worktree of /repo HEAD that is removed afterwards):
 1. the demo exits 0 on the pristine tree
 2. the patch applies; the demo exits non-zero on the changed tree
 3. the repository's pinned baseline still passes on the changed tree (tools/baseline_check.py: missing=0)
 4. the named quick checks are run against the changed tree (VERIF_REPO); which of them report a violation is recorded
"""
import argparse, json, os, shutil, subprocess, sys, tempfile, time

ap = argparse.ArgumentParser()
ap.add_argument("prop"); ap.add_argument("variant")
ap.add_argument("--diff", required=True); ap.add_argument("--demo", required=True); ap.add_argument("--notes")
ap.add_argument("--checks"); ap.add_argument("--all", action="store_true"); ap.add_argument("--needs", default="")
a = ap.parse_args()
ALL = [f"C{i:02d}" for i in range(1, 21)]
checks = ALL if a.all else (a.checks.split(",") if a.checks else [a.prop])
sid = f"{a.prop}_{a.variant}"
d = tempfile.mkdtemp(prefix="verif-scratch-")
tree = d + "/repo"
meta = {"id": sid, "property": a.prop, "variant": a.variant, "ran": [], "needs_to_manifest": a.needs}
try:
    subprocess.run(["git", "-C", "/repo", "worktree", "add", "--detach", "-q", tree, "HEAD"], check=True)
    meta["repo_commit"] = subprocess.run(["git", "-C", "/repo", "rev-parse", "--short", "HEAD"], capture_output=True, text=True).stdout.strip()
    env = dict(os.environ, PYTHONPATH=tree)
    env.pop("_MC_ENV_DONE", None)
    r0 = subprocess.run(["/venv/bin/python", os.path.abspath(a.demo)], cwd=d, env=env, capture_output=True, text=True, timeout=1800)
    meta["demo_pristine_exit"] = r0.returncode
    ap_ = subprocess.run(["git", "-C", tree, "apply", os.path.abspath(a.diff)], capture_output=True, text=True)
    if ap_.returncode != 0:
        print("PATCH DOES NOT APPLY:", ap_.stderr[-500:]); meta["applies"] = False
        print(json.dumps(meta, indent=1)); sys.exit(2)
    meta["applies"] = True
    meta["files_changed"] = subprocess.run(["git", "-C", tree, "diff", "--stat"], capture_output=True, text=True).stdout.strip().splitlines()
    r1 = subprocess.run(["/venv/bin/python", os.path.abspath(a.demo)], cwd=d, env=env, capture_output=True, text=True, timeout=1800)
    meta["demo_changed_exit"] = r1.returncode
    meta["demo_changed_tail"] = (r1.stdout + r1.stderr).strip().splitlines()[-3:]
    rb = subprocess.run(["python3", "/verif/tools/baseline_check.py", tree], capture_output=True, text=True)
    meta["baseline"] = rb.stdout.strip().splitlines()[-1] if rb.stdout.strip() else rb.stderr[-200:]
    meta["baseline_ok"] = rb.returncode == 0
    envc = dict(os.environ, VERIF_REPO=tree, VERIF_EVIDENCE_DIR=d + "/evidence", VERIF_REPLAY_DIR=d + "/replays")
    envc.pop("_MC_ENV_DONE", None); envc.pop("PYTHONPATH", None)
    detected = {}
    for c in checks:
        t0 = time.time()
        r = subprocess.run(["/venv/bin/python", "-m", "mc.run", c, "--tier", "quick"], cwd="/verif", env=envc, capture_output=True, text=True)
        clauses = sorted(set(l.strip().split(" key=")[0].replace("clause=", "") for l in r.stdout.splitlines() if l.strip().startswith("clause=")))
        detected[c] = {"exit": r.returncode, "clauses": clauses[:12], "wall_s": round(time.time() - t0)}
        meta["ran"].append(f"cd /verif && VERIF_REPO=<tree with patch> /venv/bin/python -m mc.run {c} --tier quick  -> exit {r.returncode}")
        print(c, detected[c], flush=True)
    meta["checks"] = detected
    meta["detected_by"] = sorted(c for c, v in detected.items() if v["exit"] == 1)
    meta["harness_errors"] = sorted(c for c, v in detected.items() if v["exit"] not in (0, 1))
finally:
    subprocess.run(["git", "-C", "/repo", "worktree", "remove", "--force", tree], capture_output=True)
    shutil.rmtree(d, ignore_errors=True)
    subprocess.run(["git", "-C", "/verif", "checkout", "--", "evidence"], capture_output=True)
out = f"/verif/seeded/{sid}"
os.makedirs(out, exist_ok=True)
shutil.copy(a.diff, out + "/patch.diff")
shutil.copy(a.demo, out + "/demo.py")
if a.notes and os.path.exists(a.notes):
    shutil.copy(a.notes, out + "/notes.md")
valid = meta.get("demo_pristine_exit") == 0 and meta.get("demo_changed_exit") not in (0, None) and meta.get("baseline_ok")
meta["confirmed"] = bool(valid)
json.dump(meta, open(out + "/meta.json", "w"), indent=1)
print("CONFIRMED" if valid else "NOT CONFIRMED", sid, "detected_by", meta.get("detected_by"))
