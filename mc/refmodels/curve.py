"""Reference model `curve`: the documented piecewise heating/cooling curve of the daily/billing model,
evaluated from the JSON parameters alone in plain Python floats (math.exp), one temperature at a time.

Conventions of the stored document (opendsm daily `ModelCoefficients`):
  tidd                 intercept
  hdd_tidd[_smooth]    hdd_bp, hdd_beta (< 0: usage rises as it gets colder), hdd_k (smoothing length, deg F)
  tidd_cdd[_smooth]    cdd_bp, cdd_beta (> 0), cdd_k
  hdd_tidd_cdd         hdd_bp <= cdd_bp, hdd_beta >= 0, cdd_beta >= 0  (both are magnitudes)
  hdd_tidd_cdd_smooth  as above; hdd_k, cdd_k are FRACTIONS of the dead band (cdd_bp - hdd_bp): the smoothing
                       length is k = frac * band (fractions are normalised when they sum above 1; both below
                       0.01 means unsmoothed) and the effective balance point moves inwards by k.
A smoothed branch is  intercept + beta*(T-bp) + |beta*k|*(exp(-|T-bp|/k) - 1)  beyond its effective balance
point bp, which meets the base load at bp with zero slope and approaches the straight line
intercept + beta*(T - bp) - |beta*k| far from it.
"""
import math

MIN_PCT_K = 0.01


def effective(coeffs, tc):
    """-> dict(hdd_bp, hdd_beta, hdd_k, cdd_bp, cdd_beta, cdd_k, intercept) with betas as non-negative magnitudes
    (0 = branch absent), k as smoothing lengths, bps as EFFECTIVE balance points."""
    mt = coeffs["model_type"]
    c = coeffs["intercept"]
    if mt == "tidd":
        return dict(hdd_bp=0.0, hdd_beta=0.0, hdd_k=0.0, cdd_bp=0.0, cdd_beta=0.0, cdd_k=0.0, intercept=c, flat=True)
    if mt in ("hdd_tidd", "hdd_tidd_smooth", "tidd_cdd", "tidd_cdd_smooth"):
        side = "hdd" if mt.startswith("hdd") else "cdd"
        bp, beta = coeffs[side + "_bp"], coeffs[side + "_beta"]
        k = coeffs.get(side + "_k") or 0.0
        if not mt.endswith("smooth"):
            bp = min(max(bp, tc["T_min_seg"]), tc["T_max_seg"])
            k = 0.0
        if beta < 0:  # heating
            return dict(hdd_bp=bp, hdd_beta=-beta, hdd_k=k, cdd_bp=bp, cdd_beta=0.0, cdd_k=0.0, intercept=c)
        if beta == 0:
            return dict(hdd_bp=bp, hdd_beta=0.0, hdd_k=0.0, cdd_bp=bp, cdd_beta=0.0, cdd_k=0.0, intercept=c, flat=True)
        return dict(hdd_bp=bp, hdd_beta=0.0, hdd_k=0.0, cdd_bp=bp, cdd_beta=beta, cdd_k=k, intercept=c)
    # full model
    hbp, hb, cbp, cb = coeffs["hdd_bp"], coeffs["hdd_beta"], coeffs["cdd_bp"], coeffs["cdd_beta"]
    hk = coeffs.get("hdd_k") or 0.0
    ck = coeffs.get("cdd_k") or 0.0
    if cbp < hbp:
        hbp, cbp, hb, cb, hk, ck = cbp, hbp, cb, hb, ck, hk
    if hbp != cbp:
        if cbp >= tc["T_max"]:
            cb = 0.0
        elif hbp <= tc["T_min"]:
            hb = 0.0
    if hb == 0:
        hk = 0.0
    if cb == 0:
        ck = 0.0
    if mt == "hdd_tidd_cdd_smooth":
        if hk < MIN_PCT_K and ck < MIN_PCT_K:
            hk = ck = 0.0
        else:
            s = hk + ck
            if s > 1:
                hk, ck = hk / s, ck / s
            band = cbp - hbp
            hk, ck = hk * band, ck * band
            hbp, cbp = hbp + hk, cbp - ck
            if hbp > cbp:
                # fractions summing to one: the moved points coincide; they stay ordered (rounding must not cross them)
                cbp = hbp
    else:
        hk = ck = 0.0
    return dict(hdd_bp=hbp, hdd_beta=hb, hdd_k=hk, cdd_bp=cbp, cdd_beta=cb, cdd_k=ck, intercept=c,
                flat=(hb == 0 and cb == 0))


def evaluate_one(e, tc, T):
    """-> (predicted, heating_load, cooling_load) for one temperature."""
    c = e["intercept"]
    if e.get("flat"):
        return c, 0.0, 0.0
    hbp, cbp = e["hdd_bp"], e["cdd_bp"]
    beta = 0.0
    if T < hbp or (hbp == cbp and cbp >= tc["T_max"]):
        bp, beta, k = hbp, -e["hdd_beta"], e["hdd_k"]
    elif T > cbp or (hbp == cbp and hbp <= tc["T_min"]):
        bp, beta, k = cbp, e["cdd_beta"], -e["cdd_k"]
    if beta == 0:
        E = c
    elif k == 0:
        E = beta * (T - bp) + c
    else:
        E = abs(beta * k) * (math.exp((T - bp) / k) - 1) + (beta * (T - bp) + c)
    heat = E - c if T <= hbp else 0.0
    cool = E - c if T >= cbp else 0.0
    return E, heat, cool


def evaluate(coeffs, tc, temps):
    e = effective(coeffs, tc)
    out = [evaluate_one(e, tc, float(T)) for T in temps]
    return e, [o[0] for o in out], [o[1] for o in out], [o[2] for o in out]
