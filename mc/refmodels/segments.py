"""Reference model `segments` (C18): CalTRACK-hourly month weights, month routing,
temperature-bin features, hour-of-week.  Plain Python, exact arithmetic.

Nothing here imports pandas, numpy or the library under test.  Local calendar
fields come from `datetime` + `zoneinfo` applied to integer epoch seconds, so
they are independent of the pandas index machinery the library uses.
"""
from datetime import datetime, timezone
from fractions import Fraction
from zoneinfo import ZoneInfo

MONTHS = ("jan", "feb", "mar", "apr", "may", "jun", "jul", "aug", "sep", "oct", "nov", "dec")
SEGMENT_TYPES = ("single", "one_month", "three_month", "three_month_weighted")
ONE, HALF, ZERO = Fraction(1), Fraction(1, 2), Fraction(0)


# ----------------------------------------------------------------- calendar
def local_epoch(year, month, day, zone, hour=0):
    """Epoch seconds of a local wall-clock instant (must exist and be unambiguous)."""
    return int(datetime(year, month, day, hour, tzinfo=ZoneInfo(zone)).timestamp())


def hourly_epochs(start_epoch, end_epoch):
    """Every absolute hour in [start, end)."""
    assert (end_epoch - start_epoch) % 3600 == 0
    return list(range(start_epoch, end_epoch, 3600))


def local_fields(epochs, zone):
    """[(year, month, day, weekday(Mon=0), hour)] of each epoch second in `zone`."""
    z = ZoneInfo(zone)
    out = []
    for e in epochs:
        d = datetime.fromtimestamp(e, timezone.utc).astimezone(z)
        out.append((d.year, d.month, d.day, d.weekday(), d.hour))
    return out


def hour_of_week(weekday, hour):
    return 24 * weekday + hour


def prev_month(m):
    return 12 if m == 1 else m - 1


def next_month(m):
    return 1 if m == 12 else m + 1


# ----------------------------------------------------------------- segments
def parse_segment(name):
    """Read a documented segment name.

    'all' -> ('all', False); 'jan' -> ((1,), False); 'dec-jan-feb' -> ((12, 1, 2), False);
    'dec-jan-feb-weighted' -> ((12, 1, 2), True).  None if the name is not of that form.
    """
    if name == "all":
        return "all", False
    toks = str(name).split("-")
    weighted = False
    if toks and toks[-1] == "weighted":
        weighted = True
        toks = toks[:-1]
    if not toks or any(t not in MONTHS for t in toks):
        return None
    return tuple(MONTHS.index(t) + 1 for t in toks), weighted


def expected_weight(segment_type, name, month):
    """Weight the statement gives an hour of calendar month `month` in segment `name`
    (None if `name` is not a segment of that type)."""
    p = parse_segment(name)
    if p is None:
        return None
    months, weighted = p
    if segment_type == "single":
        return ONE if months == "all" else None
    if months == "all":
        return None
    if segment_type == "one_month":
        if len(months) != 1 or weighted:
            return None
        return ONE if months[0] == month else ZERO
    if segment_type == "three_month":
        if len(months) != 3 or weighted:
            return None
        return ONE if month in months else ZERO
    if segment_type == "three_month_weighted":
        if len(months) != 3 or not weighted:
            return None
        centre = months[1]
        if (months[0], months[2]) != (prev_month(centre), next_month(centre)):
            return None
        if month == centre:
            return ONE
        if month in (prev_month(centre), next_month(centre)):
            return HALF
        return ZERO
    raise ValueError(segment_type)


def expected_pattern(segment_type):
    """(number of weights equal to 1, number equal to 1/2) an hour must carry."""
    return {"single": (1, 0), "one_month": (1, 0), "three_month": (3, 0), "three_month_weighted": (1, 2)}[segment_type]


def centre_month(name):
    """Month a fitted segment is 'the model of': the only month of a one-month
    segment, the middle month of a three-month segment; 'all' for the single segment."""
    p = parse_segment(name)
    if p is None:
        return None
    months, _ = p
    if months == "all":
        return "all"
    if len(months) == 1:
        return months[0]
    if len(months) == 3:
        return months[1]
    return None


def own_segment_name(fit_segment_type, month):
    """Documented name of the fitted segment that is month `month`'s own model."""
    if fit_segment_type == "single":
        return "all"
    if fit_segment_type == "one_month":
        return MONTHS[month - 1]
    trip = "-".join(MONTHS[m - 1] for m in (prev_month(month), month, next_month(month)))
    return trip + ("-weighted" if fit_segment_type == "three_month_weighted" else "")


# ----------------------------------------------------------------- temperature bins
def bin_widths(endpoints):
    """Capacity of each bin: bin 0 holds everything up to the first endpoint (it is the
    only bin that may go below zero), interior bins hold their width, the last is unbounded."""
    e = sorted(endpoints)
    if not e:
        return [None]
    return [Fraction(e[0])] + [Fraction(b) - Fraction(a) for a, b in zip(e, e[1:])] + [None]


def bin_features(T, endpoints):
    """The unique vector f with sum(f) = T, f[0] <= e0, 0 <= f[i] <= width_i (i >= 1),
    and f[i] != 0 only if every earlier bin is full.  Exact (Fractions)."""
    T = Fraction(T)
    e = [Fraction(x) for x in sorted(endpoints)]
    if not e:
        return [T]
    out = [min(T, e[0])]
    for a, b in zip(e, e[1:]):
        out.append(min(max(T - a, ZERO), b - a))
    out.append(max(T - e[-1], ZERO))
    assert sum(out) == T
    return out
