"""Reference model `tempday`: per-meter-day aggregation of a sub-daily temperature feed.

Instants are integer minutes since the epoch, temperatures are Fractions (None =
missing reading).  A meter day is a half-open interval [start, end) in minutes.

For every meter day:
  present  = number of readings with a value whose timestamp lies in the day
  absent   = number of readings without a value whose timestamp lies in the day
  mean     = exact mean of the present readings (None if there is none)
  expected = mean if present / (present + absent) > 1/2 else None   (the 50 % rule)
"""
from fractions import Fraction


def day_stats(times, values, days):
    """times: sorted list of instants; values: Fraction | None per instant;
    days: list of (start, end).  Returns one dict per day."""
    out = []
    for a, b in days:
        present, absent, total = 0, 0, Fraction(0)
        for t, v in zip(times, values):
            if a <= t < b:
                if v is None:
                    absent += 1
                else:
                    present += 1
                    total += Fraction(v)
        mean = total / present if present else None
        n = present + absent
        sufficient = n > 0 and Fraction(present, n) > Fraction(1, 2)
        out.append({"start": a, "end": b, "present": present, "absent": absent, "mean": mean,
                    "expected": mean if sufficient else None})
    return out
