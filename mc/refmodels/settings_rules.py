"""Reference model for C14: the frozen table of approved method constants and the
documented validity rules of the settings trees, evaluated on the *input* alone.

Nothing here imports opendsm except `introspect()` (which reads the declarations
of the code under test so that the enumeration follows the code and so that a
drift between the declarations and the frozen table is reported).

Table layout (/verif/spec/approved_constants.json):
  families.<ClassName>.defaults            model_dump(mode="json") of a no-argument construction
  families.<ClassName>.fields.<dotted>     {kind, optional, developer, default?, ge/gt/le/lt?, members?, literals?, cls?}
  models.<constructor expression>          {"class": settings class used, "table": family whose constants apply}
"""
import copy
import json
import math
import os

SPEC_PATH = os.path.join(os.path.dirname(os.path.dirname(os.path.dirname(os.path.abspath(__file__)))),
                         "spec", "approved_constants.json")

DAILY_FAMILIES = ("DailySettings", "DailyLegacySettings", "BillingSettings")
HOURLY_FAMILIES = ("BaseHourlySettings", "HourlySolarSettings", "HourlyNonSolarSettings")

VALID, INVALID, UNSPEC = "valid", "invalid", "unspecified"


def load_table():
    with open(SPEC_PATH) as fh:
        return json.load(fh)


# ---------------------------------------------------------------- value codec (cases are plain JSON)
def enc(v):
    if isinstance(v, float) and (math.isnan(v) or math.isinf(v)):
        return {"$f": "nan" if math.isnan(v) else ("inf" if v > 0 else "-inf")}
    if isinstance(v, list):
        return [enc(x) for x in v]
    if isinstance(v, dict):
        return {k: enc(x) for k, x in v.items()}
    return v


def dec(v):
    if isinstance(v, dict) and set(v) == {"$f"}:
        return float(v["$f"])
    if isinstance(v, list):
        return [dec(x) for x in v]
    if isinstance(v, dict):
        return {k: dec(x) for k, x in v.items()}
    return v


# ---------------------------------------------------------------- comparison of JSON-ish trees
def _isnum(x):
    return isinstance(x, (int, float)) and not isinstance(x, bool)


def json_equal(a, b):
    """Structural equality; numbers compare numerically (2 == 2.0), bools are not numbers."""
    if _isnum(a) and _isnum(b):
        return a == b or (isinstance(a, float) and isinstance(b, float) and math.isnan(a) and math.isnan(b))
    if isinstance(a, bool) or isinstance(b, bool):
        return isinstance(a, bool) and isinstance(b, bool) and a == b
    if isinstance(a, dict) and isinstance(b, dict):
        return set(a) == set(b) and all(json_equal(a[k], b[k]) for k in a)
    if isinstance(a, (list, tuple)) and isinstance(b, (list, tuple)):
        return len(a) == len(b) and all(json_equal(x, y) for x, y in zip(a, b))
    if type(a) is not type(b) and not (isinstance(a, str) and isinstance(b, str)):
        return False
    return a == b


def diff_paths(a, b, pre=""):
    """Dotted paths at which two JSON-ish trees differ."""
    if isinstance(a, dict) and isinstance(b, dict):
        out = []
        for k in sorted(set(a) | set(b)):
            if k not in a or k not in b:
                out.append(pre + k)
            else:
                out += diff_paths(a[k], b[k], pre + k + ".")
        return out
    return [] if json_equal(a, b) else [pre.rstrip(".")]


def get_path(tree, path):
    for k in path:
        if not isinstance(tree, dict) or k not in tree:
            return KeyError
        tree = tree[k]
    return tree


def set_path(tree, path, value):
    for k in path[:-1]:
        if not isinstance(tree.get(k), dict):
            tree[k] = {}
        tree = tree[k]
    tree[path[-1]] = value


# ---------------------------------------------------------------- declarations of the code under test
def _classes():
    from opendsm.eemeter.models.billing.settings import BillingSettings
    from opendsm.eemeter.models.daily.utilities import settings as ds
    from opendsm.eemeter.models.hourly import settings as hs

    return {
        "DailySettings": ds.DailySettings,
        "DailyLegacySettings": ds.DailyLegacySettings,
        "BillingSettings": BillingSettings,
        "BaseHourlySettings": hs.BaseHourlySettings,
        "HourlySolarSettings": hs.HourlySolarSettings,
        "HourlyNonSolarSettings": hs.HourlyNonSolarSettings,
    }


def _field_spec(f):
    """(spec dict, nested class or None) for one pydantic FieldInfo."""
    import enum
    import typing

    import annotated_types as at
    import pydantic
    from pydantic_core import PydanticUndefined

    ann = f.annotation
    spec = {"optional": False}
    args = typing.get_args(ann)
    origin = typing.get_origin(ann)
    nested = None
    members = [ann]
    if origin is typing.Union:
        members = [a for a in args if a is not type(None)]
        spec["optional"] = len(members) != len(args)
    lits, kinds = [], []
    for m in members:
        mo = typing.get_origin(m)
        if mo is typing.Literal:
            lits += list(typing.get_args(m))
        elif isinstance(m, type) and issubclass(m, pydantic.BaseModel):
            kinds.append("settings")
            nested = m
            spec["cls"] = m.__name__
        elif isinstance(m, type) and issubclass(m, enum.Enum):
            kinds.append("enum")
            spec["members"] = [e.value for e in m]
        elif m is bool:
            kinds.append("bool")
        elif m is int:
            kinds.append("int")
        elif m is float:
            kinds.append("float")
        elif m is str:
            kinds.append("str")
        elif m is list or mo is list:
            el = typing.get_args(m)
            kinds.append("list_float" if el == (float,) else "list_str" if el == (str,) else "list_any")
        else:
            kinds.append(f"other:{m!r}")
    if lits:
        spec["literals"] = lits
        kinds = ["float_or_literal"] if kinds == ["float"] else kinds + ["literal"]
    spec["kind"] = kinds[0] if len(kinds) == 1 else "+".join(kinds)
    for md in f.metadata:
        for cls, name in ((at.Ge, "ge"), (at.Gt, "gt"), (at.Le, "le"), (at.Lt, "lt")):
            if isinstance(md, cls):
                spec[name] = getattr(md, name)
    extra = f.json_schema_extra if isinstance(f.json_schema_extra, dict) else {}
    spec["developer"] = bool(extra.get("developer", False))
    if f.exclude:
        spec["excluded"] = True
    if f.default is not PydanticUndefined:
        d = f.default
        spec["default"] = d.value if isinstance(d, enum.Enum) else d
    return spec, nested


def introspect(cls, pre=""):
    """{dotted path: spec} for every field of a settings class, recursively."""
    out = {}
    for name, f in cls.model_fields.items():
        spec, nested = _field_spec(f)
        out[pre + name] = spec
        if nested is not None:
            out.update(introspect(nested, pre + name + "."))
    return out


def build_table_from_code():
    """Used once to transcribe the table (then reviewed by hand against the sources) and at run time to
    report drift between the code's declarations and the frozen table."""
    fam = {}
    for name, cls in _classes().items():
        fam[name] = {"defaults": cls().model_dump(mode="json"), "fields": introspect(cls)}
    return fam


# ---------------------------------------------------------------- alternative values per field
def _step(d):
    return max(abs(d) * 0.1, 1e-4)


def alternatives(spec, default):
    """[(label, value)] simplest-first.  `default` is the approved default of this family (JSON form)."""
    kind = spec["kind"]
    out = []

    def add(label, v):
        for _, w in out:
            if type(w) is type(v) and (w == v or (isinstance(v, float) and isinstance(w, float) and math.isnan(v) and math.isnan(w))):
                return
        out.append((label, v))

    if default is not KeyError:
        add("default", default)
    if kind == "bool":
        add("other", (not default) if isinstance(default, bool) else True)
        add("wrong_type_str", "maybe")
    elif kind in ("int", "float", "float_or_literal"):
        isint = kind == "int"
        base = default if _isnum(default) else None
        if base is None:  # None / literal default: use the bounds or 1 as an anchor
            base = spec.get("ge", spec.get("gt", spec.get("le", spec.get("lt", 1))))
            base = int(base) if isint else float(base)
            if "gt" in spec:
                base = base + 1
            if "lt" in spec:
                base = base - 1
            add("anchor", base)
        st = 1 if isint else _step(base)
        add("default+step", base + st)
        add("default-step", base - st)
        for b in ("ge", "gt", "le", "lt"):
            if b in spec:
                v = spec[b]
                v = int(v) if isint else float(v)
                add(f"bound_{b}", v)
                up = b in ("le", "lt")
                if isint:
                    add(f"outside_{b}", v + 1 if up else v - 1)
                    add(f"inside_{b}", v - 1 if up else v + 1)
                else:
                    add(f"outside_{b}", math.nextafter(v, math.inf if up else -math.inf))
                    add(f"inside_{b}", math.nextafter(v, -math.inf if up else math.inf))
        if kind == "float_or_literal":
            for lit in spec.get("literals", []):
                add("literal", lit)
                add("literal_upper_padded", f" {lit.upper()} ")
            add("non_literal", "bogus")
        else:
            add("wrong_type_str", "abc")
        if not isint:
            add("nan", float("nan"))
            add("inf", float("inf"))
        add("wrong_type_list", [base])
    elif kind == "enum":
        for m in spec["members"]:
            add(f"member:{m}", m)
        add("member_upper_padded", f" {spec['members'][-1].upper()} ")
        add("non_member", "not_a_member")
        add("wrong_type_int", 7)
    elif kind == "str":
        if spec.get("choices"):
            for m in spec["choices"]:
                add(f"choice:{m}", m)
            add("choice_upper_padded", f" {spec['choices'][0].upper()} ")
        add("non_choice", "monsoon")
        add("wrong_type_int", 5)
    elif kind == "list_float":
        add("two_valid", [2.0, 0.5])
        add("too_short", [1.0])
        add("too_long", [1.0, 2.0, 3.0])
        add("zero_element", [0.0, 1.0])
        add("negative_element", [1.0, -1.0])
        add("nan_element", [float("nan"), 1.0])
        add("wrong_element", [1.0, "x"])
        add("empty", [])
        add("scalar", 1.4)
    elif kind == "list_str":
        if isinstance(default, list) and default:
            add("reordered", list(reversed(default)))
            add("dropped_last", default[:-1])
            add("extended", default + ["extra"])
        add("single", ["temperature"])
        add("solar", ["temperature", "ghi"])
        add("wrong_element", [5])
        add("scalar", "temperature")
    elif kind == "list_any":
        add("one_column", ["col_a"])
        add("scalar", "col_a")
    elif kind == "settings":
        add("empty_dict", {})
        add("wrong_type_str", "abc")
        add("wrong_type_int", 5)
    add("none", None)
    return out


# ---------------------------------------------------------------- validity of one value against its declaration
def coerce(spec, v):
    """-> (status, normalised value).  Only unambiguous coercions are given a definite status."""
    kind = spec["kind"]
    if v is None:
        return (VALID, None) if spec.get("optional") else (INVALID, None)
    if kind == "bool":
        return (VALID, v) if isinstance(v, bool) else (INVALID, v) if v == "maybe" else (UNSPEC, v)
    if kind in ("int", "float", "float_or_literal"):
        if isinstance(v, str):
            if kind == "float_or_literal":
                n = v.lower().strip()
                return (VALID, n) if n in spec.get("literals", []) else (INVALID, n) if n == "bogus" else (UNSPEC, n)
            return (INVALID, v) if v == "abc" else (UNSPEC, v)
        if not _isnum(v):
            return INVALID, v
        if isinstance(v, float) and math.isnan(v) and any(b in spec for b in ("ge", "gt", "le", "lt")):
            return INVALID, v  # NaN satisfies no bound
        if isinstance(v, float) and (math.isnan(v) or math.isinf(v)):
            return UNSPEC, v  # no declared bound speaks about it; a documented cross-field range may still exclude it
        if kind == "int" and not isinstance(v, int):
            return UNSPEC, v
        ok = True
        if "ge" in spec and not v >= spec["ge"]:
            ok = False
        if "gt" in spec and not v > spec["gt"]:
            ok = False
        if "le" in spec and not v <= spec["le"]:
            ok = False
        if "lt" in spec and not v < spec["lt"]:
            ok = False
        return (VALID if ok else INVALID), (v if kind == "int" else float(v))
    if kind == "enum":
        if not isinstance(v, str):
            return INVALID, v
        n = v.lower().strip()
        return (VALID, n) if n in spec["members"] else (INVALID, n)
    if kind == "str":
        if not isinstance(v, str):
            return INVALID, v
        return VALID, v.lower().strip()  # membership in `options` / pywt lists is a cross-field rule
    if kind in ("list_float", "list_str", "list_any"):
        if not isinstance(v, list):
            return INVALID, v
        if kind == "list_float":
            if not all(_isnum(x) for x in v):
                return INVALID, v
            return VALID, [float(x) for x in v]
        if kind == "list_str":
            if not all(isinstance(x, str) for x in v):
                return INVALID, v
            return VALID, [x.lower().strip() for x in v]
        return VALID, v
    if kind == "settings":
        if isinstance(v, dict):
            return VALID, v
        return INVALID, v
    return UNSPEC, v


# ---------------------------------------------------------------- documented cross-field rules
def _worst(*st):
    return INVALID if INVALID in st else UNSPEC if UNSPEC in st else VALID


def daily_rules(t):
    """t: full normalised settings tree (approved defaults + overrides)."""
    res = []
    af, aft, fbs, amin = t["alpha_final"], t["alpha_final_type"], t["final_bounds_scalar"], t["alpha_minimum"]
    if af is None:
        if aft is not None:
            res.append(INVALID)  # alpha_final must be set if alpha_final_type is not None
    elif _isnum(af):
        if _isnum(amin) and not (amin <= af <= 2):
            res.append(INVALID)  # alpha_minimum <= alpha_final <= 2
    elif af != "adaptive":
        res.append(INVALID)
    if af is not None and aft is None:
        # the rules on final_bounds_scalar are worded in terms of alpha_final and implemented in terms of
        # alpha_final_type; the two readings only agree when both are None or both are set
        res.append(UNSPEC)
    else:
        if fbs is not None:
            if aft is None:
                res.append(INVALID)
        elif aft is not None:
            res.append(INVALID)
    if fbs is not None and _isnum(fbs) and not fbs > 0:
        res.append(INVALID)  # must be > 0 (written positively: NaN is not > 0)
    ua = t.get("uncertainty_alpha")
    if _isnum(ua) and ua in (0, 1):
        res.append(UNSPEC)  # declared bounds include 0 and 1, the docstring says 0 < float < 1
    isp, alg = t["initial_step_percentage"], t["algorithm_choice"]
    if isp is not None:
        if _isnum(isp) and not (0 < isp <= 0.5):
            res.append(INVALID)
    else:
        if alg is None:
            res.append(UNSPEC)  # "must be specified if the algorithm is from nlopt": no algorithm at all is not covered
        elif isinstance(alg, str) and alg.startswith("nlopt"):
            res.append(INVALID)
    ss = t["split_selection"]
    if isinstance(ss, dict):
        r = ss.get("reduce_splits_num_std")
        if r is not None and isinstance(r, list):
            if len(r) != 2 or not all(_isnum(x) and x > 0 for x in r):
                res.append(INVALID)
    for blk, keys in (("season", MONTHS), ("weekday_weekend", DAYS)):
        b = t[blk]
        if isinstance(b, dict):
            opts = b.get("options")
            if isinstance(opts, list):
                for k in keys:
                    if b.get(k) not in opts:
                        res.append(INVALID)
                if any(o not in DEFAULT_OPTIONS[blk] for o in opts):
                    # the models hard-wire the three seasons / two day types: a month or day given any other name would belong
                    # to no sub-model (never fitted, never predicted) - such an option list cannot be honoured and is invalid
                    res.append(INVALID)
                elif not json_equal(opts, DEFAULT_OPTIONS[blk]):
                    res.append(UNSPEC)  # a reordered list or a proper subset of the known names is not pinned
    return _worst(*res)


MONTHS = ["january", "february", "march", "april", "may", "june", "july", "august", "september", "october",
          "november", "december"]
DAYS = ["monday", "tuesday", "wednesday", "thursday", "friday", "saturday", "sunday"]
DEFAULT_OPTIONS = {"season": ["summer", "shoulder", "winter"], "weekday_weekend": ["weekday", "weekend"]}


def hourly_rules(t):
    import pywt

    res = []
    tb = t["temperature_bin"]
    if isinstance(tb, dict):
        m, nb, bw = tb["method"], tb["n_bins"], tb["bin_width"]
        ieb, rate, pct = tb["include_edge_bins"], tb["edge_bin_rate"], tb["edge_bin_percent"]
        if m == "set_bin_width":
            if bw is None or nb is not None:
                res.append(INVALID)
        else:
            if nb is None or bw is not None:
                res.append(INVALID)
            if ieb is True:
                res.append(INVALID)
        if ieb is True:
            if rate is None or pct is None:
                res.append(INVALID)
        elif ieb is False:
            if rate is not None or pct is not None:
                res.append(INVALID)
    tc = t["temporal_cluster"]
    if isinstance(tc, dict):
        if isinstance(tc["wavelet_name"], str) and tc["wavelet_name"] not in pywt.wavelist(kind="discrete"):
            res.append(INVALID)
        if isinstance(tc["wavelet_mode"], str) and tc["wavelet_mode"] not in pywt.Modes.modes:
            res.append(INVALID)
    en = t["elasticnet"]
    if isinstance(en, dict):
        aw, it, tol = en["adaptive_weights"], en["adaptive_weight_max_iter"], en["adaptive_weight_tol"]
        if aw is True and (it is None or tol is None):
            res.append(INVALID)
        if aw is False and (it is not None or tol is not None):
            res.append(INVALID)
    return _worst(*res)


def evaluate(table, family, overrides):
    """overrides: [(path list (declared spelling), raw value)].
    -> (status, expected tree or None, {dotted path: normalised value})"""
    fam = table["families"][family]
    tree = copy.deepcopy(fam["defaults"])
    for k, v in fam.get("excluded_defaults", {}).items():
        tree[k] = v
    status, norm = [], {}
    for path, raw in overrides:
        dotted = ".".join(path)
        spec = fam["fields"].get(dotted)
        if spec is None:
            return UNSPEC, None, {}
        parent = get_path(tree, path[:-1]) if len(path) > 1 else tree
        if not isinstance(parent, dict):
            return UNSPEC, None, {}  # parent block was replaced by None / a scalar by an earlier override
        st, val = coerce(spec, raw)
        status.append(st)
        if spec["kind"] == "settings" and isinstance(val, dict):
            sub = copy.deepcopy(get_path(fam["defaults"], path))
            if not isinstance(sub, dict):
                status.append(UNSPEC)
                sub = {}
            sub.update(val)
            val = sub
        norm[dotted] = val
        set_path(tree, path, val)
    st = _worst(*status)
    if st != INVALID:
        rules = daily_rules if family in DAILY_FAMILIES else hourly_rules
        try:
            st = _worst(st, rules(tree))
        except (KeyError, TypeError):
            st = _worst(st, UNSPEC)
    return st, tree, norm


def developer_leaves(table, family):
    fam = table["families"][family]
    return [p for p, s in fam["fields"].items() if s.get("developer") and s["kind"] != "settings"]
