"""Reference model `sufficiency` — the published data-sufficiency criteria, evaluated on the INPUT.

Plain Python, integers and `fractions.Fraction` only; no pandas, no numpy, nothing from the
library.  The input is described by plain rows

    usage_rows : list of ((y, m, d, h), value | None)   one per meter timestamp, in time order
                 (None = the reading is missing); `None` instead of a list = no meter data supplied
    closing    : (y, m, d) of the read that closes the last billing period (billing only)
    temp_rows  : list of ((y, m, d, h), value | None)   daily or hourly feed, local wall clock
    ghi_rows   : same shape, hourly class only, optional

Criteria (statement of C10):
    SPAN         baseline span outside 329..365 days                              (baseline only)
    USAGE        under 90 % of days with valid usage                              (baseline; see readings)
    TEMP         under 90 % of days with valid temperature
    JOINT        under 90 % of days with valid usage and temperature
    MONTH_TEMP   some calendar month under 90 % temperature coverage
    MONTH_USAGE  some calendar month under 90 % usage coverage                    (hourly class, baseline)
    MONTH_GHI    some calendar month under 90 % irradiance coverage               (hourly class, if supplied)
    NEGATIVE     negative usage in a non-electric baseline
    NO_DATA      no data at all
Warning-only conditions: EXTREME, UTC, OFFCYCLE, UNVERIFIABLE.

Day counting ("each timestamp's period up to the next timestamp"): the last timestamp of a
series has no period, so at most N-1 of N daily rows can be counted; the denominator is the
span N (first to last day, inclusive).  Thresholds are strict "<" on exact fractions.

Where the statement leaves the count open, the model returns an interval [lo, hi] for the
numerator (and [Nlo, Nhi] for the span) and decides only when every value in the interval gives
the same verdict; otherwise the verdict is None (= both accepted) and the reason is listed in
`bands`.  Sources of an interval:
  * hourly temperature feed under a daily/billing meter: day grid vs hours of the feed;
  * billing: the closing read closes the last period (period sum = N) vs the daily grid (N-1);
  * billing: an off-cycle period's days counted as valid usage or as dropped;
  * zones with DST, daily / billing rows: +-1/8 day on every count of valid days (real day lengths vs days; the span is exact);
  * month coverage: months pooled by month number vs separate (year, month).
For reporting data two complete readings are returned (usage criteria do not apply / apply when
usage is supplied); an observation conforms if it matches one of them.
"""
from datetime import date
from fractions import Fraction as F

CRITERIA = ("SPAN", "USAGE", "TEMP", "JOINT", "MONTH_TEMP", "MONTH_USAGE", "MONTH_GHI", "NEGATIVE", "NO_DATA")
WARN_ONLY = ("EXTREME", "UTC", "OFFCYCLE", "UNVERIFIABLE")
NINE_TENTHS = F(9, 10)
MIN_SPAN, MAX_SPAN = 329, 365

# library qualified_name -> criterion / warning-only condition (read off the library source; several
# names may map to the same criterion, the comparison is made on criteria)
LIB_NAMES = {
    "eemeter.sufficiency_criteria.incorrect_number_of_total_days": "SPAN",
    "eemeter.sufficiency_criteria.too_many_days_with_missing_meter_data": "USAGE",
    "eemeter.sufficiency_criteria.too_many_days_with_missing_temperature_data": "TEMP",
    "eemeter.sufficiency_criteria.too_many_days_with_missing_data": "JOINT",
    "eemeter.sufficiency_criteria.missing_monthly_temperature_data": "MONTH_TEMP",
    "eemeter.sufficiency_criteria.missing_monthly_meter_data": "MONTH_USAGE",
    "eemeter.sufficiency_criteria.missing_monthly_ghi_data": "MONTH_GHI",
    "eemeter.sufficiency_criteria.negative_meter_values": "NEGATIVE",
    "eemeter.sufficiency_criteria.no_data": "NO_DATA",
    "eemeter.sufficiency_criteria.extreme_values_detected": "EXTREME",
    "eemeter.data_quality.utc_index": "UTC",
    "eemeter.sufficiency_criteria.offcycle_reads_in_billing_monthly_data": "OFFCYCLE",
    "eemeter.sufficiency_criteria.unable_to_confirm_daily_temperature_sufficiency": "UNVERIFIABLE",
    # informational warnings that are not part of the statement
    "eemeter.sufficiency_criteria.missing_high_frequency_temperature_data": "INFO_HF_TEMP",
    "eemeter.sufficiency_criteria.missing_high_frequency_meter_data": "INFO_HF_METER",
    "eemeter.sufficiency_criteria.inferior_model_usage": "INFO_INFERIOR_MODEL",
}


def _ord(ymd):
    return date(ymd[0], ymd[1], ymd[2]).toordinal()


def _decide(lo, hi, nlo, nhi):
    """True = violated under every reading, False = satisfied under every reading, None = open."""
    lo = max(F(lo), F(0))
    hi = max(F(hi), F(0))
    nlo = max(nlo, 1)
    if hi / nlo < NINE_TENTHS:
        return True
    if lo / nhi >= NINE_TENTHS:
        return False
    return None


def _month_verdict(keys, valid):
    """keys: list of (y, m) per row; valid: list of bool.  Pooled by month number and per (y, m)."""
    out = []
    for pooled in (True, False):
        tot, ok = {}, {}
        for k, v in zip(keys, valid):
            g = k[1] if pooled else k
            tot[g] = tot.get(g, 0) + 1
            ok[g] = ok.get(g, 0) + (1 if v else 0)
        out.append(any(F(ok[g], tot[g]) < NINE_TENTHS for g in tot))
    return out[0] if out[0] == out[1] else None


def _median(xs):
    xs = sorted(xs)
    n = len(xs)
    return xs[n // 2] if n % 2 else (xs[n // 2 - 1] + xs[n // 2]) / 2


def _quantile(xs, q):
    xs = sorted(xs)
    if len(xs) == 1:
        return xs[0]
    pos = q * (len(xs) - 1)
    i = int(pos)
    f = pos - i
    return xs[i] if i + 1 >= len(xs) else xs[i] + (xs[i + 1] - xs[i]) * f


def evaluate(kind, role, electric, usage_rows, temp_rows, ghi_rows=None, closing=None,
             temp_feed="D", dst=False, utc=False):
    assert kind in ("daily", "billing", "hourly") and role in ("baseline", "reporting")
    bands = []
    info = {}
    has_usage = usage_rows is not None and any(v is not None for _, v in usage_rows)

    # ------------------------------------------------------------------ the day grid
    if usage_rows:
        first = _ord(usage_rows[0][0])
        last = _ord(closing) - 1 if (kind == "billing" and closing is not None) else _ord(usage_rows[-1][0])
    else:
        first, last = _ord(temp_rows[0][0]), _ord(temp_rows[-1][0])
    n_days = last - first + 1
    info["N"] = n_days
    days = range(first, last + 1)

    # per-day temperature validity: every reading of that local day present (and at least one)
    t_tot, t_ok = {}, {}
    for (k, v) in temp_rows:
        o = _ord(k)
        if first <= o <= last:
            t_tot[o] = t_tot.get(o, 0) + 1
            t_ok[o] = t_ok.get(o, 0) + (v is not None)
    partial_temp = [o for o in t_tot if 0 < t_ok[o] < t_tot[o]]
    t_day = {o: (t_tot.get(o, 0) > 0 and t_ok.get(o, 0) == t_tot.get(o, 0)) for o in days}

    # per-day usage validity (lo: off-cycle periods dropped, hi: kept)
    u_lo, u_hi = {o: False for o in days}, {o: False for o in days}
    offcycle = False
    neg = False
    rates = []
    if usage_rows is not None:
        for _, v in usage_rows:
            if v is not None and v < 0:
                neg = True
        if kind == "daily":
            for k, v in usage_rows:
                u_lo[_ord(k)] = u_hi[_ord(k)] = v is not None
                if v is not None:
                    rates.append(F(v))
        elif kind == "billing":
            starts = [_ord(k) for k, _ in usage_rows] + [last + 1]
            lens = [b - a for a, b in zip(starts, starts[1:])]
            limit = 70 if _median(lens) > 35 else 35
            for (k, v), a, n in zip(usage_rows, starts, lens):
                off = n < 25 or n > limit
                if off and v is not None:
                    offcycle = True
                for o in range(a, a + n):
                    u_hi[o] = v is not None
                    u_lo[o] = v is not None and not off
                if v is not None:
                    rates.append(F(v) / n)
        else:
            rates = [F(v) for _, v in usage_rows if v is not None]

    valid_t_any = any(t_day.values()) if kind != "hourly" else any(v is not None for _, v in temp_rows)
    info["offcycle"] = offcycle

    # zones with DST: the denominator is the span in calendar days (exact); the class weighs every valid day by its real length
    # (23/24, 1, 25/24 of a day), the statement counts days: at most three clock changes in 420 days, so the two counts differ by
    # at most 1/8 day (daily / billing rows; the hourly class counts real hours either way)
    nlo, nhi = n_days, n_days
    pad = F(1, 8) if (dst and kind != "hourly") else 0
    if pad:
        bands.append("dst_zone_margin")

    def count(d, upto_last):
        return sum(1 for o in days if d[o] and (upto_last or o != last))

    # ------------------------------------------------------------------ count intervals
    if kind == "hourly":
        # rows are hours; the last row has no period
        def hours(rows):
            return sum(1 for _, v in rows[:-1] if v is not None)

        def whole_days(rows_list):
            ok = {}
            for rows in rows_list:
                for k, v in rows:
                    o = _ord(k)
                    ok[o] = ok.get(o, True) and v is not None
            return sum(1 for o in ok if ok[o] and o != last)

        def interval(rows_list):
            if len(rows_list) == 1:
                h = hours(rows_list[0])
            else:
                a, b = rows_list
                assert len(a) == len(b)
                h = sum(1 for (_, x), (_, y) in list(zip(a, b))[:-1] if x is not None and y is not None)
            return F(h, 24), F(h, 24)   # exact hours / 24 (the class no longer truncates the total to whole days)

        T = interval([temp_rows])
        if usage_rows is not None:
            U = interval([usage_rows])
            J = interval([usage_rows, temp_rows])
        else:
            U = J = (0, F(0))
    else:
        t_lo = count(t_day, False)
        t_hi = t_lo if temp_feed == "D" else count(t_day, True) - (F(1, 24) if t_day[last] else 0)
        T = (t_lo, t_hi)
        j_lo_d = {o: u_lo[o] and t_day[o] for o in days}
        j_hi_d = {o: u_hi[o] and t_day[o] for o in days}
        if kind == "daily":
            U = (count(u_lo, False), count(u_hi, False))
            j_hi = count(j_hi_d, False) if temp_feed == "D" else count(j_hi_d, True) - (F(1, 24) if j_hi_d[last] else 0)
            J = (count(j_lo_d, False), j_hi)
        else:
            U = (count(u_lo, False), count(u_hi, True))
            J = (count(j_lo_d, False), count(j_hi_d, True))
    info["U"], info["T"], info["J"] = [str(x) for x in U], [str(x) for x in T], [str(x) for x in J]

    joint_row = J[1] > 0          # some day/hour carries usage and temperature together
    temp_row = bool(valid_t_any)  # some temperature reading is present

    def dec(iv, name, span_defined):
        lo, hi = iv
        if not span_defined:
            # no complete row: the span (the denominator) is undefined, so only "nothing valid at
            # all" is decided
            return True if hi == 0 else None
        v = _decide(lo - pad, hi + pad, nlo, nhi)
        if v is None:
            bands.append(f"{name}_count_band")
        return v

    # ------------------------------------------------------------------ month coverage
    if kind == "hourly":
        mt = _month_verdict([k[:2] for k, _ in temp_rows], [v is not None for _, v in temp_rows])
        mu = (_month_verdict([k[:2] for k, _ in usage_rows], [v is not None for _, v in usage_rows])
              if usage_rows is not None else None)
        mg = (_month_verdict([k[:2] for k, _ in ghi_rows], [v is not None for _, v in ghi_rows])
              if ghi_rows is not None else False)
    else:
        keys = [(date.fromordinal(o).year, date.fromordinal(o).month) for o in days]
        mt = _month_verdict(keys, [t_day[o] for o in days])
        mu, mg = False, False
    if partial_temp and kind != "hourly":
        # a day with some but not all temperature readings: validity of that day is not pinned
        mt = None
        bands.append("partial_temperature_day")
    if mt is None and "partial_temperature_day" not in bands:
        bands.append("month_pooling_band")

    # ------------------------------------------------------------------ assemble the reading(s)
    def base_reading():
        return {c: False for c in CRITERIA}

    readings = []
    if role == "baseline":
        r = base_reading()
        if joint_row:
            # the span is a number of local calendar days: exact in every zone (a clock change makes the elapsed time
            # an hour short or long, it does not change the number of days)
            r["SPAN"] = not (MIN_SPAN <= n_days <= MAX_SPAN)
        else:
            r["SPAN"] = None
        r["USAGE"] = dec(U, "USAGE", joint_row)
        r["TEMP"] = dec(T, "TEMP", joint_row)
        r["JOINT"] = dec(J, "JOINT", joint_row)
        r["MONTH_TEMP"] = mt
        r["MONTH_USAGE"] = mu if kind == "hourly" else False
        if kind == "hourly" and mu is None:
            bands.append("month_pooling_band")
        r["MONTH_GHI"] = mg
        r["NEGATIVE"] = bool(neg and not electric)
        if not has_usage and not valid_t_any:
            r["NO_DATA"] = True
        elif not joint_row:
            r["NO_DATA"] = None
        readings.append(r)
    else:
        # reading A: reporting data is judged on temperature (meter data is optional for reporting)
        a = base_reading()
        a["TEMP"] = dec(T, "TEMP", temp_row)
        a["JOINT"] = a["TEMP"]
        a["MONTH_TEMP"] = mt
        a["MONTH_GHI"] = mg
        if not valid_t_any:
            a["NO_DATA"] = True if not has_usage else None
        readings.append(a)
        if has_usage:
            # reading B: the usage coverage criteria apply to supplied reporting usage as well
            b = dict(a)
            b["USAGE"] = dec(U, "USAGE", joint_row)
            b["TEMP"] = dec(T, "TEMP", joint_row)
            b["JOINT"] = dec(J, "JOINT", joint_row)
            b["MONTH_USAGE"] = None if kind == "hourly" else False
            readings.append(b)

    # ------------------------------------------------------------------ warning-only conditions
    extreme = False
    if role == "baseline" and len(rates) >= 4:
        med = _median(rates)
        iqr = _quantile(rates, F(3, 4)) - _quantile(rates, F(1, 4))
        extreme = iqr > 0 and max(rates) > med + 6 * iqr  # clearly beyond the published median + 3 IQR
    warn_required = {
        "EXTREME": bool(extreme),
        "UTC": bool(utc),
        "OFFCYCLE": bool(offcycle and kind == "billing"),
        "UNVERIFIABLE": bool(kind in ("daily", "billing") and temp_feed == "D"),
    }
    return {"readings": readings, "warn_required": warn_required, "bands": sorted(set(bands)), "info": info}


def conforms(readings, observed):
    """observed: set of criteria reported as disqualifications.
    Returns (ok, best_reading_index, mismatches) where mismatches = [(criterion, expected, got)]
    against the reading with the fewest mismatches."""
    best = None
    for i, r in enumerate(readings):
        mm = [(c, r[c], c in observed) for c in CRITERIA if r[c] is not None and r[c] != (c in observed)]
        if best is None or len(mm) < len(best[1]):
            best = (i, mm)
    return (len(best[1]) == 0, best[0], best[1])
