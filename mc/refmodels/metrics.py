"""Reference ("textbook") fit / savings statistics, computed from the input pairs alone.

Plain Python: `fractions.Fraction` arithmetic for short series (every sum, mean,
variance, covariance, quantile and every "is the denominator zero / below the
floor" decision is exact), `math.fsum` (correctly rounded sums) for long ones.
Nothing here imports pandas or the library under test.

Every reference statistic is returned as an *acceptance list*: a list of
admissible outcomes, each either
    ("num", value, abs_tol)   the reported value must be a finite number within abs_tol of value
    ("undef",)                the reported value must be undefined: None or NaN
    ("nonfinite",)            None, NaN or +-inf (used where the reporting class has no None and no floor of its own)
    ("any",)                  no requirement (statistic outside the statement, or outside its defined domain)
Several entries = several readings the statement allows (listed in the check's ASSUMPTIONS).
"""
import math
from fractions import Fraction
from functools import lru_cache
from statistics import NormalDist

FLOOR = 1e-3  # the library's own safety floor (BaselineMetrics._min_denominator)
REL = 1e-12  # relative tolerance between two different computations of the same real number
MAD_K = 1.0 / NormalDist().inv_cdf(0.75)
EXACT_MAX_N = 512

UNDEF = ("undef",)
NONFINITE = ("nonfinite",)
ANY = ("any",)


def num(v, scale=0.0, rel=REL):
    v = float(v)
    return ("num", v, rel * max(abs(v), float(scale)) + 1e-300)


# --------------------------------------------------------------------------- helpers
def finite_pairs(obs, pred):
    o, p = [], []
    for a, b in zip(obs, pred):
        a, b = float(a), float(b)
        if math.isfinite(a) and math.isfinite(b):
            o.append(a)
            p.append(b)
    return o, p


class Arith:
    """Exact (Fraction) or correctly-rounded-sum (float) arithmetic on a list of doubles."""

    def __init__(self, exact):
        self.exact = exact

    def conv(self, xs):
        return [Fraction(x) for x in xs] if self.exact else [float(x) for x in xs]

    def sum(self, xs):
        return sum(xs, Fraction(0)) if self.exact else math.fsum(xs)

    def q(self, a, b):  # the rational a/b
        return Fraction(a, b) if self.exact else a / b


def _quantile_linear(A, xs, qn, qd):
    """numpy's default ('linear', Hyndman-Fan 7) quantile qn/qd of xs."""
    s = sorted(xs)
    n = len(s)
    pos = A.q(qn * (n - 1), qd)
    lo = int(math.floor(pos))
    hi = min(lo + 1, n - 1)
    return s[lo] + (s[hi] - s[lo]) * (pos - lo)


def _median(A, xs):
    s = sorted(xs)
    n = len(s)
    return s[n // 2] if n % 2 else (s[n // 2 - 1] + s[n // 2]) / 2


def _sqrt(x):
    x = float(x)
    return math.sqrt(x) if x >= 0 else float("nan")


def column(A, xs):
    """Summary statistics of one column (ColumnMetrics).  Returns (acceptance dict, raw dict)."""
    return _column(A.exact, tuple(xs))


@lru_cache(maxsize=32)
def _column(exact, xs):
    A = Arith(exact)
    n = len(xs)
    X = A.conv(xs)
    absmean = math.fsum(abs(x) for x in xs) / n
    sq = math.fsum(x * x for x in xs) / n
    S = A.sum(X)
    mean = S / n
    dev = [x - mean for x in X]
    var = A.sum([d * d for d in dev]) / n
    spread0 = max(xs) == min(xs)
    if spread0:
        var = var * 0
    med = _median(A, X)
    mad = _median(A, [abs(x - med) for x in X])
    iqr = _quantile_linear(A, X, 3, 4) - _quantile_linear(A, X, 1, 4)
    acc = {
        "sum": [num(S, absmean * n)],
        "mean": [num(mean, absmean)],
        "variance": [num(var, sq)],
        "std": [num(_sqrt(var), math.sqrt(sq))],
        "sum_squared": [num(A.sum([x * x for x in X]))],
        "median": [num(med, absmean)],
        "MAD_scaled": [num(float(mad) * MAD_K, absmean)],
        "iqr": [num(iqr, absmean)],
    }
    # not statistics named by the statement; checked only on their defined domain
    acc["cvstd"] = [num(_sqrt(var) / float(mean), math.sqrt(sq) / float(mean), rel=1e-10)] if float(mean) > FLOOR * (1 + 1e-9) else [ANY]
    m2 = float(var)
    safe = m2 > 1e-6 * sq and m2 > 1e-12
    if n >= 3 and safe:
        m3 = float(A.sum([d * d * d for d in dev])) / n
        g1 = m3 / m2 ** 1.5
        acc["skew"] = [num(g1 * math.sqrt(n * (n - 1)) / (n - 2), 1.0, rel=1e-8)]
    else:
        acc["skew"] = [ANY]
    if n >= 4 and safe:
        m4 = float(A.sum([d * d * d * d for d in dev])) / n
        g2 = m4 / (m2 * m2) - 3
        acc["kurtosis"] = [num((n - 1) / ((n - 2) * (n - 3)) * ((n + 1) * g2 + 6), 10.0, rel=1e-8)]
    else:
        acc["kurtosis"] = [ANY]
    raw = {"sum": S, "mean": mean, "var": var, "iqr": iqr, "spread0": spread0, "absmean": absmean, "dev": dev}
    return acc, raw


def den_class(den, scale=1.0):
    """zero | negative | tiny_pos | near_floor | ok -- relative to the library's floor."""
    d = float(den)
    if abs(d - FLOOR) <= 1e-9 * FLOOR:
        return "near_floor"  # both verdicts accepted (a rounding away from the floor)
    if d > FLOOR:
        return "ok"
    if abs(d) <= 1e-9 * max(scale, 1e-300):
        return "zero"
    return "negative" if d < 0 else "tiny_pos"


def ratio(nums, den, scale):
    """Acceptance list of numerator/denominator with the safety-floor rule.
    nums: list of numerator readings (floats, or None for an undefined reading)."""
    dc = den_class(den, scale)
    out = []
    if dc in ("ok", "near_floor"):
        for v in nums:
            if v is None:
                out.append(UNDEF)
            else:
                out.append(num(float(v) / float(den), rel=4 * REL))
    if dc != "ok" or not out:
        out.append(UNDEF)
    return out, dc


def lag1_autocorr(A, e):
    """Pearson correlation of (e[1:], e[:-1]).  Returns (rho or None, one_plus_rho_is_zero, one_minus_rho_is_zero)."""
    return _lag1_autocorr(A.exact, tuple(e))


@lru_cache(maxsize=32)
def _lag1_autocorr(exact, e):
    A = Arith(exact)
    if len(e) < 3:
        return None, False, False
    E = A.conv(e)
    x, y = E[1:], E[:-1]
    if max(e[1:]) == min(e[1:]) or max(e[:-1]) == min(e[:-1]):
        return None, False, False
    m = len(x)
    mx, my = A.sum(x) / m, A.sum(y) / m
    dx, dy = [a - mx for a in x], [b - my for b in y]
    cov = A.sum([a * b for a, b in zip(dx, dy)])
    vx, vy = A.sum([a * a for a in dx]), A.sum([b * b for b in dy])
    if A.exact:
        r2 = cov * cov / (vx * vy)
        if r2 == 1:
            return (1.0 if cov > 0 else -1.0), cov < 0, cov > 0
        rho = math.copysign(math.sqrt(float(r2)), float(cov))
    else:
        rho = float(cov) / math.sqrt(float(vx) * float(vy))
        rho = max(-1.0, min(1.0, rho))
    return rho, (1 + rho) < 1e-9, (1 - rho) < 1e-9


def spread_condition(xs):
    """mean square / variance: the factor by which a floating-point correlation of xs amplifies rounding
    (inf when there is no spread).  Only used to widen tolerances / to declare a case ill-conditioned."""
    n = len(xs)
    if n < 2:
        return float("inf")
    m = math.fsum(xs) / n
    v = math.fsum((x - m) ** 2 for x in xs) / n
    ms = math.fsum(x * x for x in xs) / n
    return float("inf") if v == 0 else ms / v


def corr_squared(A, a, b):
    """Squared Pearson correlation; None when either series has no spread."""
    return _corr_squared(A.exact, tuple(a), tuple(b))


@lru_cache(maxsize=32)
def _corr_squared(exact, a, b):
    A = Arith(exact)
    n = len(a)
    if n < 2 or max(a) == min(a) or max(b) == min(b):
        return None
    X, Y = A.conv(a), A.conv(b)
    mx, my = A.sum(X) / n, A.sum(Y) / n
    dx, dy = [x - mx for x in X], [y - my for y in Y]
    cov = A.sum([p * q for p, q in zip(dx, dy)])
    vx, vy = A.sum([p * p for p in dx]), A.sum([q * q for q in dy])
    return float(cov * cov / (vx * vy)) if A.exact else float(cov) ** 2 / (float(vx) * float(vy))


# --------------------------------------------------------------------------- t quantile (own bisection)
@lru_cache(maxsize=4096)
def t_quantile(prob, dof):
    """Student-t quantile by bisection on the regularised incomplete beta function."""
    from scipy.special import betainc

    if not (dof > 0) or not (0 < prob < 1):
        return float("nan")
    if prob == 0.5:
        return 0.0
    if prob < 0.5:
        return -t_quantile(1 - prob, dof)

    def cdf(t):  # complementary form: no cancellation for large dof
        return 0.5 + 0.5 * float(betainc(0.5, dof / 2.0, t * t / (dof + t * t)))

    lo, hi = 0.0, 1.0
    while cdf(hi) < prob:
        hi *= 2
        if hi > 1e300:
            return float("inf")
    for _ in range(200):
        mid = 0.5 * (lo + hi)
        if cdf(mid) < prob:
            lo = mid
        else:
            hi = mid
    return 0.5 * (lo + hi)


# --------------------------------------------------------------------------- BaselineMetrics
RATIO_DENS = {
    "nmae": "mean", "nmbe": "mean", "cvrmse": "mean", "cvrmse_adj": "mean", "cvrmse_autocorr_adj": "mean",
    "pnmae": "iqr", "pnmbe": "iqr", "pnrmse": "iqr", "pnrmse_adj": "iqr", "pnrmse_autocorr_adj": "iqr",
}


def baseline_reference(obs, pred, p, sign=1, reported_n_prime=None):
    """Acceptance lists for every statistic BaselineMetrics exposes.

    sign=+1: residual = observed - predicted; -1: predicted - observed (both conventions are textbook).
    reported_n_prime: the library's own n' -- the three *_autocorr_adj forms are checked as functions of it
    (n' itself is checked against the formula separately), because n' is ill-conditioned near rho = -1.
    Returns (acc, info) or (None, info) when there is no finite pair.
    """
    o, q = finite_pairs(obs, pred)
    n = len(o)
    info = {"n": n}
    if n == 0:
        return None, info
    A = Arith(n <= EXACT_MAX_N)
    e = [(a - b) * sign for a, b in zip(o, q)]  # the same IEEE subtraction the library performs
    acc = {"n": [num(n)]}
    co, ro = column(A, o)
    cp, rp = column(A, q)
    ce, re_ = column(A, e)
    for name, c in (("observed", co), ("predicted", cp), ("residuals", ce)):
        for k, v in c.items():
            acc[f"{name}.{k}"] = v
    E = A.conv(e)
    abs_e = math.fsum(abs(x) for x in e) / n
    sse = A.sum([x * x for x in E])
    mae = A.sum([abs(x) for x in E]) / n
    mbe = re_["mean"]
    acc["mae"] = [num(mae)]
    acc["mbe"] = [num(mbe, abs_e)]
    acc["sse"] = [num(sse)]
    acc["mse"] = [num(sse / n)]
    rmse = _sqrt(sse / n)
    acc["rmse"] = [num(rmse)]
    # degrees of freedom: n - p; the library floors at 1 where the textbook value is not positive
    if n - p >= 1:
        acc["ddof"] = [num(n - p)]
        rmse_adj = [_sqrt(sse / (n - p))]
    else:
        acc["ddof"] = [num(1), UNDEF]
        rmse_adj = [_sqrt(sse), None]
    acc["rmse_adj"] = [num(v) if v is not None else UNDEF for v in rmse_adj]
    # autocorrelation-corrected n
    rho, opz, omz = lag1_autocorr(A, e)
    info["rho"] = rho
    if rho is None:
        acc["n_prime"] = [UNDEF, num(1), num(n)]  # rho undefined: undefined, or a documented fallback
        info["n_prime_class"] = "rho_undefined"
    elif opz:
        acc["n_prime"] = [UNDEF, num(1)]  # denominator 1+rho is zero
        info["n_prime_class"] = "rho=-1"
    elif 4e-15 * max(spread_condition(e[1:]), spread_condition(e[:-1])) > 1e-4:
        acc["n_prime"] = [ANY]  # the spread of the residuals is rounding noise of observed - predicted
        info["n_prime_class"] = "rho_ill_conditioned"
    else:
        v = 0.0 if (omz and A.exact) else n * (1 - rho) / (1 + rho)
        tol_rho = 2e-14 + 4e-15 * max(spread_condition(e[1:]), spread_condition(e[:-1]))
        # conditioning-aware: d n'/d rho = -2n/(1+rho)^2
        acc["n_prime"] = [("num", v, 1e-12 * max(abs(v), n) + n * tol_rho / (1 + rho) ** 2)]
        info["n_prime_class"] = "rho=+1" if omz else "regular"
    npr = reported_n_prime
    if npr is None or not isinstance(npr, (int, float)) or not math.isfinite(npr):
        acc["ddof_autocorr"] = [ANY]
        rmse_ac = None
    else:
        d = npr - p
        if d >= 1:
            acc["ddof_autocorr"] = [num(d)]
            rmse_ac = [_sqrt(float(sse) / d)]
        else:
            acc["ddof_autocorr"] = [num(1), UNDEF]
            rmse_ac = [_sqrt(sse), None]
    acc["rmse_autocorr_adj"] = [ANY] if rmse_ac is None else [num(v) if v is not None else UNDEF for v in rmse_ac]
    # ratios with the safety floor
    dens = {"mean": (ro["mean"], ro["absmean"]), "iqr": (ro["iqr"], ro["absmean"])}
    nums = {
        "nmae": [float(mae)], "pnmae": [float(mae)], "nmbe": [float(mbe)], "pnmbe": [float(mbe)],
        "cvrmse": [rmse], "pnrmse": [rmse], "cvrmse_adj": rmse_adj, "pnrmse_adj": rmse_adj,
        "cvrmse_autocorr_adj": rmse_ac, "pnrmse_autocorr_adj": rmse_ac,
    }
    info["den_class"] = {}
    for k, dn in RATIO_DENS.items():
        den, sc = dens[dn]
        if nums[k] is None:
            acc[k] = [ANY]
            continue
        acc[k], dc = ratio(nums[k], den, sc)
        if k in ("nmbe", "pnmbe"):  # cancellation in the numerator
            acc[k] = [(a[0], a[1], a[2] + 4 * REL * abs_e / abs(float(den))) if a[0] == "num" else a for a in acc[k]]
        info["den_class"][dn] = dc
    info["den"] = {"mean": float(ro["mean"]), "iqr": float(ro["iqr"])}
    info["gate"] = {"cv": acc["cvrmse_adj"], "pn": acc["pnrmse_adj"]}
    # R^2 = squared Pearson correlation of predicted and observed
    r2 = corr_squared(A, q, o)
    info["r2"] = r2
    tol_r2 = 1e-11 + 8e-15 * max(spread_condition(q), spread_condition(o)) if r2 is not None else 0.0
    dofm1 = n - p - 1
    if r2 is not None and tol_r2 > 1e-4:
        acc["r_squared"] = [ANY]  # the spread of a column is rounding noise
        acc["r_squared_adj"] = [ANY]
        info["r2adj_class"] = "ill_conditioned"
    else:
        acc["r_squared"] = [UNDEF] if r2 is None else [("num", r2, tol_r2)]
        if r2 is None or dofm1 <= 0:
            acc["r_squared_adj"] = [UNDEF]
            info["r2adj_class"] = "r2_undefined" if r2 is None else "dof-1<=0"
        else:
            acc["r_squared_adj"] = [("num", 1 - (1 - r2) * (n - 1) / dofm1, tol_r2 * max(1.0, (n - 1) / dofm1))]
            info["r2adj_class"] = "ok"
    # MAPE over rows whose |observed| is at least (or more than) the floor
    accm = []
    for strict in (False, True):
        rows = [(x, y) for x, y in zip(e, o) if (abs(y) > FLOOR if strict else abs(y) >= FLOOR)]
        accm.append(num(math.fsum(abs(x / y) for x, y in rows) / len(rows)) if rows else UNDEF)
    acc["mape"] = accm
    return acc, info


# --------------------------------------------------------------------------- ReportingMetrics
ASHRAE_POLY = {"daily": (-0.00024, 0.03535, 1.00286), "billing": (-0.00022, 0.03306, 0.94054)}


def reporting_reference(base, rep_obs, rep_pred, n_months, freq, confidence, tails):
    """base: dict(n, n_prime, ddof, cv) -- the baseline quantities the uncertainty formula consumes
    (the library's reported values, each verified against its own formula elsewhere).
    ASHRAE Guideline 14: dE = factor * E_rep * t * CV * sqrt(n/n' * (1 + 2/n') / m)."""
    o, q = finite_pairs(rep_obs, rep_pred)
    m = len(o)
    if m == 0:
        return None
    so, sp = math.fsum(o), math.fsum(q)
    ao, ap = math.fsum(map(abs, o)), math.fsum(map(abs, q))
    acc = {"n": [num(m)], "observed_sum": [num(so, ao)], "predicted_sum": [num(sp, ap)],
           "savings": [num(sp - so, ao + ap)]}
    prob = 1 - (1 - confidence) / tails
    ts = []
    for dof in (base["ddof"] - 1, base["ddof"]):  # which degrees of freedom is left open by the statement
        t = t_quantile(round(prob, 15), dof) if dof > 0 else float("nan")
        ts.append(t)
    acc["t_stat"] = [num(t, rel=1e-9) if math.isfinite(t) else NONFINITE for t in ts]
    cv, npr, n = base["cv"], base["n_prime"], base["n"]
    factor = 1.26 if freq == "hourly" else sum(c * n_months ** k for c, k in zip(ASHRAE_POLY[freq], (2, 1, 0)))
    defined = cv is not None and isinstance(cv, (int, float)) and math.isfinite(cv) and npr is not None and npr > 0
    us = []
    for t in ts:
        if not defined or not math.isfinite(t):
            us.append(None)
            continue
        inner = n / (m * npr) * (1 + 2 / npr)
        u = sp * t * cv * math.sqrt(inner) * factor
        us.append(u if math.isfinite(u) else None)
    sav = sp - so
    sav_zero = abs(sav) <= 1e-12 * (ao + ap)
    acc["total_savings_uncertainty"] = [num(u, rel=1e-9) if u is not None else NONFINITE for u in us]
    acc["predicted_data_point_unc"] = [num(u / math.sqrt(m), rel=1e-9) if u is not None else NONFINITE for u in us]
    if sav_zero:
        acc["fsu"] = [NONFINITE]
    else:
        cond = (ao + ap) / abs(sav)
        acc["fsu"] = [num(u / sav, rel=1e-9 + 1e-13 * cond) if u is not None else NONFINITE for u in us]
    return acc


# --------------------------------------------------------------------------- CalTRACK ModelMetrics
def caltrack_reference(obs, pred, p, confidence, reported):
    """Acceptance lists for the legacy CalTRACK ModelMetrics (float arithmetic; long series only).
    residual = predicted - observed (its documented convention).  `reported` supplies the class's own
    autocorr_resid / n_prime / observed_length for the derived uncertainty terms."""
    o, q = finite_pairs(obs, pred)
    n = len(o)
    if n == 0:
        return None, {"n": 0}
    A = Arith(False)
    e = [b - a for a, b in zip(o, q)]
    info = {"n": n}
    acc = {"merged_length": [num(n)]}
    co, ro = column(A, o)
    cp, rp = column(A, q)
    mean_o, amean_o = float(ro["mean"]), ro["absmean"]
    acc["observed_mean"] = [num(mean_o, amean_o), num(amean_o)]
    acc["predicted_mean"] = [num(float(rp["mean"]), rp["absmean"]), num(rp["absmean"])]
    acc["observed_variance"] = co["variance"]
    acc["predicted_variance"] = cp["variance"]
    acc["observed_skew"], acc["predicted_skew"] = co["skew"], cp["skew"]
    acc["observed_kurtosis"], acc["predicted_kurtosis"] = co["kurtosis"], cp["kurtosis"]
    for nm, r in (("observed", ro), ("predicted", rp)):
        outs = []
        for den in (float(r["mean"]), r["absmean"]):
            if den > FLOOR * (1 + 1e-9):
                for dd in (0, 1):
                    outs.append(num(_sqrt(float(r["var"]) * n / (n - dd)) / den, r["absmean"] / den, rel=1e-10))
        acc[f"{nm}_cvstd"] = outs or [ANY]
    r2 = corr_squared(A, q, o)
    tol_r2 = 1e-11 + 8e-15 * max(spread_condition(q), spread_condition(o)) if r2 is not None else 0.0
    d1 = n - p - 1
    if r2 is not None and tol_r2 > 1e-4:
        acc["r_squared"] = acc["r_squared_adj"] = [ANY]
    else:
        acc["r_squared"] = [NONFINITE] if r2 is None else [("num", r2, tol_r2)]
        acc["r_squared_adj"] = [NONFINITE] if (r2 is None or d1 <= 0) else [("num", 1 - (1 - r2) * (n - 1) / d1, tol_r2 * max(1.0, (n - 1) / d1))]
    sse = math.fsum(x * x for x in e)
    rmse = math.sqrt(sse / n)
    acc["rmse"] = [num(rmse)]
    rmse_adj = math.sqrt(sse / (n - p)) if n - p >= 1 else None
    acc["rmse_adj"] = [num(rmse_adj)] if rmse_adj is not None else [NONFINITE]
    # CVRMSE: RMSE / mean(observed); the class documents (code comment) mean(|observed|) "to account for solar"
    info["den_class"] = {}
    for k, nu in (("cvrmse", rmse), ("cvrmse_adj", rmse_adj)):
        outs = []
        dc = den_class(mean_o, amean_o)
        if nu is None:
            outs = [NONFINITE]
        else:
            if dc in ("ok", "near_floor"):
                outs.append(num(nu / mean_o, rel=4 * REL))
            if den_class(amean_o, amean_o) in ("ok", "near_floor"):
                outs.append(num(nu / amean_o, rel=4 * REL))
            if dc != "ok":
                outs.append(NONFINITE)
        acc[k] = outs
    so = float(ro["sum"])
    sae, se = math.fsum(abs(x) for x in e), math.fsum(e)
    dc = den_class(so / n, amean_o)
    info["den_class"]["sum_observed"] = dc
    for k, nu, sc in (("nmae", sae, 0.0), ("nmbe", se, sae)):
        outs = []
        if dc in ("ok", "near_floor"):
            v = nu / so
            outs.append(("num", v, 4 * REL * max(abs(v), sc / abs(so)) + 1e-300))
        if dc != "ok":
            outs.append(NONFINITE)
        acc[k] = outs
    if any(y == 0 for y in o):
        acc["mape"] = [ANY]  # not a statistic the statement names; 0/0 rows are skipped by the class
    else:
        acc["mape"] = [num(math.fsum(abs(x / y) for x, y in zip(e, o)) / n)]
    pos = [(x, y) for x, y in zip(e, o) if y > 0]
    acc["mape_no_zeros"] = [num(math.fsum(abs(x / y) for x, y in pos) / len(pos))] if pos else [NONFINITE]
    acc["num_meter_zeros"] = [num(n - len(pos))]
    rho, opz, omz = lag1_autocorr(A, e)
    info["rho"] = rho
    if rho is None:
        acc["autocorr_resid"] = [NONFINITE]
        acc["n_prime"] = [NONFINITE]
        info["n_prime_class"] = "rho_undefined"
    elif 4e-15 * max(spread_condition(e[1:]), spread_condition(e[:-1])) > 1e-4:
        acc["autocorr_resid"] = acc["n_prime"] = [ANY]
        info["n_prime_class"] = "rho_ill_conditioned"
    else:
        tol_rho = 2e-14 + 4e-15 * max(spread_condition(e[1:]), spread_condition(e[:-1]))
        acc["autocorr_resid"] = [("num", rho, 1e-11 + tol_rho)]
        if opz:
            acc["n_prime"] = [NONFINITE]
            info["n_prime_class"] = "rho=-1"
        else:
            outs = []
            for N in sorted({n, int(reported.get("observed_length") or n)}):
                v = N * (1 - rho) / (1 + rho)
                outs.append(("num", v, 1e-12 * max(abs(v), N) + N * tol_rho / (1 + rho) ** 2))
            acc["n_prime"] = outs
            info["n_prime_class"] = "rho=+1" if omz else "regular"
    acc["single_tailed_confidence_level"] = [num(1 - (1 - confidence) / 2)]
    # uncertainty terms, as functions of the class's own n'
    npr = reported.get("n_prime")
    ok = isinstance(npr, (int, float)) and math.isfinite(npr)
    if not ok:
        for k in ("degrees_of_freedom", "t_stat", "cvrmse_auto_corr_correction", "approx_factor_auto_corr_correction", "fsu_base_term"):
            acc[k] = [NONFINITE]
    else:
        dof = round(npr - p)
        acc["degrees_of_freedom"] = [num(dof)]
        t = t_quantile(round(1 - (1 - confidence) / 2, 15), dof) if dof > 0 else float("nan")
        acc["t_stat"] = [num(t, rel=1e-9)] if math.isfinite(t) else [NONFINITE]
        if npr - p < 1 or dof < 1 or not math.isfinite(t) or rmse_adj is None:
            for k in ("cvrmse_auto_corr_correction", "approx_factor_auto_corr_correction", "fsu_base_term"):
                acc[k] = [ANY]
        else:
            Ns = sorted({n, int(reported.get("observed_length") or n)})
            corr = [math.sqrt((N - p) / (npr - p)) for N in Ns if N - p >= 0]
            acc["cvrmse_auto_corr_correction"] = [num(c, rel=1e-10) for c in corr]
            ap = math.sqrt(1 + 2 / npr)
            acc["approx_factor_auto_corr_correction"] = [num(ap, rel=1e-10)]
            outs = []
            for a in acc["cvrmse_adj"]:
                if a[0] == "num":
                    outs += [num(t * a[1] * c * ap, rel=1e-9) for c in corr]
                else:
                    outs.append(a)
            acc["fsu_base_term"] = outs
    return acc, info


# --------------------------------------------------------------------------- comparison
def classify(got):
    """None | nan | +inf | -inf | num | other"""
    if got is None:
        return "None"
    try:
        g = float(got)
    except (TypeError, ValueError):
        return "other"
    if math.isnan(g):
        return "nan"
    if math.isinf(g):
        return "+inf" if g > 0 else "-inf"
    return "num"


def accepts(got, acceptance):
    c = classify(got)
    for a in acceptance:
        if a[0] == "any":
            return True
        if a[0] == "undef" and c in ("None", "nan"):
            return True
        if a[0] == "nonfinite" and c in ("None", "nan", "+inf", "-inf"):
            return True
        if a[0] == "num" and c == "num" and abs(float(got) - a[1]) <= a[2]:
            return True
    return False


def describe(acceptance):
    out = []
    for a in acceptance:
        out.append(repr(a[1]) if a[0] == "num" else {"undef": "undefined (None/NaN)", "nonfinite": "undefined (None/NaN/inf)", "any": "anything"}[a[0]])
    return " or ".join(out)
