"""Reference model `intervals`: constant-rate spreading of meter readings over
their intervals, in exact arithmetic.

Time is an integer number of minutes since 1970-01-01T00:00Z; usage is a
`fractions.Fraction`.  Local-day boundaries come from the standard library
(`zoneinfo`), not from pandas, so the reference shares no calendar code with
the implementation under test.

A *segment* is `(start_min, end_min, amount)`: `amount` (Fraction) is used at a
constant rate over `[start_min, end_min)`; `amount is None` means "no reading
for this interval" (the interval is not covered).

Deliberately boring: every function is a few lines of interval arithmetic.
"""
import datetime as _dt
from fractions import Fraction
from zoneinfo import ZoneInfo

_EPOCH = _dt.datetime(1970, 1, 1, tzinfo=_dt.timezone.utc)
_UTC = _dt.timezone.utc


# --------------------------------------------------------------------------- calendar

def wall_to_min(date, tz, minute_of_day=0):
    """Minutes since the epoch of local wall-clock `date` + `minute_of_day` in zone `tz`.
    (Only used for wall times that exist exactly once: whole-hour DST changes happen
    between 01:00 and 03:00 local in every zone enumerated; callers use 00:00 / 06:00.)"""
    naive = _dt.datetime(date.year, date.month, date.day) + _dt.timedelta(minutes=minute_of_day)
    aware = naive.replace(tzinfo=ZoneInfo(tz))
    delta = aware.astimezone(_UTC) - _EPOCH
    return delta.days * 1440 + delta.seconds // 60


def min_to_wall(t_min, tz):
    """(date, minute_of_day) of instant `t_min` on the wall clock of zone `tz`."""
    loc = (_EPOCH + _dt.timedelta(minutes=t_min)).astimezone(ZoneInfo(tz))
    return loc.date(), loc.hour * 60 + loc.minute


def add_days(date, n):
    return date + _dt.timedelta(days=n)


def day_bounds(date, tz, anchor_minute=0):
    """[start, end) in minutes of the local day that begins at wall time `anchor_minute` on `date`."""
    return wall_to_min(date, tz, anchor_minute), wall_to_min(add_days(date, 1), tz, anchor_minute)


def day_of(t_min, tz, anchor_minute=0):
    """The date of the anchored local day containing instant t_min."""
    d, _ = min_to_wall(t_min, tz)
    for cand in (add_days(d, -1), d, add_days(d, 1)):
        a, b = day_bounds(cand, tz, anchor_minute)
        if a <= t_min < b:
            return cand
    raise AssertionError("day not found")


# --------------------------------------------------------------------------- spreading

def overlap(a0, a1, b0, b1):
    return max(0, min(a1, b1) - max(a0, b0))


def day_usage(segments, start, end):
    """(covered_minutes, usage Fraction) that the segments put into [start, end)."""
    covered = 0
    usage = Fraction(0)
    for s0, s1, amount in segments:
        if amount is None or s1 <= s0:
            continue
        ov = overlap(s0, s1, start, end)
        if ov:
            covered += ov
            usage += Fraction(amount) * ov / (s1 - s0)
    return covered, usage


def half_rule(covered, minutes, usage):
    """The statement's coverage rule.  Returns (coverage Fraction, expected Fraction | None).
    coverage == 1 -> the sum itself; coverage > 1/2 -> sum / coverage; coverage <= 1/2 -> missing."""
    cov = Fraction(covered, minutes)
    if cov == 1:
        return cov, usage
    if cov > Fraction(1, 2):
        return cov, usage / cov
    return cov, None


def nominal_segments(times, values, step):
    """Reading i covers its nominal interval [t_i, t_i + step); value None = missing reading."""
    return [(t, t + step, v) for t, v in zip(times, values)]


def to_next_segments(times, values):
    """Alternative reading for streams with *absent rows*: a present reading lasts until the
    next present reading.  Missing (None) readings are skipped; the last present reading has
    no closing timestamp and therefore no segment."""
    pres = [(t, v) for t, v in zip(times, values) if v is not None]
    return [(t0, t1, v0) for (t0, v0), (t1, _) in zip(pres, pres[1:])]


def daily_table(segments, dates, tz, anchor_minute=0):
    """For every date: dict(date, start, end, minutes, covered, usage, coverage, expected)."""
    out = []
    for d in dates:
        a, b = day_bounds(d, tz, anchor_minute)
        covered, usage = day_usage(segments, a, b)
        cov, exp = half_rule(covered, b - a, usage)
        out.append({"date": d, "start": a, "end": b, "minutes": b - a, "covered": covered,
                    "usage": usage, "coverage": cov, "expected": exp})
    return out


# --------------------------------------------------------------------------- billing

LIMITS = {"monthly": (25, 35), "bimonthly": (25, 70)}


def billing_periods(read_dates, amounts, tz, regime):
    """Periods [read_i, read_{i+1}) of a billing calendar read at local midnight.

    validity: 'valid' / 'offcycle' by the number of local CALENDAR days of the period (reads are
    aligned to local midnight, so every period is a whole number of calendar days; a period of
    exactly 25 / 35 / 70 days that contains a clock change is an hour short of / beyond that many
    24-hour days and is still a 25 / 35 / 70-day period).  An earlier version returned 'either'
    for such periods; that band hid a class of regressions (a 25-day bill across the spring
    change dropped as off-cycle) and was closed.
    """
    lo, hi = LIMITS[regime]
    out = []
    for i in range(len(read_dates) - 1):
        d0, d1 = read_dates[i], read_dates[i + 1]
        s, e = wall_to_min(d0, tz), wall_to_min(d1, tz)
        ndays = (d1 - d0).days
        elapsed = Fraction(e - s, 1440)
        v_cal = lo <= ndays <= hi
        v_ela = lo <= elapsed <= hi
        validity = "valid" if v_cal else "offcycle"
        out.append({"i": i, "start_date": d0, "end_date": d1, "start": s, "end": e, "ndays": ndays,
                    "minutes": e - s, "amount": amounts[i], "validity": validity})
    return out


def billing_day_shares(period, tz):
    """Per local day of the period: (date, minute-proportional share, day-proportional share)."""
    out = []
    amount = Fraction(period["amount"])
    for k in range(period["ndays"]):
        d = add_days(period["start_date"], k)
        a, b = day_bounds(d, tz)
        out.append((d, amount * (b - a) / period["minutes"], amount / period["ndays"]))
    return out
