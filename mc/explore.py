"""E2: stateless exhaustive driver over a finite case space.

run_case(case) -> dict with optional keys
  rejected    str   the case is outside the property's stated precondition (counted by reason)
  behaviour   any   JSON-able summary of the observable outcome; distinct behaviours are counted
  nontrivial  bool  (default True) whether the case exercises the property by the check's rule
  violations  list of {clause,key,detail}
  stats       dict of int counters to be summed (e.g. rows compared)
"""
import time

from . import findings, pool as poolmod


class Exploration:
    def __init__(self, name):
        self.name = name
        self.evaluations = 0
        self.rejected = {}
        self.behaviours = set()
        self.nontrivial_behaviours = set()
        self.nontrivial_cases = 0
        self.violations = []
        self.stats = {}
        self.samples = []
        self.cap_hit = False
        self.total = 0
        self.extras = []

    def add(self, case, res):
        self.evaluations += 1
        if res.get("rejected"):
            self.rejected[res["rejected"]] = self.rejected.get(res["rejected"], 0) + 1
            return
        b = findings.canon(res.get("behaviour"))
        self.behaviours.add(hash(b))
        if res.get("nontrivial", True):
            self.nontrivial_cases += 1
            self.nontrivial_behaviours.add(hash(b))
        if res.get("extra") is not None and len(self.extras) < 200:
            self.extras.append(res["extra"])
        for k, v in (res.get("stats") or {}).items():
            self.stats[k] = self.stats.get(k, 0) + v
        for v in res.get("violations") or []:
            v = dict(v)
            v.setdefault("case", case)
            v.setdefault("key", {})
            self.violations.append(v)
        if len(self.samples) < 3 or (res.get("violations") and len(self.samples) < 6):
            self.samples.append({"case": case, "behaviour": res.get("behaviour")})

    def summary(self):
        return {
            "space": self.name,
            "cases_in_space": self.total,
            "evaluations": self.evaluations,
            "rejected_by_precondition": self.rejected,
            "distinct_behaviours": len(self.behaviours),
            "nontrivial_cases": self.nontrivial_cases,
            "distinct_nontrivial_behaviours": len(self.nontrivial_behaviours),
            "stats": self.stats,
            "cap_hit": self.cap_hit,
            "exhaustive": not self.cap_hit and self.evaluations == self.total,
        }


def explore(pool, name, module, func, cases, seed=0, chunk=None, deadline=None, log=print):
    cases = list(cases)
    ex = Exploration(name)
    ex.total = len(cases)
    t0 = time.time()
    last = [t0]

    def progress(d, n):
        if time.time() - last[0] > 30:
            last[0] = time.time()
            log(f"  [{name}] {d}/{n} cases, {time.time() - t0:.0f}s")

    results, n_run, cap = pool.map(module, func, cases, chunk=chunk, seed=seed, deadline=deadline, progress=progress)
    ex.cap_hit = cap
    for case, res in zip(cases, results):  # canonical (simplest-first) order, independent of dispatch order
        if res is not None:
            ex.add(case, res)
    log(f"  [{name}] {ex.evaluations}/{ex.total} cases in {time.time() - t0:.1f}s; "
        f"behaviours={len(ex.behaviours)} rejected={sum(ex.rejected.values())} violations={len(ex.violations)}"
        + (" CAP HIT" if cap else ""))
    return ex


def merge_coverage(explorations, rule, level_extra=None):
    """Build an evidence `coverage` dict from several explorations."""
    evals = sum(e.evaluations for e in explorations)
    total = sum(e.total for e in explorations)
    cov = {
        "evaluations": evals,
        "distinct_nontrivial": sum(len(e.nontrivial_behaviours) for e in explorations),
        "rule": rule,
        "samples": [s for e in explorations for s in e.samples[:2]][:8],
        "exhaustive": all(not e.cap_hit and e.evaluations == e.total for e in explorations),
        "cases_in_space": total,
        "spaces": [e.summary() for e in explorations],
    }
    if level_extra:
        cov.update(level_extra)
    return cov
