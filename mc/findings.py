"""Violations, known findings, replay artefacts.

A violation is a dict:
  clause   short name of the oracle clause that failed
  key      dict of the descriptor fields that identify the failing input / call
           site / history *class* (used for grouping and known-finding matching)
  case     full case descriptor (enough to regenerate and replay the case)
  detail   human-readable observed vs expected
known_findings.json (committed, never written at run time) holds entries
  {"property","status":"open"|"fixed","match":{...},"what", "commit"?}
An open entry matches a violation when every field of `match` equals the
corresponding field of {"clause":..., **key} (a list value means "one of").
Fixed entries suppress nothing.
"""
import hashlib
import json
import os

from . import env

KNOWN_PATH = os.path.join(env.VERIF_DIR, "known_findings.json")


def canon(obj):
    return json.dumps(obj, sort_keys=True, default=str, separators=(",", ":"))


def load_known(prop):
    if not os.path.exists(KNOWN_PATH):
        return []
    with open(KNOWN_PATH) as fh:
        data = json.load(fh)
    return [e for e in data.get("findings", []) if e.get("property") == prop and e.get("status") == "open"]


def matches(entry, viol):
    flat = {"clause": viol["clause"], **viol.get("key", {})}
    for k, v in entry.get("match", {}).items():
        if k not in flat:
            return False
        if isinstance(v, list):
            if flat[k] not in v:
                return False
        elif flat[k] != v:
            return False
    return True


def group_violations(viols):
    """Group by (clause, key); keep the first (= simplest, cases are ordered
    simplest-first) as the representative and count the members."""
    groups = {}
    for v in viols:
        g = canon({"clause": v["clause"], "key": v.get("key", {})})
        if g not in groups:
            groups[g] = dict(v, count=0)
        groups[g]["count"] += 1
    return list(groups.values())


def write_replay(prop, viol):
    d = os.path.join(os.environ.get("VERIF_REPLAY_DIR") or os.path.join(env.VERIF_DIR, "replays"), prop)
    os.makedirs(d, exist_ok=True)
    h = hashlib.sha256(canon({"c": viol["clause"], "k": viol.get("key", {}), "case": viol.get("case")}).encode()).hexdigest()[:12]
    p = os.path.join(d, f"{viol['clause']}-{h}.json")
    with open(p, "w") as fh:
        json.dump({"property": prop, "clause": viol["clause"], "key": viol.get("key", {}),
                   "case": viol.get("case"), "detail": viol.get("detail"), "members": viol.get("count", 1)},
                  fh, indent=1, default=str)
    return p


def report(prop, viols, max_lines=25):
    """Print KNOWN-FINDING / VIOLATION lines.  Returns (n_unlisted_groups, n_known_groups)."""
    known = load_known(prop)
    groups = group_violations(viols)
    unlisted, listed = [], {}
    for g in groups:
        hit = next((e for e in known if matches(e, g)), None)
        if hit is not None:
            listed.setdefault(hit["what"], 0)
            listed[hit["what"]] += g["count"]
        else:
            unlisted.append(g)
    for what, cnt in listed.items():
        print(f"KNOWN-FINDING: property={prop} {what} [{cnt} case(s) this run]")
    for g in unlisted[:max_lines]:
        p = write_replay(prop, g)
        print(f"VIOLATION property={prop} replay={p}")
        print(f"  clause={g['clause']} key={canon(g.get('key', {}))} members={g['count']}")
        if g.get("detail"):
            print("  " + str(g["detail"])[:600].replace("\n", "\n  "))
    if len(unlisted) > max_lines:
        print(f"  ... and {len(unlisted) - max_lines} more distinct violation groups (not printed)")
    return len(unlisted), len(listed)
