"""E4: canonical structural hash of object graphs and of process-global state, plus the aliasing audit.

No field is dropped by default (an over-fine hash only costs states).  Exclusions are explicit and listed by the
caller (see DESIGN.md section 3, E4).
"""
import hashlib
import struct
import sys
import types

import numpy as np
import pandas as pd

DEFAULT_EXCLUDE = (
    ("ElasticNet", "dual_gap_"),  # convergence diagnostic, last bits differ between identical fits, never read by predict
    ("ElasticNet", "n_iter_"),
    ("OptimizedResult", "time_elapsed"),  # wall clock
)


class Hasher:
    """Merkle-style structural digest: digest(obj) depends on the VALUE structure only (not on which sub-objects happen
    to be shared - sharing is the aliasing audit's subject), is memoised per object id, and marks cycles by their
    distance on the current path."""

    def __init__(self, exclude=DEFAULT_EXCLUDE, trace=False):
        self.memo = {}
        self.keep = []  # keep every visited object alive: CPython reuses ids of collected temporaries
        self.active = {}
        self.exclude = set(exclude)
        self.trace = {} if trace else None
        self._top = None

    @staticmethod
    def _h(*parts):
        h = hashlib.sha256()
        for p in parts:
            if isinstance(p, str):
                p = p.encode()
            h.update(struct.pack("<I", len(p)))
            h.update(p)
        return h.digest()

    def feed(self, obj, path="$"):
        self._top = self.digest(obj, top=True)

    def hexdigest(self):
        return self._top.hex()[:20]

    def digest(self, obj, top=False):
        H = self._h
        t = type(obj)
        if obj is None or t is bool:
            return H("c", repr(obj))
        if t is int or isinstance(obj, (np.integer,)):
            return H("i", repr(int(obj)))
        if t is float or isinstance(obj, np.floating):
            f = float(obj)
            return H("f", "nan" if f != f else struct.pack("<d", f))
        if t is complex:
            return H("z", repr(obj))
        if t is str:
            return H("s", obj)
        if t is bytes:
            return H("b", obj)
        if isinstance(obj, (pd.Timestamp, pd.Timedelta)):
            return H("T", repr(obj))
        oid = id(obj)
        if oid in self.memo:
            return self.memo[oid]
        if oid in self.active:
            return H("cycle", str(len(self.active) - self.active[oid]))
        self.active[oid] = len(self.active)
        self.keep.append(obj)
        try:
            d = self._digest_compound(obj, t, top)
        finally:
            del self.active[oid]
        self.memo[oid] = d
        return d

    def _digest_compound(self, obj, t, top):
        H = self._h
        D = self.digest
        if isinstance(obj, np.ndarray):
            if obj.dtype == object:
                return H("ndo", str(obj.shape), *[D(x) for x in obj.ravel().tolist()])
            a = np.ascontiguousarray(obj)
            if a.dtype.kind == "f":
                a = a.copy()
                a[np.isnan(a)] = np.nan  # identify all NaNs
            return H("nd", str(a.dtype), str(a.shape), a.tobytes())
        if isinstance(obj, pd.Index):
            head = H("idx", type(obj).__name__, str(obj.dtype), str(getattr(obj, "tz", None)), repr(list(obj.names)))
            if isinstance(obj, pd.MultiIndex):
                return H(head, *[D(np.asarray(obj.get_level_values(lv))) for lv in range(obj.nlevels)])
            if isinstance(obj, pd.DatetimeIndex):
                return H(head, obj.asi8.tobytes())
            return H(head, D(np.asarray(obj)))
        if isinstance(obj, pd.Series):
            return H("ser", repr(obj.name), str(obj.dtype), D(obj.index), D(_values(obj)))
        if isinstance(obj, pd.DataFrame):
            parts = [H("df", str(obj.shape)), D(obj.index), D(obj.columns)]
            for i in range(obj.shape[1]):
                parts.append(H(str(obj.dtypes.iloc[i])))
                parts.append(D(_values(obj.iloc[:, i])))
            return H(*parts)
        if isinstance(obj, dict):
            items = [(D(k), D(v)) for k, v in obj.items()]
            items.sort()
            return H("d", str(len(obj)), *[x for kv in items for x in kv])
        if isinstance(obj, (list, tuple)):
            return H("l" if isinstance(obj, list) else "t", str(len(obj)), *[D(x) for x in obj])
        if isinstance(obj, (set, frozenset)):
            return H("S", str(len(obj)), *sorted(D(x) for x in obj))
        if isinstance(obj, (types.FunctionType, types.BuiltinFunctionType, types.MethodType, type, types.ModuleType)):
            return H("fn", getattr(obj, "__module__", "") or "", getattr(obj, "__qualname__", repr(type(obj))))
        if hasattr(obj, "tocsr") and hasattr(obj, "nnz"):
            c = obj.tocsr()
            return H("sp", str(c.shape), D(np.asarray(c.data)), D(np.asarray(c.indices)), D(np.asarray(c.indptr)))
        import enum

        tname = t.__name__
        head = H("o", t.__module__ or "", tname)
        if isinstance(obj, enum.Enum):
            return H(head, repr(obj.value))
        state = None
        if hasattr(obj, "__pydantic_fields__") or hasattr(obj, "model_fields"):
            try:
                state = dict(obj.__dict__)
                priv = getattr(obj, "__pydantic_private__", None)
                if priv:
                    state["__private__"] = dict(priv)
            except Exception:
                state = None
        if state is None:
            if hasattr(obj, "__dict__"):
                state = dict(vars(obj))
            elif hasattr(obj, "__slots__"):
                state = {s: getattr(obj, s) for s in obj.__slots__ if hasattr(obj, s)}
            else:
                return H(head, "repr", repr(obj))
        parts = [head]
        for k in sorted(state, key=str):
            if (tname, k) in self.exclude:
                continue
            dk = D(state[k])
            if top and self.trace is not None:
                self.trace[str(k)] = dk.hex()[:12]
            parts += [H("k", str(k)), dk]
        return H(*parts)


def _values(s):
    try:
        if str(s.dtype).startswith(("datetime64", "timedelta")):
            return np.asarray(s.astype("int64"))
        a = s.to_numpy()
        return a
    except Exception:
        return np.asarray(s.astype(object))


def fp(obj, exclude=DEFAULT_EXCLUDE):
    h = Hasher(exclude)
    h.feed(obj)
    return h.hexdigest()


def fp_attrs(obj, exclude=DEFAULT_EXCLUDE):
    """per-attribute hashes of the top-level object (to say WHAT changed)"""
    h = Hasher(exclude, trace=True)
    h.feed(obj)
    return h.hexdigest(), h.trace


def diff_attrs(a, b):
    return sorted(k for k in set(a) | set(b) if a.get(k) != b.get(k))


# ---------------------------------------------------------------- aliasing audit
def reachable_mutables(obj, exclude=DEFAULT_EXCLUDE, limit=200000):
    """id -> (path, object) of every mutable container / array buffer reachable from obj."""
    out = {}
    stack = [(obj, "$")]
    seen = set()
    keep = []
    while stack and len(seen) < limit:
        o, path = stack.pop()
        if o is None or isinstance(o, (bool, int, float, complex, str, bytes, np.generic, pd.Timestamp, pd.Timedelta)):
            continue
        if isinstance(o, (types.FunctionType, types.BuiltinFunctionType, types.MethodType, type, types.ModuleType)):
            continue
        import enum

        if isinstance(o, enum.Enum):
            continue
        if id(o) in seen:
            continue
        seen.add(id(o))
        keep.append(o)
        if isinstance(o, np.ndarray):
            out[id(o)] = (path, o)
            continue
        if isinstance(o, (pd.Series, pd.DataFrame, pd.Index)):
            out[id(o)] = (path, o)
            continue
        if isinstance(o, dict):
            out[id(o)] = (path, o)
            for k, v in o.items():
                stack.append((v, f"{path}[{k!r}]"))
            continue
        if isinstance(o, (list, set)):
            out[id(o)] = (path, o)
            for i, v in enumerate(o):
                stack.append((v, f"{path}[{i}]"))
            continue
        if isinstance(o, (tuple, frozenset)):
            for i, v in enumerate(o):
                stack.append((v, f"{path}[{i}]"))
            continue
        st = None
        if hasattr(o, "__dict__"):
            st = dict(vars(o))
            priv = getattr(o, "__pydantic_private__", None)
            if priv:
                st.update({"__private__" + k: v for k, v in priv.items()})
        if st:
            out[id(o)] = (path, o)
            for k, v in st.items():
                stack.append((v, f"{path}.{k}"))
    return out, keep


def _buffers(o):
    if isinstance(o, np.ndarray):
        return [o]
    if isinstance(o, pd.Series):
        try:
            return [o.to_numpy(copy=False)]
        except Exception:
            return []
    if isinstance(o, pd.DataFrame):
        out = []
        for i in range(o.shape[1]):
            try:
                out.append(o.iloc[:, i].to_numpy(copy=False))
            except Exception:
                pass
        return out
    return []


def shared_mutables(a, b, ignore_types=()):
    """mutable objects reachable from both a and b: by identity, and array buffers by np.shares_memory.
    Frozen settings objects / modules / functions are not mutable channels and are skipped by the walk."""
    ra, ka = reachable_mutables(a)
    rb, kb = reachable_mutables(b)
    shared = []
    for i in set(ra) & set(rb):
        o = ra[i][1]
        if isinstance(o, ignore_types):
            continue
        shared.append((ra[i][0], rb[i][0], type(o).__name__))
    return sorted(shared)


# ---------------------------------------------------------------- process-global state
def global_state(prefix="opendsm"):
    """Canonical description of process-global state a library call could leave behind."""
    items = {}
    for name, mod in sorted(sys.modules.items()):
        if mod is None or not (name == prefix or name.startswith(prefix + ".")):
            continue
        for attr, val in sorted(vars(mod).items()):
            if attr.startswith("__"):
                continue
            if isinstance(val, (dict, list, set, np.ndarray, pd.DataFrame, pd.Series)):
                items[f"{name}.{attr}"] = fp(val)
            elif isinstance(val, types.FunctionType) and val.__module__ == name:
                d = val.__defaults__ or ()
                kd = val.__kwdefaults__ or {}
                muts = [x for x in list(d) + list(kd.values()) if isinstance(x, (dict, list, set, np.ndarray))]
                if muts:
                    items[f"{name}.{attr}.__defaults__"] = fp(muts)
            elif isinstance(val, type) and val.__module__ == name:
                for ca, cv in sorted(vars(val).items()):
                    if ca.startswith("__"):
                        continue
                    if isinstance(cv, (dict, list, set, np.ndarray)):
                        items[f"{name}.{attr}.{ca}"] = fp(cv)
                    elif isinstance(cv, (types.FunctionType, staticmethod, classmethod)):
                        f = cv.__func__ if isinstance(cv, (staticmethod, classmethod)) else cv
                        d = getattr(f, "__defaults__", None) or ()
                        muts = [x for x in d if isinstance(x, (dict, list, set, np.ndarray))]
                        if muts:
                            items[f"{name}.{attr}.{ca}.__defaults__"] = fp(muts)
                mf = getattr(val, "model_fields", None)
                if isinstance(mf, dict):
                    for fname, finfo in mf.items():
                        dv = getattr(finfo, "default", None)
                        if isinstance(dv, (dict, list, set)):
                            items[f"{name}.{attr}.field:{fname}"] = fp(dv)
    rs = np.random.get_state()
    items["numpy.random.state"] = fp([rs[0], np.asarray(rs[1]), rs[2], rs[3], rs[4]])
    try:
        import sklearn

        items["sklearn.config"] = fp(sklearn.get_config())
    except Exception:
        pass
    import os
    import warnings

    for k in ("OMP_NUM_THREADS", "MKL_NUM_THREADS", "OPENBLAS_NUM_THREADS"):
        items["env." + k] = os.environ.get(k, "<unset>")
    items["warnings.filters.len"] = str(len(warnings.filters))
    return items


def numba_signatures(prefix="opendsm"):
    out = {}
    for name, mod in sorted(sys.modules.items()):
        if mod is None or not (name == prefix or name.startswith(prefix + ".")):
            continue
        for attr, val in vars(mod).items():
            sigs = getattr(val, "signatures", None)
            if sigs is not None and hasattr(val, "py_func"):
                out[f"{name}.{attr}"] = sorted(str(s) for s in sigs)
    return out
