"""C07 — observed and predicted usage are masked together so savings sums are unbiased.

Deviation enumeration: every day of a small window independently takes one symbol of an alphabet of
temperature / usage defects (ALL |A|^n patterns), embedded in ordinary days; daily and billing models built
from documents; with and without a usage column; billing additionally under every aggregation.
"""
import itertools

import numpy as np
import pandas as pd

from .. import dailydocs as dd, datasets as ds, explore, pool as poolmod

PROP = "C07"
LEVEL = "exploration"
MOD = "mc.checks.c07"

ASSUMPTIONS = [
    "the quantifier covers missing / non-finite TEMPERATURE and missing USAGE (NaN, or zero for electricity, which the "
    "data classes document as missing); non-finite usage is not enumerated",
    "a row 'has a value' when the cell is not NaN; rows whose temperature is +/-inf must carry neither value",
    "billing: missing usage is a NaN read or an off-cycle (10-day) period, which the data class drops; aggregated frames are "
    "checked through the totals identity only (per-period sums belong to C19)",
]

# symbol -> (temperature action, usage action)
ALPHA_DAILY = ["ok", "Tnan", "Tpinf", "Tninf", "Unan", "Uzero", "TUnan"]
ALPHA_T = ["ok", "Tnan", "Tpinf", "Tninf"]
# finite but extreme temperatures (sentinel-like readings: 9999, -9999, 999.9): finite, so such a day is a COMPLETE day
ALPHA_EXT = ["ok", "Tnan", "Unan", "Thuge", "Tcold", "T999"]
ALPHA_T_EXT = ["ok", "Tnan", "Thuge", "Tcold"]
ALPHA_FEED = ["ok", "Tnan", "Unan", "TUnan", "Thalf"]   # Thalf: exactly half of the day's readings missing (= a day without temperature)
ALPHABETS = {"daily": ALPHA_DAILY, "T": ALPHA_T, "ext": ALPHA_EXT, "T_ext": ALPHA_T_EXT, "feed": ALPHA_FEED}
ZONE = "America/Chicago"
WINDOW_START = 27  # index of the first window day inside the 40-day frame (2021-05-01 + 27 = Fri May 28: weekend + season change inside)

DAILY_MODELS = {
    "full_smooth": {"fw-su_sh_wi": ("hdd_tidd_cdd_smooth", dict(hdd_k=0.3, cdd_k=0.2))},
    "heat_only": {"fw-su_sh_wi": ("hdd_tidd", {})},
    "flat": {"fw-su_sh_wi": ("tidd", {})},
    "split4": {"wd-su": ("tidd_cdd", dict(intercept=11.0)), "wd-sh_wi": ("hdd_tidd_cdd", dict(intercept=13.0)),
               "we-su": ("tidd", dict(intercept=17.0)), "we-sh_wi": ("hdd_tidd_smooth", dict(intercept=19.0, hdd_k=3.0))},
}
BILLING_MODELS = {
    "full": {"fw-su_sh_wi": ("hdd_tidd_cdd", {})},
    "cool_only": {"fw-su_sh_wi": ("tidd_cdd", {})},
}
_CACHE = {}


def _model(family, name):
    import opendsm.eemeter as em

    k = (family, name)
    if k not in _CACHE:
        spec = (DAILY_MODELS if family == "daily" else BILLING_MODELS)[name]
        subs = {key: dd.submodel(dd.coeffs(shape, **kw)) for key, (shape, kw) in spec.items()}
        if family == "daily":
            _CACHE[k] = em.DailyModel.from_dict(dd.document(subs, dd.settings_dump("current"), tz=ZONE))
        else:
            s = dd.settings_dump("billing")
            s["developer_mode"] = True
            _CACHE[k] = em.BillingModel.from_dict(dd.document(subs, s, tz=ZONE))
    return _CACHE[k]


def cases(tier):
    n = 4 if tier == "quick" else 5
    out = []
    for name in DAILY_MODELS:
        nn = n if (tier == "quick" or name in ("full_smooth", "split4")) else 4
        for pat in itertools.product(range(len(ALPHA_DAILY)), repeat=nn):
            out.append({"family": "daily", "model": name, "usage": True, "pat": list(pat)})
        for pat in itertools.product(range(len(ALPHA_T)), repeat=nn):
            out.append({"family": "daily", "model": name, "usage": False, "pat": list(pat)})
        if name == "full_smooth":
            for dt in ("Float64", "float32"):
                for pat in itertools.product(range(len(ALPHA_DAILY)), repeat=3):
                    out.append({"family": "daily", "model": name, "usage": True, "pat": list(pat), "dtype": dt})
        if name in ("full_smooth", "split4"):
            for pat in itertools.product(range(len(ALPHA_DAILY)), repeat=4):
                out.append({"family": "daily", "model": name, "usage": True, "pat": list(pat), "frame": "window_only"})
            for pat in itertools.product(range(len(ALPHA_T)), repeat=4):
                out.append({"family": "daily", "model": name, "usage": False, "pat": list(pat), "frame": "window_only"})
        if name in ("full_smooth", "split4"):
            for frame in (None, "window_only"):
                for pat in itertools.product(range(len(ALPHA_EXT)), repeat=3):
                    out.append({"family": "daily", "model": name, "usage": True, "pat": list(pat), "alpha": "ext", **({"frame": frame} if frame else {})})
                for pat in itertools.product(range(len(ALPHA_T_EXT)), repeat=3):
                    out.append({"family": "daily", "model": name, "usage": False, "pat": list(pat), "alpha": "T_ext", **({"frame": frame} if frame else {})})
    for name in BILLING_MODELS:
        for pat in itertools.product(range(len(ALPHA_T_EXT)), repeat=3):
            for agg in (None, "monthly", "bimonthly"):
                for usage in (True, False):
                    out.append({"family": "billing", "model": name, "usage": usage, "pat": list(pat), "pstate": ["ok", "ok"], "agg": agg, "alpha": "T_ext"})
    # the weather arrives as a half-hourly feed (through from_series): a day without temperature is a day whose 48 readings are NaN
    for name in ("full_smooth", "split4"):
        for pat in itertools.product(range(len(ALPHA_FEED)), repeat=3):
            out.append({"family": "daily", "model": name, "usage": True, "pat": list(pat), "alpha": "feed", "feed": 30})
    # predict() also accepts the BASELINE data classes (in-sample prediction, or a reporting period wrapped in the baseline class)
    for name in ("full_smooth", "split4"):
        for pat in itertools.product(range(len(ALPHA_DAILY)), repeat=3):
            out.append({"family": "daily", "model": name, "usage": True, "pat": list(pat), "cls": "baseline"})
    for pat in itertools.product(range(len(ALPHA_T)), repeat=3):
        for pstate in (["ok", "ok"], ["nanread", "ok"]):
            for agg in (None, "monthly", "bimonthly"):
                out.append({"family": "billing", "model": "full", "usage": True, "pat": list(pat), "pstate": pstate, "agg": agg, "cls": "baseline"})
    # the FIRST billing period without usable consumption (NaN read / off-cycle reads): the first calendar month(s) of the frame hold no
    # predictable day
    for name in BILLING_MODELS:
        for first in ("nanread", "offcycle"):
            for pat in ([0, 0, 0], [1, 0, 0]):
                for agg in (None, "monthly", "bimonthly"):
                    out.append({"family": "billing", "model": name, "usage": True, "pat": pat, "pstate": ["ok", "ok"], "agg": agg, "first": first})
    # billing: T pattern over 3 days straddling a period boundary x state of the two adjoining periods x aggregation
    for name in BILLING_MODELS:
        for pat in itertools.product(range(len(ALPHA_T)), repeat=3):
            for pstate in itertools.product(["ok", "nanread", "offcycle"], repeat=2):
                for agg in (None, "monthly", "bimonthly"):
                    out.append({"family": "billing", "model": name, "usage": True, "pat": list(pat), "pstate": list(pstate), "agg": agg})
            for agg in (None, "monthly", "bimonthly"):
                out.append({"family": "billing", "model": name, "usage": False, "pat": list(pat), "pstate": ["ok", "ok"], "agg": agg})
    return out


def _apply_T(T, pos, sym):
    if sym in ("Tnan", "TUnan"):
        T[pos] = np.nan
    elif sym == "Tpinf":
        T[pos] = np.inf
    elif sym == "Tninf":
        T[pos] = -np.inf
    elif sym in ("Thuge", "Tcold", "T999"):
        T[pos] = {"Thuge": 9999.0, "Tcold": -9999.0, "T999": 999.9}[sym]


def build_daily(case):
    import opendsm.eemeter as em

    if case.get("frame") == "window_only":
        # the reporting data consists of the window alone: includes the patterns in which NO day is complete
        N, w0 = len(case["pat"]), 0
        idx = ds.local_days("2021-05-28", N, ZONE)
    else:
        N, w0 = 40, WINDOW_START
        idx = ds.local_days("2021-05-01", 40, ZONE)
    T = 35.0 + 1.25 * np.arange(float(N)) + (0.0 if N == 40 else 25.0)  # heating, dead band and cooling all occur
    y = 100.0 + np.arange(float(N))
    exp_T_ok = np.ones(N, bool)
    exp_U_ok = np.ones(N, bool)
    alpha = ALPHABETS[case["alpha"]] if case.get("alpha") else (ALPHA_DAILY if case["usage"] else ALPHA_T)
    for j, s in enumerate(case["pat"]):
        sym = alpha[s]
        pos = w0 + j
        _apply_T(T, pos, sym)
        if sym in ("Tnan", "Tpinf", "Tninf", "TUnan"):
            exp_T_ok[pos] = False
        if sym in ("Unan", "TUnan"):
            y[pos] = np.nan
            exp_U_ok[pos] = False
        if sym == "Uzero":
            y[pos] = 0.0
            exp_U_ok[pos] = False
    cols = {"temperature": T}
    if case["usage"]:
        cols = {"observed": y, "temperature": T}
    frame = pd.DataFrame(cols, index=idx)
    if case.get("dtype"):
        # the same values in another column dtype: pandas' nullable Float64 (missing = pd.NA), float32, or Arrow-backed doubles
        for c in frame.columns:
            try:
                frame[c] = frame[c].astype(case["dtype"])
            except Exception:
                pass
    if case.get("feed"):
        # the same daily temperatures as a half-hourly feed covering every day completely, except the days of the pattern
        step = case["feed"]
        fidx = pd.date_range(idx[0], idx[-1] + pd.Timedelta(days=1), freq=f"{step}min", inclusive="left")
        day_of = (fidx.tz_localize(None).normalize() - idx[0].tz_localize(None).normalize()).days.to_numpy()
        tf = T[np.clip(day_of, 0, N - 1)].astype(float)
        for j, sym_i in enumerate(case["pat"]):
            if alpha[sym_i] == "Thalf":
                pos = w0 + j
                sel = np.flatnonzero(day_of == pos)
                tf[sel[::2]] = np.nan
                exp_T_ok[pos] = False
        feed = pd.Series(tf, index=fidx, name="temperature")
        data = em.DailyReportingData.from_series(pd.Series(y, index=idx, name="observed"), feed, is_electricity_data=True)
        return data, idx, exp_T_ok, exp_U_ok
    data = (em.DailyBaselineData if case.get("cls") == "baseline" else em.DailyReportingData)(frame, is_electricity_data=True)
    return data, idx, exp_T_ok, exp_U_ok


def build_billing(case):
    import opendsm.eemeter as em

    # five 30-day periods, the 3-day temperature window straddles the boundary between periods 2 and 3 (days 59,60,61)
    days = 150
    idx = ds.local_days("2021-03-02", days, ZONE)
    T = 35.0 + 0.33 * np.arange(float(days))
    exp_T_ok = np.ones(days, bool)
    for j, s in enumerate(case["pat"]):
        sym = ALPHABETS[case["alpha"]][s] if case.get("alpha") else ALPHA_T[s]
        _apply_T(T, 59 + j, sym)
        if sym in ("Tnan", "Tpinf", "Tninf"):
            exp_T_ok[59 + j] = False
    temp = pd.Series(T, index=idx, name="temperature")
    exp_U_ok = np.ones(days, bool)
    if not case["usage"]:
        data = em.BillingReportingData.from_series(None, temp, is_electricity_data=True, tzinfo=None)
        return data, idx, exp_T_ok, np.zeros(days, bool)
    # period boundaries (day offsets); state of periods 2 and 3
    bounds = [0, 30, 60, 90, 120, 150]
    reads_t, reads_v = [], []
    for p in range(5):
        a, b = bounds[p], bounds[p + 1]
        st = "ok"
        if p == 0 and case.get("first"):
            st = case["first"]
        if p == 1:
            st = case["pstate"][0]
        if p == 2:
            st = case["pstate"][1]
        if st == "offcycle":
            # split the period into a 10-day off-cycle read (dropped by the data class) and a regular 20..30-day rest: use 10 + 20
            # -> both pieces are < 25 days, i.e. both are off-cycle and dropped
            reads_t += [a, a + 10]
            reads_v += [500.0 + p, 700.0 + p]
            exp_U_ok[a:b] = False
        elif st == "nanread":
            reads_t.append(a)
            reads_v.append(np.nan)
            exp_U_ok[a:b] = False
        else:
            reads_t.append(a)
            reads_v.append(3000.0 + 10 * p)
    reads_t.append(150)
    reads_v.append(np.nan)
    full = ds.local_days("2021-03-02", 151, ZONE)
    meter = pd.Series(reads_v, index=full[reads_t], name="observed")
    temp151 = pd.Series(np.append(T, T[-1] + 0.33), index=full, name="temperature")
    data = (em.BillingBaselineData if case.get("cls") == "baseline" else em.BillingReportingData).from_series(meter, temp151, is_electricity_data=True)
    return data, idx, exp_T_ok, exp_U_ok


def run_case(case):
    fam = case["family"]
    model = _model(fam, case["model"])
    try:
        data, idx, T_ok, U_ok = build_daily(case) if fam == "daily" else build_billing(case)
    except Exception as exc:  # the data class rejected the pattern: belongs to C10, not C07
        return {"rejected": f"data class raised {type(exc).__name__}"}
    df = data.df
    key = {"family": fam, "usage": case["usage"], "agg": case.get("agg")}
    if case.get("cls"):
        key["cls"] = case["cls"]
    viol = []
    # what the data object itself carries (the oracle is evaluated on the data object's rows, as the statement is about
    # predict() given the reporting data object)
    T_fin = np.isfinite(df["temperature"].to_numpy(float))
    if case.get("feed"):
        # through a sub-daily feed the data class itself decides which days have a temperature: a day the feed leaves without
        # (enough) readings must not come out of predict() with consumption or a prediction
        if len(df) != len(T_ok):
            return {"rejected": "data object does not hold one row per day of the input"}
        if (T_fin & ~np.asarray(T_ok, bool)).any():
            k = int(np.flatnonzero(T_fin & ~np.asarray(T_ok, bool))[0])
            viol.append({"clause": "day_without_temperature_readings_gets_a_temperature", "key": dict(key, feed=case["feed"]),
                         "detail": f"{df.index[k]}: the feed has at most half of the day's readings, data.df temperature = {df['temperature'].iloc[k]!r} (pattern {case['pat']})"})
        T_fin = T_fin & np.asarray(T_ok, bool)
    has_obs_col = "observed" in df.columns
    U_has = df["observed"].notna().to_numpy() if has_obs_col else np.zeros(len(df), bool)
    if case["usage"] and not has_obs_col:
        if np.asarray(U_ok, bool).any():
            # consumption was supplied (on days without a temperature) and the data object carries none of it: the set is then
            # predicted as if it were temperature-only, i.e. on days that have no consumption
            return {"behaviour": ["usage_column_lost"],
                    "violations": [{"clause": "supplied_usage_dropped_by_data_class", "key": key,
                                    "detail": f"{int(np.asarray(U_ok, bool).sum())} day(s) carry usage in the input, data.df has no 'observed' column "
                                              f"(pattern {case.get('pat')})"}]}
        return {"rejected": "data object dropped the usage column (all usage missing)"}
    try:
        if fam == "daily":
            p = model.predict(data, **({"ignore_disqualification": True} if case.get("cls") else {}))
        else:
            p = model.predict(data, aggregation=case.get("agg"), **({"ignore_disqualification": True} if case.get("cls") else {}))
    except Exception as exc:
        viol.append({"clause": "predict_raised", "key": dict(key, exc=type(exc).__name__),
                     "detail": f"{type(exc).__name__}: {exc}"})
        return {"behaviour": ["raise", type(exc).__name__], "violations": viol}
    if fam == "billing" and case.get("agg"):
        # totals identity only, against an un-aggregated prediction of the same data
        pd0 = model.predict(data, aggregation=None)
        comp = pd0["predicted"].notna() & (pd0["observed"].notna() if "observed" in pd0 else False)
        if case["usage"]:
            row_sav = float((pd0["predicted"] - pd0["observed"])[comp].sum())
            tot = float(p["predicted"].sum() - p["observed"].sum())
            scale = max(1.0, abs(float(pd0["predicted"].sum())), abs(float(pd0["observed"].sum())))
            if abs(tot - row_sav) > 1e-9 * scale:
                viol.append({"clause": "column_sums_biased_aggregated", "key": key,
                             "detail": f"sum(predicted)-sum(observed) of the {case['agg']} frame = {tot!r}, row-wise savings over complete days = {row_sav!r}"})
        if case["usage"] and "observed" in p.columns:
            # every aggregated row carries both values or neither (a period without a predictable day shows the empty sums of both)
            ph, oh = np.isfinite(p["predicted"].to_numpy(float)), np.isfinite(p["observed"].to_numpy(float))
            if (ph != oh).any():
                k = int(np.flatnonzero(ph != oh)[0])
                viol.append({"clause": "aggregated_row_unpaired", "key": key,
                             "detail": f"{case['agg']} row {p.index[k]}: predicted={p['predicted'].iloc[k]!r} observed={p['observed'].iloc[k]!r}"})
            # ... and a period holding complete days shows them in BOTH columns: the per-period sums of the complete days of the
            # un-aggregated frame, placed on the aggregated frame's own periods
            rule = {"monthly": "MS", "bimonthly": "2MS"}[case["agg"]]
            d0 = pd0[comp]
            if len(d0) and len(p):
                lab = pd.Series(p.index, index=p.index).reindex(d0.index, method="ffill")
                exp_p = d0["predicted"].groupby(lab.to_numpy()).sum().reindex(p.index).fillna(0.0).to_numpy()
                exp_o = d0["observed"].groupby(lab.to_numpy()).sum().reindex(p.index).fillna(0.0).to_numpy()
                gp, go = np.nan_to_num(p["predicted"].to_numpy(float)), np.nan_to_num(p["observed"].to_numpy(float))
                sc = max(1.0, float(np.abs(exp_p).max()), float(np.abs(exp_o).max()))
                if (np.abs(gp - exp_p) > 1e-9 * sc).any() or (np.abs(go - exp_o) > 1e-9 * sc).any():
                    k = int(np.flatnonzero((np.abs(gp - exp_p) > 1e-9 * sc) | (np.abs(go - exp_o) > 1e-9 * sc))[0])
                    viol.append({"clause": "aggregated_period_not_the_sum_of_its_complete_days", "key": key,
                                 "detail": f"{case['agg']} row {p.index[k]}: predicted {gp[k]!r} observed {go[k]!r}; complete days of that period sum to "
                                           f"{exp_p[k]!r} / {exp_o[k]!r}"})
        return {"behaviour": ["agg", case["agg"], len(p), len(viol)], "violations": viol, "stats": {"rows": int(len(p))}}
    if not p.index.equals(df.index):
        viol.append({"clause": "rows_changed", "key": key, "detail": f"{len(p)} rows returned for {len(df)} input rows"})
        return {"behaviour": ["rows_changed"], "violations": viol}
    pred_has = p["predicted"].notna().to_numpy()
    pred_fin = np.isfinite(p["predicted"].to_numpy(float))
    if (pred_has != pred_fin).any():
        viol.append({"clause": "non_finite_prediction", "key": key, "detail": "predicted is +/-inf on some row"})
    if case["usage"]:
        obs_has = p["observed"].notna().to_numpy() if "observed" in p.columns else np.zeros(len(p), bool)
        # both or neither
        mism = pred_has != obs_has
        if mism.any():
            j = int(np.flatnonzero(mism)[0])
            kind = "observed_without_prediction" if obs_has[j] else "prediction_without_observed"
            viol.append({"clause": kind, "key": key,
                         "detail": f"{int(mism.sum())} row(s); first {p.index[j]}: temperature={p['temperature'].iloc[j]!r} "
                                   f"observed={p['observed'].iloc[j]!r} predicted={p['predicted'].iloc[j]!r}"})
        # a day with missing temperature is masked; a day with missing usage gets no prediction; complete days keep both
        if (obs_has & ~T_fin).any():
            viol.append({"clause": "missing_temperature_not_masked", "key": key,
                         "detail": f"{int((obs_has & ~T_fin).sum())} day(s) without finite temperature keep their consumption"})
        if (pred_has & ~U_has).any():
            viol.append({"clause": "prediction_on_missing_usage", "key": key,
                         "detail": f"{int((pred_has & ~U_has).sum())} day(s) without usage are predicted"})
        both_ok = T_fin & U_has
        if (both_ok & ~(pred_has & obs_has)).any():
            viol.append({"clause": "complete_day_lost", "key": key,
                         "detail": f"{int((both_ok & ~(pred_has & obs_has)).sum())} complete day(s) lost a value"})
        # observed values of complete days are unchanged
        if has_obs_col and not np.array_equal(p["observed"].to_numpy(float)[both_ok & obs_has],
                                              df["observed"].to_numpy(float)[both_ok & obs_has]):
            viol.append({"clause": "observed_changed", "key": key, "detail": "observed of a complete day differs from the data object"})
        comp = pred_has & obs_has
        row_sav = float((p["predicted"].to_numpy(float) - p["observed"].to_numpy(float))[comp].sum())
        col = float(np.nansum(p["predicted"].to_numpy(float)) - np.nansum(p["observed"].to_numpy(float)))
        scale = max(1.0, abs(float(np.nansum(p["predicted"].to_numpy(float)))), abs(float(np.nansum(p["observed"].to_numpy(float)))))
        if abs(col - row_sav) > 1e-9 * scale:
            viol.append({"clause": "column_sums_biased", "key": key,
                         "detail": f"sum(predicted)-sum(observed)={col!r} but row-wise savings over complete days={row_sav!r}"})
        beh = ["".join("B" if a and b else "P" if a else "O" if b else "-" for a, b in
                       zip(pred_has[max(0, len(pred_has) - 14):] if fam == "daily" else pred_has[28:92:3],
                           obs_has[max(0, len(obs_has) - 14):] if fam == "daily" else obs_has[28:92:3]))]
        # the harness's own expectation of which days are complete must agree with the data object (non-vacuity of the driver)
        nontrivial = bool((~T_fin).any() or (~U_has).any())
    else:
        if (pred_has != T_fin).any():
            j = int(np.flatnonzero(pred_has != T_fin)[0])
            viol.append({"clause": "prediction_not_following_temperature", "key": key,
                         "detail": f"no usage supplied; {p.index[j]}: temperature={p['temperature'].iloc[j]!r} predicted={p['predicted'].iloc[j]!r}"})
        if "observed" in p.columns and p["observed"].notna().any():
            viol.append({"clause": "observed_invented", "key": key, "detail": "observed values appear although none were supplied"})
        beh = ["".join("P" if a else "-" for a in (pred_has[max(0, len(pred_has) - 14):] if fam == "daily" else pred_has[56:66]))]
        nontrivial = bool((~T_fin).any())
    return {"behaviour": beh, "violations": viol, "nontrivial": nontrivial, "stats": {"rows": int(len(p))}}


def run(tier, seed):
    cs = cases(tier)
    with poolmod.Pool() as pool:
        ex = explore.explore(pool, "defect patterns x models", MOD, "run_case", cs, seed=seed)
    cov = explore.merge_coverage(
        [ex],
        rule="one case = (family, document-built model, usage column present?, full assignment of a defect symbol to every "
        "day of the window [, state of the two adjoining billing periods, aggregation]); behaviour = per-day pattern of "
        "(predicted present, observed present) around the window; non-trivial = at least one day is incomplete",
    )
    cov["rows_checked"] = ex.stats.get("rows", 0)
    return {"level": LEVEL, "coverage": cov, "violations": ex.violations, "assumptions": ASSUMPTIONS}


def replay(rep):
    vs = []
    for k in range(2):
        r = run_case(rep["case"])
        vs = [v for v in r.get("violations", []) if v["clause"] == rep["clause"]]
        print(f"run {k}: behaviour={r.get('behaviour')} violations={[v['clause'] for v in r.get('violations', [])]}")
        for v in vs[:2]:
            print("  ", v["detail"][:500])
    return 1 if vs else 0
