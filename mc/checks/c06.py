"""C06 — predictions come back one row per input timestamp, on the real clock.

 H  hourly: exhaustive over (IANA zone signature class, UTC-offset transition 2000-2037): a reporting frame of whole
    local days around the transition goes through HourlyReportingData and HourlyModel.predict (model loaded from a
    document whose baseline_timezone names the zone), with and without usage; plus the slot-level check of the clock
    normalisation (_get_dst_indices/_transform_dst fed with slot numbers)
 D  daily / billing: one zone per signature class, 10 days around every transition of two years, NaN-temperature /
    NaN-usage days adjacent to the transition
"""
import json
import os
import zoneinfo

import numpy as np
import pandas as pd

from .. import dailydocs as dd, datasets as ds, env, explore, pool as poolmod

PROP = "C06"
LEVEL = "exploration"
MOD = "mc.checks.c06"

ASSUMPTIONS = [
    "zones with an identical list of (instant, offset before, offset after) transitions in 2000-2037 form one signature class and are "
    "represented by their alphabetically first member: the library reads the zone only through pandas' conversions and through "
    "str(tz) equality (the model document names the same zone)",
    "'shifted' is decided at slot level for whole-hour transitions: feeding the clock normalisation the slot numbers 24*day+hour, every "
    "row must receive its own (local date, local hour) slot, the second occurrence of a repeated hour the mean of its neighbours' slots",
    "parts H and L: the hourly model's coefficients come from one fit in America/Chicago; only baseline_timezone is replaced per zone; "
    "part M fits one model per meter shape (default settings, seed 7)",
    "hourly frames carry temperature (and usage) only; supplemental feature columns, where a model is configured with them, are the "
    "caller's and are complete",
    "daily/billing rows sit at local midnight (shifted forward where midnight does not exist)",
]

CACHE = os.path.join(env.VERIF_DIR, ".cache", "tz_transitions.json")
Y0, Y1 = 2000, 2038


def compute_transitions():
    """zone -> list of [utc_iso, off_before_s, off_after_s] for 2000-2037, from pandas' own conversion"""
    if os.path.exists(CACHE):
        with open(CACHE) as fh:
            data = json.load(fh)
        if data.get("tzdata") == _tzdata_version() and data.get("pandas") == pd.__version__:
            return data["zones"]
    utc = pd.date_range(f"{Y0}-01-01", f"{Y1}-01-01", freq="15min", tz="UTC")
    naive = utc.tz_localize(None)
    zones = {}
    for z in sorted(zoneinfo.available_timezones()):
        try:
            loc = utc.tz_convert(z).tz_localize(None)
        except Exception:
            continue
        off = ((loc - naive).total_seconds()).to_numpy().astype(np.int64)
        ch = np.flatnonzero(np.diff(off) != 0)
        zones[z] = [[utc[i + 1].isoformat(), int(off[i]), int(off[i + 1])] for i in ch]
    os.makedirs(os.path.dirname(CACHE), exist_ok=True)
    with open(CACHE, "w") as fh:
        json.dump({"tzdata": _tzdata_version(), "pandas": pd.__version__, "zones": zones}, fh)
    return zones


def _tzdata_version():
    try:
        import importlib.metadata as md

        return md.version("tzdata")
    except Exception:
        return "system"


def signature_classes(zones):
    cls = {}
    for z, tr in zones.items():
        if not tr:
            continue
        cls.setdefault(json.dumps(tr), []).append(z)
    return {sorted(v)[0]: sorted(v) for v in cls.values()}


def classify(off_b, off_a, local_after):
    d = off_a - off_b
    kind = "forward" if d > 0 else "back"
    size = "1h" if abs(d) == 3600 else ("30min" if abs(d) == 1800 else f"{abs(d)}s")
    # local wall time at which the change happens (time shown just before the change)
    return kind, size


def local_days_index(first_date, days, zone):
    d0 = pd.Timestamp(first_date).tz_localize(zone, ambiguous=True, nonexistent="shift_forward")
    d1 = (pd.Timestamp(first_date) + pd.Timedelta(days=days)).tz_localize(zone, ambiguous=True, nonexistent="shift_forward")
    return pd.date_range(d0.tz_convert("UTC"), d1.tz_convert("UTC"), freq="h", inclusive="left").tz_convert(zone)


_MODEL = {}


def hourly_doc():
    if "doc" not in _MODEL:
        import opendsm.eemeter as em

        fr = ds.hourly_frame(start="2021-01-01", days=365, tz="America/Chicago", wseed=0, seed=0)
        m = em.HourlyModel(settings={"seed": 7}).fit(em.HourlyBaselineData(fr, is_electricity_data=True))
        _MODEL["doc"] = m.to_dict()
    return _MODEL["doc"]


def hourly_model(zone):
    import copy

    import opendsm.eemeter as em

    d = copy.deepcopy(hourly_doc())
    d["info"]["baseline_timezone"] = zone
    return em.HourlyModel.from_dict(d)


def cases(tier):
    zones = compute_transitions()
    classes = signature_classes(zones)
    out = []
    shapes_seen = set()
    for rep in sorted(classes):
        trs = zones[rep]
        for k, (iso, ob, oa) in enumerate(trs):
            year = int(iso[:4])
            if tier == "quick" and not (2019 <= year <= 2023):
                # outside the quick years: keep the first representative of every transition SHAPE
                # (size and direction of the change, local wall time at which it happens)
                lb = (pd.Timestamp(iso) - pd.Timedelta(minutes=15)).tz_convert(rep)
                shape = (oa - ob, lb.hour, lb.minute)
                if shape in shapes_seen:
                    continue
                shapes_seen.add(shape)
            elif tier == "quick":
                lb = (pd.Timestamp(iso) - pd.Timedelta(minutes=15)).tz_convert(rep)
                shapes_seen.add((oa - ob, lb.hour, lb.minute))
            out.append({"part": "H", "zone": rep, "utc": iso, "ob": ob, "oa": oa, "members": len(classes[rep])})
    dcases = []
    for rep in sorted(classes):
        for iso, ob, oa in zones[rep]:
            if int(iso[:4]) in ((2021,) if tier == "quick" else (2021, 2027)):
                dcases.append({"part": "D", "zone": rep, "utc": iso, "ob": ob, "oa": oa})
    return out, dcases, {"zones": len(zones), "zones_with_transitions": sum(1 for v in zones.values() if v),
                         "transitions_all_zones": sum(len(v) for v in zones.values()), "signature_classes": len(classes),
                         "transitions_of_representatives": sum(len(zones[r]) for r in classes)}


def run_H(case):
    import opendsm.eemeter as em
    from opendsm.eemeter.models.hourly.model import _get_dst_indices, _transform_dst

    zone = case["zone"]
    t = pd.Timestamp(case["utc"])
    d = case["oa"] - case["ob"]
    size = "1h" if abs(d) == 3600 else ("30min" if abs(d) == 1800 else "other")
    local_after = t.tz_convert(zone)
    local_before = (t - pd.Timedelta(minutes=15)).tz_convert(zone)
    at_midnight = local_before.hour == 23 or local_after.hour == 0 or (d < 0 and (local_after.hour == 23))
    key0 = {"family": "hourly", "size": size, "kind": "forward" if d > 0 else "back", "at_midnight": bool(at_midnight)}
    viol = []
    day = local_before.tz_localize(None).normalize()
    beh = []
    n = 0
    model = hourly_model(zone)
    variants = [("mid", day - pd.Timedelta(days=1), 3), ("first", day, 2), ("last", day - pd.Timedelta(days=1), 2),
                ("mid_gappy", day - pd.Timedelta(days=1), 3)]
    day_after = local_after.tz_localize(None).normalize()
    if day_after != day:
        # a change at local midnight: the short/long day is the one AFTER the instant; frames starting / ending on that day
        variants += [("first_after", day_after, 2), ("last_after", day_after - pd.Timedelta(days=1), 2)]
    for variant, first, days in variants:
        idx = local_days_index(first, days, zone)
        temp = 50.0 + 10.0 * np.sin(np.arange(len(idx)) / 5.0)
        obs = 1.0 + 0.1 * (np.arange(len(idx)) % 24)
        for usage in (True, False):
            key = dict(key0, usage=usage)
            cols = {"observed": obs, "temperature": temp} if usage else {"temperature": temp}
            frame = pd.DataFrame(cols, index=idx)
            if variant == "mid_gappy":
                # "starts and ends at any hour, with gaps": first row at 06:00, last at 17:00, absent rows and NaN temperature cells
                # (also next to the transition); the data class fills them, every row of its frame must still be predicted
                frame = frame.iloc[6:len(frame) - 6].copy()
                n = len(frame)
                frame.iloc[[3, n // 2 - 1, n // 2, n - 9], frame.columns.get_loc("temperature")] = np.nan
                frame = frame.drop(frame.index[[10, 11, n // 2 + 5]])
                key = dict(key, gappy=True)
            try:
                data = em.HourlyReportingData(frame, is_electricity_data=True)
            except Exception as exc:
                viol.append({"clause": "data_class_raised", "key": dict(key, exc=type(exc).__name__),
                             "detail": f"{zone} {variant} {idx[0]}..{idx[-1]}: {type(exc).__name__}: {exc}"})
                continue
            df = data.df
            n += 1
            try:
                p = model.predict(data)
            except Exception as exc:
                viol.append({"clause": "predict_raised", "key": dict(key, exc=type(exc).__name__),
                             "detail": f"{zone} transition {case['utc']} ({case['ob']}->{case['oa']}s) frame {variant} {idx[0]}..{idx[-1]}: "
                                       f"{type(exc).__name__}: {str(exc)[:200]}"})
                beh.append("raise")
                continue
            if not p.index.equals(df.index):
                viol.append({"clause": "index_differs", "key": key,
                             "detail": f"{zone} {variant}: predict() has {len(p)} rows, data.df {len(df)}; first difference near "
                                       f"{(p.index.symmetric_difference(df.index)[:2]).tolist()}"})
            u = p.index.tz_convert("UTC")
            if not (u.is_monotonic_increasing and u.is_unique):
                viol.append({"clause": "not_chronological", "key": key, "detail": f"{zone} {variant}"})
            if not np.isfinite(p["predicted"].to_numpy(float)).all():
                viol.append({"clause": "non_finite_hourly_prediction", "key": key,
                             "detail": f"{zone} {variant}: {int((~np.isfinite(p['predicted'].to_numpy(float))).sum())} rows"})
            beh.append(len(p))
            # slot level
            if size == "1h" and usage and variant != "mid_gappy":
                try:
                    dst = _get_dst_indices(df)
                    dates = sorted(set(df.index.date))
                    v = _transform_dst(np.arange(len(dates) * 24.0), dst)
                except Exception as exc:
                    viol.append({"clause": "clock_normalisation_raised", "key": dict(key, exc=type(exc).__name__), "detail": f"{zone} {variant}: {exc}"})
                    continue
                if len(v) != len(df):
                    viol.append({"clause": "slot_count", "key": key, "detail": f"{zone} {variant}: {len(v)} slots for {len(df)} rows"})
                    continue
                dpos = {dte: i for i, dte in enumerate(dates)}
                seen = set()
                for i, ts in enumerate(df.index):
                    slot = dpos[ts.date()] * 24 + ts.hour
                    exp = float(slot)
                    if (ts.date(), ts.hour) in seen and slot + 1 < len(dates) * 24:
                        exp = slot + 0.5  # mean of its neighbours' slots (no following slot at the very end of the data)
                    seen.add((ts.date(), ts.hour))
                    if v[i] != exp:
                        viol.append({"clause": "row_shifted_to_wrong_slot", "key": key,
                                     "detail": f"{zone} {variant}: row {ts} received slot {v[i]!r}, expected {exp!r}"})
                        break
    return {"behaviour": [key0["size"], key0["kind"], key0["at_midnight"], beh], "violations": viol, "stats": {"predicts": n}}


def run_D(case):
    import opendsm.eemeter as em

    zone = case["zone"]
    t = pd.Timestamp(case["utc"])
    local_before = (t - pd.Timedelta(minutes=15)).tz_convert(zone)
    day = local_before.tz_localize(None).normalize()
    first = day - pd.Timedelta(days=5)
    viol = []
    n = 0
    beh = []
    subs = {"fw-su_sh_wi": dd.submodel(dd.coeffs("hdd_tidd_cdd"))}
    for family in ("daily", "billing"):
        s = dd.settings_dump("current" if family == "daily" else "legacy")
        if family == "billing":
            s["developer_mode"] = True
            s["silent_developer_mode"] = True
        cls = em.DailyModel if family == "daily" else em.BillingModel
        model = cls.from_dict(dd.document(subs, s, tz=zone))
        ndays = 10 if family == "daily" else 70
        f0 = first if family == "daily" else day - pd.Timedelta(days=35)
        naive = pd.date_range(f0, periods=ndays, freq="D")
        idx = naive.tz_localize(zone, ambiguous=True, nonexistent="shift_forward")
        pos = int(np.flatnonzero(naive == day)[0])
        for defect in ("none", "Tnan_on", "Tnan_after", "Unan_on", "Tinf_before", "Tnan_first2", "Tnan_last2", "Tnan_ends", "Uoffcycle"):
            for usage in (True, False):
                if defect in ("Unan_on", "Uoffcycle") and not usage:
                    continue
                if defect == "Uoffcycle" and family != "billing":
                    continue
                key = {"family": family, "usage": usage}
                T = 40.0 + 2.0 * np.arange(ndays)
                y = 100.0 + np.arange(ndays)
                if defect == "Tnan_on":
                    T[pos] = np.nan
                if defect == "Tnan_after":
                    T[min(pos + 1, ndays - 1)] = np.nan
                if defect == "Unan_on":
                    y[pos] = np.nan
                # weather that starts later / ends earlier than the frame: the rows stay, without a prediction
                if defect in ("Tnan_first2", "Tnan_ends"):
                    T[:2] = np.nan
                if defect in ("Tnan_last2", "Tnan_ends"):
                    T[-2:] = np.nan
                if defect == "Tinf_before":
                    T[max(pos - 1, 0)] = np.inf   # a non-finite (not missing) temperature: the row stays, without a prediction
                try:
                    if family == "daily":
                        cols = {"observed": y, "temperature": T} if usage else {"temperature": T}
                        data = em.DailyReportingData(pd.DataFrame(cols, index=idx), is_electricity_data=True)
                    else:
                        temp = pd.Series(T, index=idx, name="temperature")
                        if usage:
                            reads = pd.Series([3000.0, np.nan if defect == "Unan_on" else 3100.0, np.nan], index=idx[[0, 30, 60]], name="observed")
                            if defect == "Uoffcycle":
                                # a 10-day off-cycle read between two regular periods: its days keep their temperature, lose their usage
                                reads = pd.Series([3000.0, 500.0, 2700.0, np.nan], index=idx[[0, 30, 40, 68]], name="observed")
                            data = em.BillingReportingData.from_series(reads, temp, is_electricity_data=True)
                        else:
                            data = em.BillingReportingData.from_series(None, temp, is_electricity_data=True)
                except Exception as exc:
                    viol.append({"clause": "data_class_raised", "key": dict(key, exc=type(exc).__name__),
                                 "detail": f"{zone} around {case['utc']}: {type(exc).__name__}: {str(exc)[:200]}"})
                    continue
                df = data.df
                n += 1
                try:
                    p = model.predict(data)
                except Exception as exc:
                    viol.append({"clause": "predict_raised", "key": dict(key, exc=type(exc).__name__),
                                 "detail": f"{zone} around {case['utc']} defect={defect}: {type(exc).__name__}: {str(exc)[:200]}"})
                    continue
                if not p.index.equals(df.index):
                    viol.append({"clause": "index_differs", "key": key, "detail": f"{zone} {defect}: {len(p)} rows vs {len(df)}"})
                    continue
                u = p.index.tz_convert("UTC")
                if not (u.is_monotonic_increasing and u.is_unique):
                    viol.append({"clause": "not_chronological", "key": key, "detail": f"{zone} {defect}"})
                Tfin = np.isfinite(df["temperature"].to_numpy(float))
                exp = Tfin.copy()
                if "observed" in df.columns:
                    exp &= df["observed"].notna().to_numpy()
                got = np.isfinite(p["predicted"].to_numpy(float))
                if not np.array_equal(got, exp):
                    j = int(np.flatnonzero(got != exp)[0])
                    viol.append({"clause": "finiteness_pattern", "key": key,
                                 "detail": f"{zone} {defect}: row {p.index[j]} predicted={p['predicted'].iloc[j]!r} temperature={df['temperature'].iloc[j]!r}"})
                beh.append(int(got.sum()))
    # short daily windows (day pairs, three days) with the day of the clock change first / in the middle / last, through both entry points:
    # one row per supplied day, at its own stamp, with a prediction (every supplied temperature and usage value is finite)
    model = em.DailyModel.from_dict(dd.document(subs, dd.settings_dump("current"), tz=zone))
    for nrows in (2, 3):
        for off in range(nrows):
            naive = pd.date_range(day - pd.Timedelta(days=off), periods=nrows, freq="D")
            try:
                # zones that change the clock at local midnight have a day without a 00:00 (or with two): such a day first or last in the data
                # (or next to it: the classes pad by a day) is the open C10 finding `no-midnight day at the edge of the data`; the short windows keep to the other zones
                pd.date_range(naive[0] - pd.Timedelta(days=1), periods=nrows + 2, freq="D").tz_localize(zone, ambiguous="raise", nonexistent="raise")
                idx = naive.tz_localize(zone, ambiguous="raise", nonexistent="raise")
            except Exception:
                continue
            T = 50.0 + 2.0 * np.arange(nrows)
            y = 100.0 + np.arange(nrows)
            for entry in ("frame", "from_series"):
                for usage in (True, False):
                    key = {"family": "daily", "usage": usage, "window": "short", "entry": entry}
                    try:
                        if entry == "frame":
                            cols = {"observed": y, "temperature": T} if usage else {"temperature": T}
                            data = em.DailyReportingData(pd.DataFrame(cols, index=idx), is_electricity_data=True)
                        else:
                            data = em.DailyReportingData.from_series(pd.Series(y, index=idx, name="observed") if usage else None,
                                                                     pd.Series(T, index=idx, name="temperature"), is_electricity_data=True)
                        n += 1
                        p = model.predict(data)
                    except Exception as exc:
                        viol.append({"clause": "short_window_raised", "key": dict(key, exc=type(exc).__name__),
                                     "detail": f"{zone} {nrows} daily rows from {naive[0].date()} ({entry}, usage={usage}): {type(exc).__name__}: {str(exc)[:160]}"})
                        continue
                    if not p.index.equals(idx.as_unit(p.index.unit) if hasattr(idx, "as_unit") else idx):
                        viol.append({"clause": "short_window_rows", "key": key,
                                     "detail": f"{zone} {nrows} daily rows from {naive[0].date()} ({entry}, usage={usage}): result rows {list(map(str, p.index))}"})
                        continue
                    got = np.isfinite(p["predicted"].to_numpy(float))
                    if not got.all():
                        viol.append({"clause": "short_window_prediction_missing", "key": key,
                                     "detail": f"{zone} {nrows} daily rows from {naive[0].date()} ({entry}, usage={usage}): every supplied value is finite, "
                                               f"predicted = {p['predicted'].tolist()}, observed in the data object = {data.df.get('observed', pd.Series(dtype=float)).tolist()}"})
                    beh.append(int(got.sum()))
    return {"behaviour": beh, "violations": viol, "stats": {"predicts": n}}


LONG_ZONES = ["America/Chicago", "Australia/Sydney", "Europe/Berlin", "America/Santiago", "Australia/Lord_Howe", "Asia/Kolkata"]
LONG_SPANS = [("autumn_to_spring", "2021-09-15", 230), ("spring_to_autumn", "2021-02-15", 300), ("two_years", "2021-01-01", 730),
              ("mid_year_to_mid_year", "2021-07-01", 365)]


def long_cases(tier):
    zones = LONG_ZONES if tier == "thorough" else LONG_ZONES[:4]
    return [{"part": "L", "zone": z, "span": s} for z in zones for s, _, _ in LONG_SPANS]


def run_L(case):
    """reporting spans holding SEVERAL clock changes in either order (all reporting spans): hourly and daily"""
    import opendsm.eemeter as em

    zone = case["zone"]
    _, start, days = next(x for x in LONG_SPANS if x[0] == case["span"])
    viol, beh, n = [], [], 0
    idx = local_days_index(pd.Timestamp(start), days, zone)
    temp = 50.0 + 10.0 * np.sin(np.arange(len(idx)) / 5.0)
    obs = 1.0 + 0.1 * (np.arange(len(idx)) % 24)
    model = hourly_model(zone)
    for usage in (True, False):
        key = {"family": "hourly", "span": "several_transitions", "usage": usage}
        cols = {"observed": obs, "temperature": temp} if usage else {"temperature": temp}
        try:
            data = em.HourlyReportingData(pd.DataFrame(cols, index=idx), is_electricity_data=True)
            df = data.df
            n += 1
            p = model.predict(data)
        except Exception as exc:
            viol.append({"clause": "predict_raised", "key": dict(key, exc=type(exc).__name__),
                         "detail": f"{zone} {case['span']} ({start} + {days} d): {type(exc).__name__}: {str(exc)[:200]}"})
            continue
        if not p.index.equals(df.index):
            viol.append({"clause": "index_differs", "key": key, "detail": f"{zone} {case['span']}: {len(p)} rows vs {len(df)}"})
            continue
        u = p.index.tz_convert("UTC")
        if not (u.is_monotonic_increasing and u.is_unique):
            viol.append({"clause": "not_chronological", "key": key, "detail": f"{zone} {case['span']}"})
        bad = ~np.isfinite(p["predicted"].to_numpy(float))
        if bad.any():
            viol.append({"clause": "non_finite_hourly_prediction", "key": key,
                         "detail": f"{zone} {case['span']}: {int(bad.sum())} rows, first {p.index[int(np.flatnonzero(bad)[0])]}"})
        beh.append(len(p))
    # daily: a model split by season and one split by day type over the same span, and over a span lying inside ONE season
    naive = pd.date_range(pd.Timestamp(start), periods=days, freq="D")
    for layout in ("fw-su__fw-sh_wi", "wd-su_sh_wi__we-su_sh_wi"):
        subs = {c: dd.submodel(dd.coeffs("hdd_tidd_cdd")) for c in layout.split("__")}
        model_d = em.DailyModel.from_dict(dd.document(subs, dd.settings_dump("current"), tz=zone))
        for sub_name, sel in (("whole", slice(None)), ("first_40_days", slice(0, 40))):
            key = {"family": "daily", "span": "several_transitions" if sub_name == "whole" else "one_season", "layout": layout}
            nv = naive[sel]
            didx = nv.tz_localize(zone, ambiguous=True, nonexistent="shift_forward")
            T = 40.0 + 0.2 * np.arange(len(didx)) % 50
            try:
                data = em.DailyReportingData(pd.DataFrame({"temperature": T}, index=didx), is_electricity_data=True)
                df = data.df
                n += 1
                p = model_d.predict(data)
            except Exception as exc:
                viol.append({"clause": "predict_raised", "key": dict(key, exc=type(exc).__name__),
                             "detail": f"{zone} {case['span']}/{sub_name} daily {layout}: {type(exc).__name__}: {str(exc)[:200]}"})
                continue
            if not p.index.equals(df.index):
                viol.append({"clause": "index_differs", "key": key, "detail": f"{zone} {case['span']}/{sub_name}: {len(p)} rows vs {len(df)}"})
                continue
            got = np.isfinite(p["predicted"].to_numpy(float))
            exp = np.isfinite(df["temperature"].to_numpy(float))
            if not np.array_equal(got, exp):
                viol.append({"clause": "finiteness_pattern", "key": key, "detail": f"{zone} {case['span']}/{sub_name}: {int((got != exp).sum())} rows"})
            beh.append(int(got.sum()))
    return {"behaviour": [case["span"], beh], "violations": viol, "stats": {"predicts": n}}


# M: meters whose readings are exactly constant over part of the temperature range (a gas furnace at 0 all summer, a chiller at 0 all
# winter, the same with 0.01-unit resolution or a constant pilot flame): the hourly model fitted on each, predicting its own baseline,
# a summer and a winter window of another weather year, with and without usage
METER_SHAPES = {
    "heating_only_zero_when_warm": lambda t, e: np.clip(0.1 * (60 - t) + e, 0, None),
    "cooling_only_zero_when_cold": lambda t, e: np.clip(0.1 * (t - 65) + e, 0, None),
    "heating_only_two_decimals": lambda t, e: np.round(np.clip(0.1 * (60 - t) + e, 0, None), 2),
    "heating_only_constant_pilot": lambda t, e: 0.01 + np.clip(0.1 * (60 - t) + e, 0, None),
    "heating_and_cooling_zero_between": lambda t, e: np.clip(0.1 * (55 - t) + e, 0, None) + np.clip(0.1 * (t - 70) + e, 0, None),
}
METER_WINDOWS = [("summer", "2022-06-15", 60), ("winter", "2022-12-01", 60)]


def meter_cases(tier):
    zones = ["America/Chicago", "Australia/Sydney"] if tier == "thorough" else ["America/Chicago"]
    return [{"part": "M", "shape": s, "zone": z} for s in METER_SHAPES for z in zones]


def run_M(case):
    import opendsm.eemeter as em

    zone, shape = case["zone"], case["shape"]
    viol, beh, n = [], [], 0

    def frame(start, days, wseed):
        fr = ds.hourly_frame(start=start, days=days, tz=zone, wseed=wseed, seed=0)
        e = np.random.default_rng(wseed).normal(0, 0.1, len(fr))
        fr["observed"] = METER_SHAPES[shape](fr["temperature"].to_numpy(float), e)
        return fr

    base = frame("2021-01-01", 365, 0)
    key0 = {"family": "hourly", "part": "meter_shapes", "shape": shape}
    try:
        bdata = em.HourlyBaselineData(base, is_electricity_data=False)
        model = em.HourlyModel(settings={"seed": 7}).fit(bdata)
    except Exception as exc:
        return {"behaviour": [shape, "fit_refused", type(exc).__name__], "violations": [], "stats": {"predicts": 0}}
    sets = [("baseline", bdata)] + [(w, em.HourlyReportingData(frame(st, d, 3), is_electricity_data=False)) for w, st, d in METER_WINDOWS]
    sets += [(w + "_no_usage", em.HourlyReportingData(frame(st, d, 3)[["temperature"]], is_electricity_data=False)) for w, st, d in METER_WINDOWS]
    for holder in ("fitted", "reloaded"):
        mdl = model if holder == "fitted" else em.HourlyModel.from_json(model.to_json())
        for name, data in sets:
            key = dict(key0, window=name)
            try:
                n += 1
                p = mdl.predict(data)
            except Exception as exc:
                viol.append({"clause": "predict_raised", "key": dict(key, exc=type(exc).__name__),
                             "detail": f"{shape} {zone} {holder} model on {name}: {type(exc).__name__}: {str(exc)[:200]}"})
                continue
            if not p.index.equals(data.df.index):
                viol.append({"clause": "index_differs", "key": key, "detail": f"{shape} {zone} {name}: {len(p)} rows vs {len(data.df)}"})
                continue
            bad = ~np.isfinite(p["predicted"].to_numpy(float))
            if bad.any():
                viol.append({"clause": "non_finite_hourly_prediction", "key": key,
                             "detail": f"{shape} {zone} {holder} model on {name}: {int(bad.sum())} of {len(p)} rows not finite, first "
                                       f"{p.index[int(np.flatnonzero(bad)[0])]}; edge-bin coefficients {model._T_edge_bin_coeffs}"})
            beh.append([holder, name, int(bad.sum())])
    return {"behaviour": [shape, beh], "violations": viol, "stats": {"predicts": n}}


def run_case(case):
    return {"H": run_H, "D": run_D, "L": run_L, "M": run_M}[case["part"]](case)


def run(tier, seed):
    hc, dc, info = cases(tier)
    with poolmod.Pool() as pool:
        exH = explore.explore(pool, "H hourly: zone classes x transitions", MOD, "run_case", hc, seed=seed)
        exD = explore.explore(pool, "D daily/billing: zone classes x transitions", MOD, "run_case", dc, seed=seed)
        exL = explore.explore(pool, "L spans holding several transitions", MOD, "run_case", long_cases(tier), seed=seed, chunk=1)
        exM = explore.explore(pool, "M meters constant over part of the temperature range", MOD, "run_case", meter_cases(tier), seed=seed, chunk=1)
    cov = explore.merge_coverage(
        [exH, exD, exL, exM],
        rule="H: one case = (zone signature class, UTC-offset transition); frames of 3 and 2 local days with the transition day in the "
        "middle / first / last, with and without usage, through HourlyReportingData and HourlyModel.predict, plus the slot-level check; "
        "D: one case = (zone class, transition of the chosen years): 10 daily rows / 70 days of billing reads around it x "
        "{no defect, NaN temperature on / after the transition day, on the first / last two days of the frame, NaN usage} x usage present/absent, plus daily windows of two "
        "and three rows with the transition day at every position through the frame constructor and from_series; L: one case = (zone, span of 230-730 "
        "days holding two to four clock changes in either order): hourly predict with/without usage, daily predict with a season-split "
        "and a day-type-split model over the span and over 40 days inside one season; M: one case = (meter shape exactly constant over part of "
        "the temperature range: heating-only at 0 when warm, cooling-only at 0 when cold, two-decimal resolution, constant pilot, zero "
        "between heating and cooling; zone): hourly model fitted on it, the fitted and the reloaded model predict the baseline, a summer "
        "and a winter window of another weather year with and without usage - every prediction finite",
    )
    cov.update(info)
    cov["predict_calls"] = exH.stats.get("predicts", 0) + exD.stats.get("predicts", 0) + exL.stats.get("predicts", 0) + exM.stats.get("predicts", 0)
    return {"level": LEVEL, "coverage": cov, "violations": exH.violations + exD.violations + exL.violations + exM.violations, "assumptions": ASSUMPTIONS}


def replay(rep):
    vs = []
    for k in range(2):
        r = run_case(rep["case"])
        vs = [v for v in r.get("violations", []) if v["clause"] == rep["clause"]]
        print(f"run {k}: behaviour={r.get('behaviour')} violations={sorted(set(v['clause'] for v in r.get('violations', [])))}")
        for v in vs[:3]:
            print("  ", v["detail"][:600])
    return 1 if vs else 0
