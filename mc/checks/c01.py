"""C01 — a stored model reproduces its counterfactual exactly.

 A  document-built daily/billing models: coefficient lattice x split layouts x settings profiles; round trips,
    bit-identical predictions, closed-form reference (refmodels.curve) from the JSON alone
 B  fitted models of every family x profiles: explicit-state BFS over histories of
    {to_json->from_json, to_dict->from_dict, predict(R_i)}; in every state the document, the predictions on every
    reporting set, the timezone, warnings and disqualifications equal those of the freshly fitted model
"""
import copy
import itertools
import json

import numpy as np
import pandas as pd

from .. import dailydocs as dd, datasets as ds, explore, fingerprint as F, pool as poolmod, stategraph
from ..refmodels import curve
from . import c02

PROP = "C01"
LEVEL = "model_checking"
MOD = "mc.checks.c01"

ASSUMPTIONS = [
    "document-built models: coefficient lattice = admissible box of C11 (balance points inside the segment limits, stored sign "
    "conventions); documents outside it are not claimed",
    "closed form: exact equality for unsmoothed shapes, <= 4 ulp of the largest term for smoothed ones (two implementations of exp)",
    "'same document' = the same JSON value (equal strings, or equal after parsing: 12 and 12.0 are one JSON number); 'predicts "
    "bit-identically' = equal structural fingerprint of the whole "
    "prediction frame (index, columns, dtypes, every value bit for bit, NaN == NaN)",
    "hourly models are given an explicit seed (the private seed of a seed=None settings object is re-drawn on every validation)",
    "CalTRACK hourly: the wrapper's predict() needs observed usage to compute its uncertainty column; both columns are compared",
]

ZONE = "America/Chicago"
LAYOUTS_Q = ["fw-su_sh_wi", "wd-su_sh_wi__we-su_sh_wi", "fw-su__fw-sh_wi", "fw-sh__fw-su__fw-wi",
             "fw-su__wd-sh_wi__we-sh_wi", "wd-su__wd-sh__wd-wi__we-su__we-sh__we-wi"]
PROFILES = ["current", "legacy", "billing", "dev_override", "season_map", "weekday_map", "unc_alpha"]
WARN = {"qualified_name": "eemeter.sufficiency_criteria.extreme_values_detected", "description": "Extreme values.", "data": {"n": 3}}
DQ = {"qualified_name": "eemeter.sufficiency_criteria.too_many_days_with_missing_data", "description": "Too many.", "data": {"n_valid_days": 300}}


def _deq(a, b):
    if isinstance(a, dict) and isinstance(b, dict):
        return a.keys() == b.keys() and all(_deq(a[k], b[k]) for k in a)
    if isinstance(a, list) and isinstance(b, list):
        return len(a) == len(b) and all(_deq(x, y) for x, y in zip(a, b))
    if isinstance(a, bool) or isinstance(b, bool) or a is None or b is None:
        return type(a) is type(b) and a == b
    if isinstance(a, (int, float)) and isinstance(b, (int, float)):
        return a == b or (a != a and b != b)
    return type(a) is type(b) and a == b


def same_doc(js1, js2):
    """same JSON document: equal strings, or equal JSON values (12 and 12.0 are the same JSON number; NaN equals NaN)"""
    return js1 == js2 or _deq(json.loads(js1), json.loads(js2))


def profile_settings(profile):
    if profile == "current":
        return "daily", dd.settings_dump("current")
    if profile == "legacy":
        return "daily", dd.settings_dump("legacy")
    if profile == "billing":
        s = dd.settings_dump("legacy")
        s["developer_mode"] = True  # what BillingModel.to_dict documents
        return "billing", s
    if profile == "dev_override":
        return "daily", dd.settings_dump("current", developer_mode=True, silent_developer_mode=True, cvrmse_threshold=0.5,
                                         regularization_alpha=0.01)
    if profile == "season_map":
        return "daily", dd.settings_dump("current", season=dict(march="winter", october="summer"))
    if profile == "weekday_map":
        return "daily", dd.settings_dump("current", weekday_weekend=dict(friday="weekend", sunday="weekday"))
    if profile == "unc_alpha":
        return "daily", dd.settings_dump("current", uncertainty_alpha=0.32)
    raise ValueError(profile)


def family_cls(fam):
    import opendsm.eemeter as em

    return {"daily": em.DailyModel, "billing": em.BillingModel}[fam]


def cases_A(tier):
    out = []
    # 1. full lattice on the unsplit layout, current profile (thorough: every point; quick: every 5th)
    for shape in dd.SHAPES:
        n = len(dd.lattice(shape, tier))
        step = 1 if tier == "thorough" else 5
        for i in range(0, n, step):
            out.append({"part": "A", "shape": shape, "i": i, "layout": "fw-su_sh_wi", "profile": "current", "tier": tier})
    # 2. every profile x every layout, components take different shapes round-robin
    layouts = LAYOUTS_Q if tier == "quick" else None
    for profile in PROFILES:
        for li in range(len(LAYOUTS_Q) if layouts else 48):
            out.append({"part": "A", "shape": "mixed", "i": li, "layout": LAYOUTS_Q[li] if layouts else f"#{li}", "profile": profile,
                        "tier": tier, "dq": li % 2 == 1})
    return out


_LAYOUTS = {}


def resolve_layout(name):
    if not name.startswith("#"):
        return name
    if "all" not in _LAYOUTS:
        from . import c13

        _LAYOUTS["all"] = c13.all_layouts()
    return _LAYOUTS["all"][int(name[1:])]


def reporting_daily(fam, temps, usage=True, zone=ZONE):
    import opendsm.eemeter as em

    n = len(temps)
    idx = ds.local_days("2022-01-01", n, zone)
    if fam == "daily":
        cols = {"temperature": temps}
        if usage:
            cols = {"observed": 50.0 + np.arange(n) % 7, "temperature": temps}
        return em.DailyReportingData(pd.DataFrame(cols, index=idx), is_electricity_data=True)
    t = pd.Series(temps, index=idx, name="temperature")
    if not usage:
        return em.BillingReportingData.from_series(None, t, is_electricity_data=True)
    starts = list(range(0, n - 24, 30))
    meter = pd.Series([900.0 + j for j in range(len(starts))] + [np.nan], index=idx[starts + [n - 1]], name="observed")
    return em.BillingReportingData.from_series(meter, t, is_electricity_data=True)


def sweep(tc):
    base = np.round(np.arange(tc["T_min"] - 70.0, tc["T_max"] + 70.0, 2.5), 2)
    extra = [tc["T_min"] - 40.5, tc["T_max"] + 40.5, tc["T_min"], tc["T_max"], tc["T_min_seg"], tc["T_max_seg"]]
    t = np.concatenate([base, extra])
    t[5] = np.nan
    t[17] = np.nan
    return t


def reorder_keys(x):
    """the same JSON value with the keys of every object in reverse order"""
    if isinstance(x, dict):
        return {k: reorder_keys(x[k]) for k in reversed(list(x))}
    if isinstance(x, list):
        return [reorder_keys(v) for v in x]
    return x


def run_A(case):
    fam, settings = profile_settings(case["profile"])
    cls = family_cls(fam)
    key = {"part": "documents", "profile": case["profile"]}
    viol = []
    tc = dd.TC_WIDE
    if case["shape"] == "mixed":
        layout = resolve_layout(case["layout"])
        comps = layout.split("__")
        shapes = dd.SHAPES if fam == "daily" and case["profile"] not in ("legacy",) else ["tidd", "hdd_tidd", "tidd_cdd", "hdd_tidd_cdd"]
        subs = {}
        for j, c in enumerate(comps):
            sh = shapes[(j + case["i"]) % len(shapes)]
            lat = dd.lattice(sh, "quick")
            subs[c] = dd.submodel(lat[(7 * j + 3 * case["i"]) % len(lat)], tc, f_unc=0.5 + j)
    else:
        layout = case["layout"]
        c = dd.lattice(case["shape"], case["tier"])[case["i"]]
        subs = {layout: dd.submodel(c, tc)}
    doc = dd.document(subs, settings, tz=ZONE, warnings=[WARN], disqualification=[DQ] if case.get("dq") else [])
    try:
        m1 = cls.from_dict(copy.deepcopy(doc))
    except Exception as exc:
        return {"behaviour": ["load_raises", type(exc).__name__],
                "violations": [{"clause": "document_cannot_be_loaded", "key": dict(key, exc=type(exc).__name__),
                                "detail": f"{cls.__name__}.from_dict of a {case['profile']} document: {type(exc).__name__}: {str(exc)[:300]}"}]}
    try:
        js1 = m1.to_json()
        m2 = cls.from_json(js1)
        js2 = m2.to_json()
        m3 = cls.from_dict(m1.to_dict())
        js3 = m3.to_json()
        # the same document with its object keys in another order (sorted, as a jsonb column or sort_keys=True returns them;
        # and reversed): the order of the keys of a JSON object carries no meaning
        m4 = cls.from_json(json.dumps(doc, sort_keys=True))
        m5 = cls.from_dict(reorder_keys(copy.deepcopy(doc)))
    except Exception as exc:
        return {"behaviour": ["roundtrip_raises", type(exc).__name__],
                "violations": [{"clause": "roundtrip_raises", "key": dict(key, exc=type(exc).__name__),
                                "detail": f"{type(exc).__name__}: {str(exc)[:300]}"}]}
    if not same_doc(js2, js1) or not same_doc(js3, js1):
        a, b = json.loads(js1), json.loads(js2 if js2 != js1 else js3)
        diff = [k for k in a if a.get(k) != b.get(k)]
        viol.append({"clause": "document_not_reproduced", "key": key, "detail": f"re-serialised document differs in {diff}"})
    d1 = json.loads(js1)
    # the loaded document must carry what the input document said
    if d1["submodels"] != json.loads(json.dumps(doc["submodels"])):
        viol.append({"clause": "submodels_altered_by_load", "key": key, "detail": "to_dict()['submodels'] differs from the loaded document"})
    for m in (m1, m2, m3):
        if str(m.baseline_timezone) != ZONE:
            viol.append({"clause": "timezone_lost", "key": key, "detail": f"baseline_timezone {m.baseline_timezone!r}"})
        wn = [(w.qualified_name, w.description, w.data) for w in m.warnings]
        dq = [(w.qualified_name, w.description, w.data) for w in m.disqualification]
        if wn != [(WARN["qualified_name"], WARN["description"], WARN["data"])]:
            viol.append({"clause": "warnings_lost", "key": key, "detail": f"{wn}"})
        if dq != ([(DQ["qualified_name"], DQ["description"], DQ["data"])] if case.get("dq") else []):
            viol.append({"clause": "disqualification_lost", "key": key, "detail": f"{dq}"})
    temps = sweep(tc)
    nrows = 0
    variants = [(False, temps), (True, temps)]
    if case["i"] % 4 == 0:
        # reporting temperatures that are not float64 (whole degrees as int64; float32 - every value is exact in both)
        whole = np.arange(tc["T_min"] - 70.0, tc["T_max"] + 70.0, 5.0)
        variants += [(False, whole.astype("int64")), (True, np.where(np.isnan(temps), 50.0, temps).astype("float32"))]
    for usage, tvals in variants:
        data = reporting_daily(fam, tvals, usage)
        outs = []
        for m in (m1, m2, m3, m4, m5):
            try:
                outs.append(m.predict(data, ignore_disqualification=True))
            except Exception as exc:
                viol.append({"clause": "predict_raises", "key": dict(key, exc=type(exc).__name__), "detail": f"{type(exc).__name__}: {exc}"})
                outs = None
                break
        if outs is None:
            continue
        f = [F.fp(o) for o in outs]
        if len(set(f)) != 1:
            viol.append({"clause": "prediction_differs_after_roundtrip", "key": key, "detail": f"fingerprints {f} (usage={usage})"})
        p = outs[0]
        nrows += len(p)
        # closed form from the JSON alone
        T = p["temperature"].to_numpy(float)
        for comp, sub in d1["submodels"].items():
            sel = (p["model_split"] == comp).to_numpy() & np.isfinite(T) & p["predicted"].notna().to_numpy()
            if not sel.any():
                continue
            e, E, H, C = curve.evaluate(sub["coefficients"], sub["temperature_constraints"], T[sel])
            smooth = sub["coefficients"]["model_type"].endswith("smooth")
            for col, ref in (("predicted", E), ("heating_load", H), ("cooling_load", C)):
                got = p[col].to_numpy(float)[sel]
                ref = np.array(ref)
                if smooth:
                    maxb = max(e["hdd_beta"], e["cdd_beta"])
                    scale = np.maximum.reduce([np.abs(ref), np.full_like(ref, abs(e["intercept"])), maxb * np.abs(T[sel] - e["hdd_bp"]),
                                               maxb * np.abs(T[sel] - e["cdd_bp"]), np.full_like(ref, maxb * max(e["hdd_k"], e["cdd_k"]))])
                    bad = np.abs(got - ref) > 4 * np.spacing(scale)
                else:
                    bad = got != ref
                if bad.any():
                    j = int(np.flatnonzero(bad)[0])
                    viol.append({"clause": "closed_form_mismatch", "key": dict(key, column=col, smooth=smooth),
                                 "detail": f"{comp} T={T[sel][j]!r}: {col}={got[j]!r}, formula from the JSON gives {ref[j]!r}; coefficients {sub['coefficients']}"})
            unc = p["predicted_unc"].to_numpy(float)[sel]
            if (unc != sub["f_unc"]).any():
                viol.append({"clause": "uncertainty_not_from_document", "key": key, "detail": f"{comp}: predicted_unc {unc[0]!r} vs f_unc {sub['f_unc']!r}"})
    return {"behaviour": [case["shape"], len(subs), len(viol)], "violations": viol, "stats": {"rows_compared": nrows, "documents": 1}}


# ------------------------------------------------------------------ B: fitted models, histories
FITTED = [  # (name, family for c02 builders, model factory kwargs)
    ("daily_current", "daily", {}),
    ("daily_legacy", "daily", {"model": "legacy"}),
    ("daily_dev", "daily", {"settings": {"developer_mode": True, "silent_developer_mode": True, "cvrmse_threshold": 0.5}}),
    ("daily_maps", "daily", {"settings": {"season": {"march": "winter"}, "weekday_weekend": {"friday": "weekend"}, "uncertainty_alpha": 0.2}}),
    ("daily_poorfit", "daily", {"settings": {"developer_mode": True, "silent_developer_mode": True, "cvrmse_threshold": 1e-6}}),
    # an accepted setting that makes the stored uncertainty infinite (non-finite numbers in the document)
    ("daily_unc_alpha0", "daily", {"settings": {"uncertainty_alpha": 0}}),
    ("billing_unc_alpha0", "billing", {"settings": {"uncertainty_alpha": 0}}),
    ("billing", "billing", {}),
    ("daily_f32_spike", "daily", {}),        # float32 meter column holding an extreme value: the warning's payload goes into the document
    ("daily_fixed_offset", "daily", {}),     # baseline indexed in a fixed UTC offset ("-06:00"), as parsing ISO-8601 text gives
    ("billing_fixed_offset", "billing", {}),
    ("hourly", "hourly", {"settings": {"seed": 7}}),
    ("hourly_solar", "hourly_solar", {"settings": {"seed": 7}}),
    ("hourly_f32", "hourly", {"settings": {"seed": 7}}),   # every column of the baseline frame in float32 (memory-optimised frames)
    ("hourly_robust", "hourly", {"settings": {"seed": 7, "scaling_method": "robustscaler"}}),
    ("hourly_bins", "hourly", {"settings": {"seed": 7, "temperature_bin": {"method": "equal_bin_width", "n_bins": 5, "bin_width": None, "include_edge_bins": False,
                                                                     "edge_bin_rate": None, "edge_bin_percent": None}}}),
    ("hourly_poorfit", "hourly", {"settings": {"seed": 7, "cvrmse_threshold": 1e-6, "pnrmse_threshold": 1e-6}}),
    # supplemental columns whose names carry capitals / a blank (feature names are stored in the document and matched on load)
    ("hourly_supp", "hourly", {"settings": {"seed": 7, "supplemental_time_series_columns": ["Wind_Speed"],
                                            "supplemental_categorical_columns": ["Occ Mode"]}}),
    ("caltrack", "caltrack", {}),
    # a baseline with a recurring weekly gap (every Sunday 03:00 reading missing): an hour of the week without any reading - whatever
    # the fit notes about it has to survive storage
    ("caltrack_gappy", "caltrack", {}),
]


def add_supplemental(frame):
    """two extra measured columns (deterministic) for the `hourly_supp` profile; the meter follows them a little"""
    frame = frame.copy()
    rng = np.random.default_rng(77)
    frame["Wind_Speed"] = np.round(rng.uniform(0, 20, len(frame)), 1)
    frame["Occ Mode"] = (frame.index.dayofweek >= 5).astype(int)
    if "observed" in frame:
        frame["observed"] = frame["observed"] + 0.02 * frame["Wind_Speed"] + 0.3 * frame["Occ Mode"]
    return frame


def build_fitted(name):
    import opendsm.eemeter as em

    _, fam, kw = next(f for f in FITTED if f[0] == name)
    if fam == "daily":
        m = em.DailyModel(**kw)
    elif fam == "billing":
        m = em.BillingModel(**kw)
    elif fam in ("hourly", "hourly_solar"):
        m = em.HourlyModel(**kw)
    else:
        from opendsm.eemeter.models.hourly_caltrack import HourlyModel as CM

        m = CM()
    frame = c02.baseline_frame(fam, 365, seed=0)
    if name.endswith("_fixed_offset"):
        frame = frame.tz_localize(None).tz_localize("-06:00")
    if name == "hourly_supp":
        frame = add_supplemental(frame)
    if name == "hourly_f32":
        frame = frame.astype("float32")
    if name == "daily_f32_spike":
        frame = frame.copy()
        frame.iloc[50, frame.columns.get_loc("observed")] = float(frame["observed"].max()) * 10
        frame["observed"] = frame["observed"].astype("float32")
    if name == "caltrack_gappy":
        frame = frame.copy()
        frame.loc[(frame.index.dayofweek == 6) & (frame.index.hour == 3), "observed"] = np.nan
    if name == "daily_maps":
        frame = ds.daily_frame(start="2021-01-01", days=365, tz=ZONE, wseed=0, seed=0, noise=0.05, weekend_factor=1.5, summer_factor=1.3)
    data = c02.make_baseline(fam, frame)
    return fam, c02.fit(fam, m, data), type(m)


def reporting_sets(fam, tier, zone=None, supp=False):
    """(name, data object) : inside the fitted range, far colder, far hotter, with NaN temperature, with / without usage"""
    import opendsm.eemeter as em

    zone = zone or ZONE
    out = []
    if fam in ("daily", "billing"):
        n = 120
        inside = ds.daily_temperature(ds.local_days("2022-01-01", n, ZONE), "continental", 4).to_numpy()
        variants = {"inside": inside, "colder": inside - 90.0, "hotter": inside + 90.0}
        nan = inside.copy()
        nan[[3, 40, 41, 77]] = np.nan
        variants["nan_T"] = nan
        for vn, temps in variants.items():
            for usage in (True, False):
                out.append((f"{vn}:{'u' if usage else 'nou'}", reporting_daily(fam, temps, usage, zone=zone)))
        return out
    solar = fam == "hourly_solar"
    days = 60 if fam != "caltrack" else 45
    base = ds.hourly_frame(start="2022-02-10", days=days, tz=ZONE, wseed=4, seed=14, solar=solar)  # crosses the March DST change
    if supp:
        base = add_supplemental(base)
    for vn, off in (("inside", 0.0), ("colder", -70.0), ("hotter", 70.0), ("nan_T", None)):
        fr = base.copy()
        if off is None:
            fr.iloc[100:130, fr.columns.get_loc("temperature")] = np.nan
            fr.iloc[500, fr.columns.get_loc("temperature")] = np.nan
        else:
            fr["temperature"] = fr["temperature"] + off
        for usage in (True, False):
            f2 = fr if usage else fr.drop(columns=["observed"])
            if fam == "caltrack":
                from opendsm.eemeter.models.hourly_caltrack import HourlyReportingData as CR

                out.append((f"{vn}:{'u' if usage else 'nou'}", CR(f2.copy(), is_electricity_data=True)))
            else:
                out.append((f"{vn}:{'u' if usage else 'nou'}", em.HourlyReportingData(f2, is_electricity_data=True)))
    return out


def describe(m):
    def ws(lst):
        return [(w.qualified_name, w.description, json.dumps(w.data, sort_keys=True, default=str)) for w in (lst or [])]

    return {"tz": str(getattr(m, "baseline_timezone", None)), "warnings": ws(getattr(m, "warnings", [])),
            "disqualification": ws(getattr(m, "disqualification", []))}


def run_B(case):
    name = case["fit"]
    fam, model, cls = build_fitted(name)
    key0 = {"part": "fitted", "fit": name}
    viol = []
    try:
        doc0 = model.to_json()
    except Exception as exc:
        return {"behaviour": [name, "to_json_raises"], "violations": [{"clause": "to_json_raises", "key": key0, "detail": repr(exc)}]}
    desc0 = describe(model)
    sets = reporting_sets(fam, case["tier"], zone="-06:00" if name.endswith("_fixed_offset") else None, supp=name == "hourly_supp")
    ref = {}
    for sn, d in sets:
        try:
            ref[sn] = F.fp(c02.predict(fam, model, d))
        except Exception as exc:
            ref[sn] = "raise:" + type(exc).__name__
    alphabet = [("rt_json", "rt_json"), ("rt_dict", "rt_dict"), ("rt_json_keys_sorted", "rt_json_keys_sorted")] + [(f"predict:{sn}", sn) for sn, _ in sets[:: (1 if case["tier"] == "thorough" else 2)]]
    dsets = dict(sets)

    def canon(m):
        try:
            js = m.to_json()
        except Exception as exc:
            js = "raise:" + type(exc).__name__
        return F.fp(m) + "|" + F.fp(js)

    def step(m, op):
        if op == "rt_json":
            try:
                return ("__replace__", (cls.from_json(m.to_json()), "loaded"))
            except Exception as exc:
                return "raise:" + type(exc).__name__ + ":" + str(exc)[:160]
        if op == "rt_json_keys_sorted":
            # the same document with its object keys in another order (as a jsonb column or sort_keys=True returns them)
            try:
                return ("__replace__", (cls.from_json(json.dumps(json.loads(m.to_json()), sort_keys=True)), "loaded"))
            except Exception as exc:
                return "raise:" + type(exc).__name__ + ":" + str(exc)[:160]
        if op == "rt_dict":
            try:
                d = m.to_dict()
                before = F.fp(d)
                cls.from_dict(d)            # a stored dictionary can be read more than once ...
                loaded = cls.from_dict(d)
                if F.fp(d) != before:       # ... and reading it does not alter it
                    return "raise:DocumentModifiedByLoad:from_dict changed the dictionary it was given"
                return ("__replace__", (loaded, "loaded"))
            except Exception as exc:
                return "raise:" + type(exc).__name__ + ":" + str(exc)[:160]
        try:
            return F.fp(c02.predict(fam, m, dsets[op]))
        except Exception as exc:
            return "raise:" + type(exc).__name__

    def check_state(m, hist):
        v = []
        after = "fit" if not hist else ("roundtrip" if any(h.startswith("rt") for h in hist) else "predict")
        k = dict(key0, after=after)
        try:
            js = m.to_json()
            if not same_doc(js, doc0):
                a, b = json.loads(doc0), json.loads(js)
                diff = sorted(x for x in set(a) | set(b) if a.get(x) != b.get(x))
                v.append({"clause": "document_not_reproduced", "key": k, "detail": f"after {hist}: top-level keys differing {diff}"})
        except Exception as exc:
            v.append({"clause": "loaded_model_cannot_be_serialised", "key": dict(k, exc=type(exc).__name__),
                      "detail": f"after {hist}: to_json() raises {type(exc).__name__}: {str(exc)[:200]}"})
        d = describe(m)
        for fld in ("tz", "warnings", "disqualification"):
            if d[fld] != desc0[fld]:
                v.append({"clause": f"{fld}_not_preserved", "key": k, "detail": f"after {hist}: {d[fld]!r} vs {desc0[fld]!r}"})
        # every reporting set predicts bit-identically in this state
        for sn, dobj in sets:
            try:
                got = F.fp(c02.predict(fam, m, dobj))
            except Exception as exc:
                got = "raise:" + type(exc).__name__
            if got != ref[sn]:
                v.append({"clause": "prediction_differs_after_roundtrip" if after == "roundtrip" else "prediction_differs",
                          "key": k, "detail": f"after {hist}: predict({sn}) = {got}, freshly fitted model gives {ref[sn]}"})
        return v

    def check_transition(src, opn, op, outcome, m_after):
        if isinstance(outcome, str) and outcome.startswith("raise") and opn.startswith("rt"):
            return [{"clause": "roundtrip_raises", "key": dict(key0, after="roundtrip" if any(h.startswith("rt") for h in src) else "fit"),
                     "detail": f"{opn} after {src}: {outcome}"}]
        return []

    g = stategraph.bfs(model, alphabet, step, canon, check_state, check_transition, max_depth=case["depth"])
    viol += g.violations
    summ = g.summary()
    summ.update(fit=name, alphabet=len(alphabet), reporting_sets=len(sets), raising_sets=sorted(k for k, v in ref.items() if str(v).startswith("raise")))
    return {"behaviour": [name, summ["states"], summ["fixpoint"], len(viol)], "violations": viol,
            "stats": {"states": summ["states"], "transitions": summ["transitions"], "fixpoint": int(summ["fixpoint"]), "fits": 1},
            "extra": summ}


def run_R(case):
    """a model object that is fitted AGAIN (after having been fitted and used on another meter) is, for storage purposes, the
    model of its last fit: its live predictions equal those of its own document and those of a fresh object fitted on the same data"""
    fam = case["fit"]
    key0 = {"part": "refit", "family": fam}
    viol = []
    mixed = None
    if fam in ("hourly_ghi_then_plain", "hourly_plain_then_ghi"):
        # one default-featured object: first a baseline with an irradiance column, then one without (and the other way round)
        mixed, fam = fam, "hourly"
    fa = c02.baseline_frame(fam, 365, seed=0)
    fb = c02.baseline_frame(fam, 365, seed=5)
    if mixed == "hourly_ghi_then_plain":
        fa = c02.baseline_frame("hourly_solar", 365, seed=0)
    if mixed == "hourly_plain_then_ghi":
        fb = c02.baseline_frame("hourly_solar", 365, seed=5)
    if fam in ("daily", "billing"):
        fb = ds.daily_frame(start="2021-01-01", days=365, tz=ZONE, wseed=5, seed=5, noise=0.05, weekend_factor=0.7, hs=2.5, cs=0.4, base=60.0)
    sets = reporting_sets("hourly_solar" if mixed == "hourly_plain_then_ghi" else fam, case["tier"])[:4]
    m = c02.new_model(fam)
    try:
        c02.fit(fam, m, c02.make_baseline(fam, fa))
        if mixed:
            c02.fit(fam, copy.deepcopy(m), c02.make_baseline(fam, fb))
    except Exception as exc:
        return {"behaviour": [mixed or fam, "refit_raises"],
                "violations": [{"clause": "refit_of_fitted_object_raises", "key": dict(key0, history=mixed or "same_columns", exc=type(exc).__name__),
                                "detail": f"{type(exc).__name__}: {str(exc)[:200]}"}]}
    for _, d in sets:
        try:
            c02.predict(fam, m, d)
        except Exception:
            pass
    m.to_json()
    # a document obtained with to_dict() BEFORE the object is fitted again belongs to the caller: it must not follow the object
    kept = m.to_dict()
    kept_fp = F.fp(kept)
    c02.fit(fam, m, c02.make_baseline(fam, fb))
    for _, d in sets[:2]:
        try:
            c02.predict(fam, m, d)
        except Exception:
            pass
    m.to_dict()
    if F.fp(kept) != kept_fp:
        viol.append({"clause": "kept_document_changed_by_later_use_of_the_object", "key": key0,
                     "detail": "a dict returned by to_dict() after the first fit changed when the same object was fitted on another meter"})
    fresh = c02.fit(fam, c02.new_model(fam), c02.make_baseline(fam, fb))
    doc, doc_fresh = m.to_json(), fresh.to_json()
    if not same_doc(doc, doc_fresh):
        a, b = json.loads(doc), json.loads(doc_fresh)
        viol.append({"clause": "refitted_object_document_differs_from_fresh_fit", "key": key0,
                     "detail": f"top-level keys differing: {sorted(k for k in a if a.get(k) != b.get(k))}"})
    loaded = type(m).from_json(doc)
    # ... and a model that came back from STORAGE (fitted on the first meter) and is then fitted on the second one
    stored_then_refitted = None
    # (not for the mixed-column histories: a model that comes back from storage carries the feature list in its settings, which is
    # then the caller's explicit choice - it legitimately refuses a baseline without the column / ignores a new one)
    if fam != "caltrack" and not mixed:
        try:
            first = c02.fit(fam, c02.new_model(fam), c02.make_baseline(fam, fa))
            stored_then_refitted = c02.fit(fam, type(first).from_json(first.to_json()), c02.make_baseline(fam, fb))
            if not same_doc(stored_then_refitted.to_json(), doc_fresh):
                a, b = json.loads(stored_then_refitted.to_json()), json.loads(doc_fresh)
                viol.append({"clause": "refitted_object_document_differs_from_fresh_fit", "key": dict(key0, object="loaded_from_storage"),
                             "detail": f"top-level keys differing: {sorted(k for k in a if a.get(k) != b.get(k))}"})
        except Exception as exc:
            viol.append({"clause": "refit_of_loaded_model_raises", "key": dict(key0, exc=type(exc).__name__), "detail": f"{type(exc).__name__}: {str(exc)[:200]}"})
    for sn, d in sets:
        outs = {}
        for who, obj in (("refitted", m), ("loaded", loaded), ("fresh", fresh)) + ((("stored_then_refitted", stored_then_refitted),) if stored_then_refitted is not None else ()):
            try:
                outs[who] = F.fp(c02.predict(fam, obj, d)["predicted"].to_numpy(float))
            except Exception as exc:
                outs[who] = "raise:" + type(exc).__name__
        if outs["refitted"] != outs["loaded"]:
            viol.append({"clause": "prediction_differs_after_roundtrip", "key": dict(key0, after="refit"),
                         "detail": f"object fitted twice: predict({sn}) live {outs['refitted']} vs loaded from its own document {outs['loaded']}"})
        if outs["refitted"] != outs["fresh"]:
            viol.append({"clause": "refitted_object_predicts_unlike_fresh_fit", "key": key0,
                         "detail": f"predict({sn}) {outs['refitted']} vs fresh object fitted on the same data {outs['fresh']}"})
        if "stored_then_refitted" in outs and outs["stored_then_refitted"] != outs["fresh"]:
            viol.append({"clause": "refitted_object_predicts_unlike_fresh_fit", "key": dict(key0, object="loaded_from_storage"),
                         "detail": f"predict({sn}) {outs['stored_then_refitted']} vs fresh object fitted on the same data {outs['fresh']}"})
    return {"behaviour": [fam, "refit", len(viol)], "violations": viol, "stats": {"fits": 5}}



# ------------------------------------------------------------------ P: one-field settings profiles, fitted and stored
DEV = {"developer_mode": True, "silent_developer_mode": True}
HOURLY_PROFILES = [  # every field of the hourly settings tree moved to another accepted value, one at a time (seed fixed)
    ("seed=2**32-1", {"seed": 2**32 - 1}),   # the largest seed the settings accept (the clustering uses seed + i)
    ("seed=0", {"seed": 0}),
    ("en.fit_intercept=False", {"elasticnet": {"fit_intercept": False}}),
    ("en.precompute=True", {"elasticnet": {"precompute": True}}),
    ("en.copy_x=False", {"elasticnet": {"copy_x": False}}),
    ("en.selection=random", {"elasticnet": {"selection": "random"}}),
    ("en.alpha=0.1", {"elasticnet": {"alpha": 0.1}}),
    ("en.l1_ratio=0.9", {"elasticnet": {"l1_ratio": 0.9}}),
    ("en.max_iter=500", {"elasticnet": {"max_iter": 500}}),
    ("en.tol=1e-3", {"elasticnet": {"tol": 1e-3}}),
    ("en.adaptive_weights", {"elasticnet": {"adaptive_weights": True, "adaptive_weight_max_iter": 3, "adaptive_weight_tol": 1e-4}}),
    ("scaling=standardscaler", {"scaling_method": "standardscaler"}),
    ("scaling=robustscaler", {"scaling_method": "robustscaler"}),
    ("bins.equal_sample_count", {"temperature_bin": {"method": "equal_sample_count", "n_bins": 6, "bin_width": None, "include_edge_bins": False,
                                                      "edge_bin_rate": None, "edge_bin_percent": None}}),
    ("bins.equal_bin_width", {"temperature_bin": {"method": "equal_bin_width", "n_bins": 5, "bin_width": None, "include_edge_bins": False,
                                                   "edge_bin_rate": None, "edge_bin_percent": None}}),
    ("bins.width=8", {"temperature_bin": {"bin_width": 8.0}}),
    ("bins.no_edge_bins", {"temperature_bin": {"include_edge_bins": False, "edge_bin_rate": None, "edge_bin_percent": None}}),
    ("bins.edge_rate=0.5", {"temperature_bin": {"edge_bin_rate": 0.5}}),
    ("bins.edge_percent=0.1", {"temperature_bin": {"edge_bin_percent": 0.1}}),
    ("bins=None", {"temperature_bin": None}),
    ("tc.wavelet_n_levels=3", {"temporal_cluster": {"wavelet_n_levels": 3}}),
    ("tc.wavelet_name=db2", {"temporal_cluster": {"wavelet_name": "db2"}}),
    ("tc.wavelet_mode=symmetric", {"temporal_cluster": {"wavelet_mode": "symmetric"}}),
    ("tc.pca=0.8", {"temporal_cluster": {"pca_min_variance_ratio_explained": 0.8}}),
    ("tc.recluster_count=1", {"temporal_cluster": {"recluster_count": 1}}),
    ("tc.n_cluster=3..8", {"temporal_cluster": {"n_cluster_lower": 3, "n_cluster_upper": 8}}),
    ("tc.min_cluster_size=2", {"temporal_cluster": {"min_cluster_size": 2}}),
    ("tc.score=silhouette_median", {"temporal_cluster": {"score_metric": "silhouette_median"}}),
    ("tc.score=variance_ratio", {"temporal_cluster": {"score_metric": "variance_ratio"}}),
    ("tc.score=davies-bouldin", {"temporal_cluster": {"score_metric": "davies-bouldin"}}),
    ("tc.distance=manhattan", {"temporal_cluster": {"distance_metric": "manhattan"}}),
    ("tc.distance=cosine", {"temporal_cluster": {"distance_metric": "cosine"}}),
    ("min_daily_training_hours=20", {"min_daily_training_hours": 20}),
    ("thresholds", {"cvrmse_threshold": 0.3, "pnrmse_threshold": 0.9}),
    ("train_features=temperature", {"train_features": ["temperature"]}),
]
DAILY_PROFILES = [  # accepted non-default profiles of the daily family (developer-only fields with developer mode on)
    ("season_map", {"season": {"march": "winter", "october": "summer"}}),
    ("weekday_map", {"weekday_weekend": {"friday": "weekend", "sunday": "weekday"}}),
    ("uncertainty_alpha=0.05", {"uncertainty_alpha": 0.05}),
    ("dev.no_smoothing", dict(DEV, allow_smooth_model=False)),
    ("dev.alpha_final=2", dict(DEV, alpha_final=2.0, alpha_final_type="all")),
    ("dev.regularization", dict(DEV, regularization_alpha=0.01, regularization_percent_lasso=0.5)),
    ("dev.segment_minimum_count=10", dict(DEV, segment_minimum_count=10)),
    ("dev.maximum_slope_OoM_scaler=1", dict(DEV, maximum_slope_OoM_scaler=1.0)),
    ("dev.initial_smoothing_parameter", dict(DEV, initial_smoothing_parameter=[1.0, 1.0])),
    ("dev.split.criteria=aic", dict(DEV, split_selection={"criteria": "aic"})),
    ("dev.split.no_weekend", dict(DEV, split_selection={"allow_separate_weekday_weekend": False})),
    ("dev.split.no_gaussian", dict(DEV, split_selection={"reduce_splits_by_gaussian": False})),
    ("dev.cvrmse_threshold=0.05", dict(DEV, cvrmse_threshold=0.05)),
    ("dev.algorithm=scipy_slsqp", dict(DEV, algorithm_choice="scipy_slsqp")),
    ("dev.initial_guess=nlopt_direct", dict(DEV, initial_guess_algorithm_choice="nlopt_direct")),
]


def cases_P(tier):
    hp = HOURLY_PROFILES
    out = [{"part": "P", "family": "hourly", "profile": n, "tier": tier} for n, _ in hp]
    dp = DAILY_PROFILES if tier == "thorough" else DAILY_PROFILES[:2] + DAILY_PROFILES[2::2]
    out += [{"part": "P", "family": "daily", "profile": n, "tier": tier} for n, _ in dp]
    if tier == "thorough":
        out += [{"part": "P", "family": "billing", "profile": n, "tier": tier} for n, _ in DAILY_PROFILES[:3]]
        out += [{"part": "P", "family": "hourly_solar", "profile": n, "tier": tier} for n, _ in HOURLY_PROFILES[:12]]
    return out


def run_P(case):
    import opendsm.eemeter as em

    fam, name = case["family"], case["profile"]
    key0 = {"part": "profiles", "family": fam, "profile": name}
    if fam.startswith("hourly"):
        over = dict(next(o for n, o in HOURLY_PROFILES if n == name))
        settings = dict({"seed": 7}, **over)
        if fam == "hourly_solar" and "train_features" in settings:
            settings["train_features"] = ["temperature", "ghi"]
        cls = em.HourlyModel
    else:
        settings = dict(next(o for n, o in DAILY_PROFILES if n == name))
        cls = em.DailyModel if fam == "daily" else em.BillingModel
    try:
        model = cls(settings=settings)
    except Exception as exc:
        return {"rejected": f"profile not accepted by the constructor: {type(exc).__name__}"}
    frame = c02.baseline_frame(fam, 365, seed=0)
    if name == "weekday_map":
        # the building really follows the custom week (Friday + Saturday off): the weekday/weekend split of the custom map gets selected
        dow = frame.index.dayofweek
        frame["observed"] = frame["observed"] / np.where(dow >= 5, 1.2, 1.0) * np.where((dow == 4) | (dow == 5), 0.6, 1.0)
    try:
        c02.fit(fam, model, c02.make_baseline(fam, frame))
        if name == "weekday_map" and fam == "daily" and "wd" not in model.best_combination:
            return {"rejected": f"driver: the custom-week building did not lead to a weekday/weekend split ({model.best_combination})"}
    except Exception as exc:
        # no model, nothing stored: outside this property (whether an accepted profile can be fitted is C04's "fit returns a model or
        # raises DataSufficiencyError"); counted and listed
        return {"rejected": f"accepted profile cannot be fitted: {type(exc).__name__}: {str(exc)[:80]}"}
    viol = []
    try:
        js1 = model.to_json()
        m2 = cls.from_json(js1)
        js2 = m2.to_json()
        m3 = cls.from_dict(model.to_dict())
    except Exception as exc:
        return {"behaviour": [fam, name, "roundtrip_raises"],
                "violations": [{"clause": "roundtrip_raises", "key": dict(key0, exc=type(exc).__name__), "detail": f"{type(exc).__name__}: {str(exc)[:300]}"}]}
    if not same_doc(js1, js2) or not same_doc(m3.to_json(), js1):
        a, b = json.loads(js1), json.loads(js2)
        viol.append({"clause": "document_not_reproduced", "key": key0, "detail": f"top-level keys differing {sorted(k for k in a if a.get(k) != b.get(k))}"})
    if describe(m2) != describe(model):
        viol.append({"clause": "metadata_lost", "key": key0, "detail": f"{describe(model)} vs {describe(m2)}"})
    sets = reporting_sets(fam, "quick")
    n = 0
    for sn, d in sets[::2]:
        outs = []
        for m in (model, m2, m3):
            try:
                outs.append(F.fp(c02.predict(fam, m, d)))
            except Exception as exc:
                outs.append("raise:" + type(exc).__name__)
        n += 1
        if len(set(outs)) != 1:
            viol.append({"clause": "prediction_differs_after_roundtrip", "key": key0, "detail": f"predict({sn}): live / from_json / from_dict give {outs}"})
    return {"behaviour": [fam, name, len(viol)], "violations": viol, "stats": {"fits": 1, "sets": n}}


def run_case(case):
    return {"A": run_A, "B": run_B, "R": run_R, "P": run_P}[case["part"]](case)


def cases_B(tier):
    names = [f[0] for f in FITTED]
    if tier == "quick":
        names = ["daily_current", "daily_f32_spike", "daily_legacy", "daily_poorfit", "daily_unc_alpha0", "billing", "daily_fixed_offset", "billing_fixed_offset", "hourly", "hourly_solar", "hourly_f32", "hourly_robust", "hourly_bins", "hourly_supp", "caltrack", "caltrack_gappy"]
    out = [{"part": "B", "fit": n, "tier": tier, "depth": 3 if tier == "thorough" else 2} for n in names]
    out += [{"part": "R", "fit": f, "tier": tier} for f in (("daily", "billing", "hourly", "caltrack", "hourly_ghi_then_plain", "hourly_plain_then_ghi") if tier == "quick" else
                                                               ("daily", "billing", "hourly", "hourly_solar", "caltrack", "hourly_ghi_then_plain", "hourly_plain_then_ghi"))]
    return out


def run(tier, seed):
    with poolmod.Pool() as pool:
        exB = explore.explore(pool, "B fitted models: history graphs", MOD, "run_case", cases_B(tier), seed=seed, chunk=1)
        exP = explore.explore(pool, "P one-field settings profiles: fit, store, load", MOD, "run_case", cases_P(tier), seed=seed, chunk=1)
        exA = explore.explore(pool, "A document-built models", MOD, "run_case", cases_A(tier), seed=seed)
    states = exB.stats.get("states", 0)
    trans = exB.stats.get("transitions", 0)
    cov = explore.merge_coverage(
        [exA, exB, exP],
        rule="P: one case = one settings profile that differs from the approved one in a single field (33 hourly, 15 daily; fitted, "
        "stored through to_json and to_dict, loaded, predicted on four reporting sets); A: one case = one daily/billing model document (shape, lattice point | split layout with mixed shapes, settings profile) "
        "loaded, round-tripped twice and predicted on ~100 temperatures reaching 70F beyond the fitted range incl. NaN, with/without "
        "usage; B: one case = one fitted model (family x profile): BFS over {to_json->from_json, to_dict->from_dict, predict(R_i)} "
        "with all 8 reporting sets re-predicted in every state",
        level_extra={"states": max(states, 1), "transitions": max(trans, 1), "traces_validated_against_impl": trans,
                     "graphs": len(cases_B(tier)), "graphs_at_fixpoint": exB.stats.get("fixpoint", 0),
                     "documents": exA.stats.get("documents", 0), "rows_compared_with_closed_form": exA.stats.get("rows_compared", 0),
                     "explanation": "state graphs are explored on the implementation itself; a round-trip operation replaces the state's "
                                    "object by the loaded one, so {fitted, loaded} objects are distinct states and closure means a loaded "
                                    "model round-trips onto an identical object"},
    )
    cov["graph_summaries"] = exB.extras
    return {"level": LEVEL, "coverage": cov, "violations": exA.violations + exB.violations + exP.violations, "assumptions": ASSUMPTIONS}


def replay(rep):
    vs = []
    for k in range(2):
        r = run_case(rep["case"])
        vs = [v for v in r.get("violations", []) if v["clause"] == rep["clause"]]
        print(f"run {k}: behaviour={r.get('behaviour')} violations={sorted(set(v['clause'] for v in r.get('violations', [])))}")
        for v in vs[:3]:
            print("  ", v["detail"][:600])
    return 1 if vs else 0
