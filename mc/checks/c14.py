"""C14 — approved-method settings are locked unless developer mode is explicit.

Exhaustive product over the settings trees (daily, legacy, billing, hourly):
every field (found by introspection of pydantic `model_fields`, recursively, and
united with the fields of the frozen table) x alternative values x key spelling
x input form x developer_mode {absent, False, True}.  The oracle is the frozen
table /verif/spec/approved_constants.json plus the documented validity rules in
mc/refmodels/settings_rules.py, both evaluated on the input alone.

Spaces
  defaults  no-argument constructions of every family / model constructor; declarations vs table
  single    one overridden field (all alternatives, spellings, forms)
  cluster   full products over the fields tied together by a cross-field rule
  pairs     (thorough) every pair of fields, one valid non-default and one invalid value each
  assign    attribute assignment on a constructed (developer mode off) settings object
  stored    hand-written model documents -> from_dict -> to_dict / to_json
"""
import contextlib
import copy
import io
import itertools
import json

from .. import explore, pool as poolmod
from ..refmodels import settings_rules as sr
from ..refmodels.settings_rules import INVALID, UNSPEC, VALID

PROP = "C14"
LEVEL = "exploration"
MOD = "mc.checks.c14"

ASSUMPTIONS = [
    "approved constants = /verif/spec/approved_constants.json, transcribed from the declared defaults (and checked against the "
    "documented ones); BillingModel() is pinned to what it uses today, DailyLegacySettings (segment_minimum_count=10); "
    "BillingSettings (segment_minimum_count=3) is only used by the unreleased BillingWeightedModel and is checked as a class",
    "the developer-only flag of each field, its bounds and its type come from the frozen table, not from the code; a "
    "declaration in the code that differs from the table is itself reported (declaration_drift)",
    "lock clause is evaluated on the result: a construction that succeeds and does not report developer_mode=True must carry "
    "the approved constant in every developer-only leaf; in addition, for the declared key spelling (and for other spellings "
    "that a probe construction shows the library treats as that field) a materially different developer-only value must raise",
    "passing a developer-only field at its approved default without developer mode may be accepted or rejected",
    "UPPER-case / space-padded keys: only the lock, and - when a probe shows the library resolves the spelling to the field - "
    "the accept/reject clauses are applied; a spelling the library ignores or rejects is fine",
    "validity is only asserted for unambiguous values: numbers inside / outside the declared bounds (next float outside), enum "
    "members and their case/space variants (normalisation of string values is documented and pinned by the test-suite), None "
    "for Optional / non-Optional fields, clearly mistyped values; NaN, inf, numeric strings, integral floats for ints, the "
    "exact docstring-vs-bound disagreement (uncertainty_alpha 0 and 1), reordered or shortened `options` lists (a list that names "
    "a season / day type the models do not know is INVALID: its months or days would belong to no sub-model), alpha_final set with "
    "alpha_final_type=None, initial_step_percentage=None with algorithm_choice=None are 'unspecified': only the lock applies",
    "any exception counts as a rejection (its type is recorded in the behaviour)",
    "nested settings objects of a related class (subclass / superclass of the declared nested class) are an input form for "
    "which only the lock and the invalid-rejected clauses apply",
    "stored-model clause: documents are hand-written (one submodel) with the full settings block the reference expects for "
    "the variant; daily documents are loaded with DailyModel.from_dict, billing ones with BillingModel.from_dict (both with "
    "the flag as built and with developer_mode forced to True as BillingModel.to_dict documents), hourly ones with "
    "HourlyModel.from_dict; legacy daily models are excluded (from_dict always builds current settings: finding D5 of C01); "
    "for hourly models baseline_metrics is set to None before to_dict (re-serialising loaded metrics is C01's business)",
    "the hourly settings trees declare no developer-only field: the lock clause is vacuous there (reported in coverage)",
    "update_daily_settings(obj, dict) is an input form for DailySettings / DailyLegacySettings (the library itself relies on it, "
    "with UPPER-case keys); for BillingSettings only the lock is checked through it (the helper rebuilds the object as "
    "DailyLegacySettings, which is outside the statement: the billing model family does not use BillingSettings)",
    "attribute assignment after construction is treated as an attempt to change a setting: it must raise or leave the value unchanged "
    "for developer-only leaves of an object built without developer mode (in-place mutation of list values is not covered)",
]

SPELLINGS = ["declared", "upper", "padded"]
SPELLINGS_THOROUGH = SPELLINGS + ["title", "tab_newline"]
DEVMODES = ["absent", "off", "on"]

TARGETS = {
    # name: (settings class built, table family, forms)
    "DailySettings": ("DailySettings", "DailySettings", ["kwargs", "validate", "nested_object", "update", "model"]),
    "DailyLegacySettings": ("DailyLegacySettings", "DailyLegacySettings", ["kwargs", "validate", "nested_object", "update", "model"]),
    "BillingSettings": ("BillingSettings", "BillingSettings", ["kwargs", "validate", "nested_object", "update"]),
    "BillingModel": ("DailyLegacySettings", "DailyLegacySettings", ["model"]),
    "BaseHourlySettings": ("BaseHourlySettings", "BaseHourlySettings", ["kwargs", "validate", "nested_object", "model_object"]),
    "HourlySolarSettings": ("HourlySolarSettings", "HourlySolarSettings", ["kwargs", "validate", "nested_object", "model_object"]),
    "HourlyNonSolarSettings": ("HourlyNonSolarSettings", "HourlyNonSolarSettings", ["kwargs", "validate", "nested_object", "model_object"]),
    "HourlyModel": ("BaseHourlySettings", "BaseHourlySettings", ["model"]),
}

# forms for which only the lock / invalid-rejected clauses apply (acceptance of valid input is not demanded)
LOCK_ONLY_FORMS = {
    # update_daily_settings() rebuilds a BillingSettings object as DailyLegacySettings (isinstance dispatch), so the billing
    # segment_minimum_count=3 then trips the lock; BillingSettings is only used by the unreleased BillingWeightedModel
    ("BillingSettings", "update"),
}

_TABLE = None


def table():
    global _TABLE
    if _TABLE is None:
        _TABLE = sr.load_table()
    return _TABLE


def spell(k, how):
    return {"declared": k, "upper": k.upper(), "padded": f"  {k} ", "title": k.title(), "tab_newline": f"\t{k.upper()}\n"}[how]


# =============================================================================== enumeration
_CACHE = {}


def _cached(fn):
    def wrapper(*a):
        k = (fn.__name__,) + a
        if k not in _CACHE:
            _CACHE[k] = fn(*a)
        return _CACHE[k]

    wrapper.__name__ = fn.__name__
    return wrapper


@_cached
def field_specs(target):
    """{dotted: spec} = union of the table's fields and the fields declared in the code (table wins on conflicts)."""
    cls_name, fam, _ = TARGETS[target]
    specs = dict(sr.introspect(sr._classes()[cls_name]))
    specs.update(table()["families"][fam]["fields"])
    return specs


@_cached
def related_nested_classes(target):
    """{top-level field: [class names]} — subclasses / settings superclasses of the declared nested class."""
    import pydantic

    from opendsm.common.base_settings import BaseSettings

    cls = sr._classes()[TARGETS[target][0]]
    out = {}
    for name, f in cls.model_fields.items():
        _, nested = sr._field_spec(f)
        if nested is None:
            continue
        rel = []

        def subs(c):
            for s in c.__subclasses__():
                rel.append(s)
                subs(s)

        subs(nested)
        for b in nested.__mro__[1:]:
            if b not in (BaseSettings, pydantic.BaseModel, object) and isinstance(b, type) and issubclass(b, pydantic.BaseModel):
                rel.append(b)
        out[name] = [c.__name__ for c in rel]
    return out


def forms_for(target, path, value):
    _, _, forms = TARGETS[target]
    out = []
    for f in forms:
        if f == "nested_object":
            spec = field_specs(target).get(path[0], {})
            if spec.get("kind") != "settings":
                continue
            if len(path) == 1 and not isinstance(value, dict):
                continue
            out.append("nested_object")
            for c in related_nested_classes(target).get(path[0], []):
                out.append("nested_object:" + c)
        else:
            out.append(f)
    return out


def default_of(target, dotted):
    fam = table()["families"][TARGETS[target][1]]
    if dotted in fam.get("excluded_defaults", {}):
        return fam["excluded_defaults"][dotted]
    return sr.get_path(fam["defaults"], dotted.split("."))


def cases_single(tier):
    out = []
    for target in TARGETS:
        specs = field_specs(target)
        for dotted, spec in specs.items():
            path = dotted.split(".")
            for label, value in sr.alternatives(spec, default_of(target, dotted)):
                for form in forms_for(target, path, value):
                    for sp in (SPELLINGS_THOROUGH if tier == "thorough" else SPELLINGS):
                        out.append({"space": "single", "target": target, "form": form, "spelling": sp,
                                    "overrides": [{"path": path, "label": label, "value": sr.enc(value)}]})
    return out


CLUSTERS = {
    "daily": {
        "alpha_final": {
            "alpha_final": ["adaptive", None, 2.0, 1.5, -100.0, -100.5, 2.5, "bogus"],
            "alpha_final_type": ["last", "all", None],
            "final_bounds_scalar": [1.0, None, 0.0, -1.0, 2.0],
            "alpha_minimum": [-100.0, -10.0, -50.0],
        },
        "initial_step": {
            "initial_step_percentage": [0.1, None, 0.0, 0.5, 0.51, -0.1],
            "algorithm_choice": ["nlopt_sbplx", "scipy_slsqp", "scipy_direct", None],
        },
        "season_options": {
            "season.options": [["summer", "shoulder", "winter"], ["summer", "winter"], ["summer", "shoulder", "winter", "monsoon"]],
            "season.january": ["winter", "shoulder", "monsoon"],
            "season.july": ["summer", "shoulder", "monsoon"],
        },
        "daytype_options": {
            "weekday_weekend.options": [["weekday", "weekend"], ["weekday", "weekend", "holiday"]],
            "weekday_weekend.friday": ["weekday", "weekend", "holiday"],
            "weekday_weekend.sunday": ["weekend", "weekday"],
        },
    },
    "hourly": {
        "temperature_bin": {
            "temperature_bin.method": ["set_bin_width", "equal_sample_count", "equal_bin_width"],
            "temperature_bin.n_bins": [None, 1, 5, 0],
            "temperature_bin.bin_width": [12.0, None, 1.0, 0.5],
            "temperature_bin.include_edge_bins": [True, False],
            "temperature_bin.edge_bin_rate": ["heuristic", None, 0.5],
            "temperature_bin.edge_bin_percent": [0.0425, None],
        },
        "wavelet": {
            # discrete wavelets are valid, the continuous-only families of PyWavelets (morl, mexh, cmor ...) and made-up names are not
            "temporal_cluster.wavelet_name": ["haar", "db2", "morl", "mexh", "cmor", "gaus3", "bogus"],
            "temporal_cluster.wavelet_mode": ["periodization", "symmetric", "bogus"],
        },
        "adaptive_weights": {
            "elasticnet.adaptive_weights": [False, True],
            "elasticnet.adaptive_weight_max_iter": [None, 1, 100, 0],
            "elasticnet.adaptive_weight_tol": [None, 0.0, 1e-4, -1.0],
        },
    },
}


def cases_cluster(tier):
    out = []
    for target in ("DailySettings", "DailyLegacySettings", "BillingSettings", "BillingModel",
                   "BaseHourlySettings", "HourlySolarSettings", "HourlyNonSolarSettings", "HourlyModel"):
        kind = "daily" if TARGETS[target][1] in sr.DAILY_FAMILIES else "hourly"
        form = "model" if target.endswith("Model") else "kwargs"
        for cname, fields in CLUSTERS[kind].items():
            names = list(fields)
            for combo in itertools.product(*[fields[n] for n in names]):
                out.append({"space": "cluster", "target": target, "form": form, "spelling": "declared", "cluster": cname,
                            "overrides": [{"path": n.split("."), "label": "cluster", "value": v} for n, v in zip(names, combo)]})
    return out


@_cached
def _pair_values(target, dotted):
    """first valid non-default and first invalid alternative of a leaf (by the reference, in isolation)."""
    fam = TARGETS[target][1]
    spec = field_specs(target)[dotted]
    got = {}
    for label, value in sr.alternatives(spec, default_of(target, dotted)):
        if label == "default":
            continue
        st, _, _ = sr.evaluate(table(), fam, [(dotted.split("."), value)])
        if st in (VALID, INVALID) and st not in got:
            got[st] = (label, value)
    return [got[k] for k in (VALID, INVALID) if k in got]


PAIR_FORMS = {
    "DailySettings": [("kwargs", "declared"), ("model", "upper"), ("update", "padded")],
    "DailyLegacySettings": [("kwargs", "declared"), ("model", "upper"), ("update", "padded")],
    "BillingSettings": [("kwargs", "declared"), ("validate", "upper")],
    "BaseHourlySettings": [("kwargs", "declared"), ("model_object", "upper")],
    "HourlySolarSettings": [("kwargs", "declared"), ("model_object", "upper")],
    "HourlyNonSolarSettings": [("kwargs", "declared"), ("model_object", "upper")],
}


def cases_pairs(tier):
    out = []
    for target in ("DailySettings", "DailyLegacySettings", "BillingSettings", "BaseHourlySettings",
                   "HourlySolarSettings", "HourlyNonSolarSettings"):
        specs = {d: s for d, s in field_specs(target).items() if s["kind"] != "settings"
                 and d in table()["families"][TARGETS[target][1]]["fields"]}
        vals = {d: _pair_values(target, d) for d in specs}
        for a, b in itertools.combinations(list(specs), 2):
            for (la, va), (lb, vb) in itertools.product(vals[a], vals[b]):
                for form, sp in PAIR_FORMS[target]:
                    out.append({"space": "pairs", "target": target, "form": form, "spelling": sp,
                                "overrides": [{"path": a.split("."), "label": la, "value": sr.enc(va)},
                                              {"path": b.split("."), "label": lb, "value": sr.enc(vb)}]})
    return out


def cases_flagpairs(tier):
    """every leaf paired with each of the two mode flags set to its NON-default value (developer_mode / silent_developer_mode):
    the flags are ordinary public fields, so `silent_developer_mode=True` alone - or any flag value other than an explicit
    developer_mode=True - must not open the lock.  (A sub-space of `pairs`, cheap enough for the quick tier.)"""
    out = []
    for target in ("DailySettings", "DailyLegacySettings", "BillingSettings"):
        specs = {d: s for d, s in field_specs(target).items() if s["kind"] != "settings"
                 and d in table()["families"][TARGETS[target][1]]["fields"]}
        for flag in ("silent_developer_mode",):
            if flag not in specs:
                continue
            for b in specs:
                if b in ("developer_mode", "silent_developer_mode"):
                    continue
                for lb, vb in _pair_values(target, b):
                    for form, sp in PAIR_FORMS[target]:
                        out.append({"space": "flagpairs", "target": target, "form": form, "spelling": sp,
                                    "overrides": [{"path": [flag], "label": "true", "value": sr.enc(True)},
                                                  {"path": b.split("."), "label": lb, "value": sr.enc(vb)}]})
    return out


def cases_defaults(tier):
    out = [{"space": "defaults", "what": "declarations"}]
    for fam in table()["families"]:
        for how in ("call", "empty_kwargs", "validate_empty", "validate_json_empty", "twice"):
            out.append({"space": "defaults", "what": "class", "family": fam, "how": how})
    for expr in table()["models"]:
        out.append({"space": "defaults", "what": "model", "expr": expr})
    for fn, fam in (("default_settings", "DailySettings"), ("caltrack_legacy_settings", "DailyLegacySettings")):
        out.append({"space": "defaults", "what": "helper", "fn": fn, "family": fam})
    # a default-built settings OBJECT of every settings class handed to every model constructor (the classes subclass one another,
    # so an isinstance dispatch lets the constants of one family into the model of another)
    for expr in table()["models"]:
        for fam in table()["families"]:
            out.append({"space": "defaults", "what": "model_object", "expr": expr, "family": fam})
    return out


def cases_assign(tier):
    out = []
    for target in ("DailySettings", "DailyLegacySettings", "BillingSettings"):
        for dotted, spec in field_specs(target).items():
            if spec["kind"] == "settings" or dotted not in table()["families"][TARGETS[target][1]]["fields"]:
                continue
            for label, value in _pair_values(target, dotted)[:1]:
                out.append({"space": "assign", "target": target, "path": dotted.split("."), "label": label,
                            "value": sr.enc(value)})
    return out


STORED_TARGETS = {
    # loader: settings family of the stored document
    "DailyModel": "DailySettings",
    "BillingModel": "DailyLegacySettings",
    "HourlyModel/solar": "HourlySolarSettings",
    "HourlyModel/nonsolar": "HourlyNonSolarSettings",
}


def cases_stored(tier):
    out = []
    for st_target, fam in STORED_TARGETS.items():
        specs = table()["families"][fam]["fields"]
        flags = ["as_built", "forced_true"] if st_target == "BillingModel" else ["as_built"]
        for flag in flags:
            out.append({"space": "stored", "target": st_target, "flag": flag, "overrides": []})
        for dotted, spec in specs.items():
            if dotted in ("developer_mode", "silent_developer_mode"):
                continue
            dflt = sr.get_path(table()["families"][fam]["defaults"], dotted.split("."))
            for label, value in sr.alternatives(spec, dflt):
                if label == "default":
                    continue
                st, _, _ = sr.evaluate(table(), fam, [(dotted.split("."), value)])
                if st != VALID:
                    continue
                for flag in flags:
                    out.append({"space": "stored", "target": st_target, "flag": flag,
                                "overrides": [{"path": dotted.split("."), "label": label, "value": sr.enc(value)}]})
                # a document that SAYS developer_mode false next to a changed developer-only constant (edited by hand, or written
                # by another release): the lock holds on the loading side too
                if st_target == "DailyModel" and dotted in sr.developer_leaves(table(), fam):
                    out.append({"space": "stored", "target": st_target, "flag": "tampered",
                                "overrides": [{"path": dotted.split("."), "label": label, "value": sr.enc(value)}]})
    return out


# =============================================================================== execution helpers
def _construct(target, form, payload):
    """Run one construction through the public seam.  -> settings object (raises on rejection)."""
    from opendsm.eemeter import BillingModel, DailyModel, HourlyModel
    from opendsm.eemeter.models.daily.utilities import settings as ds

    cls = sr._classes()[TARGETS[target][0]]
    if form == "kwargs" or form.startswith("nested_object"):
        return cls(**payload)
    if form == "validate":
        return cls.model_validate(payload)
    if form == "update":
        return ds.update_daily_settings(cls(), payload)
    if form == "model_object":
        return HourlyModel(settings=cls(**payload)).settings
    if form == "model":
        if target == "DailySettings":
            return DailyModel(settings=payload).settings
        if target == "DailyLegacySettings":
            return DailyModel(model="legacy", settings=payload).settings
        if target == "BillingModel":
            return BillingModel(settings=payload).settings
        if target == "HourlyModel":
            return HourlyModel(settings=payload).settings
    raise ValueError(f"unknown form {form} for {target}")


def _nested_class(name):
    from opendsm.eemeter.models.daily.utilities import settings as ds
    from opendsm.eemeter.models.hourly import settings as hs

    return getattr(ds, name, None) or getattr(hs, name)


def _payload(target, overrides, spelling, devmode, form, dev_spelling=None):
    """Nested dict with spelled keys (+ nested objects for the object forms).  Building the nested object may raise."""
    dev_spelling = dev_spelling or spelling
    d = {}
    for path, value in overrides:
        cur = d
        for k in path[:-1]:
            nxt = cur.setdefault(spell(k, spelling), {})
            if not isinstance(nxt, dict):
                raise _Conflict()
            cur = nxt
        cur[spell(path[-1], spelling)] = copy.deepcopy(value)
    touched = {".".join(p) for p, _ in overrides}
    if devmode == "off":
        d[spell("developer_mode", dev_spelling)] = False
    elif devmode == "on":
        d[spell("developer_mode", dev_spelling)] = True
        if "silent_developer_mode" not in touched:
            d[spell("silent_developer_mode", dev_spelling)] = True
    if form.startswith("nested_object"):
        specs = field_specs(target)
        for path, _ in overrides:
            top = path[0]
            key = spell(top, spelling)
            if isinstance(d.get(key), dict):
                cname = form.split(":", 1)[1] if ":" in form else specs[top]["cls"]
                d[key] = _nested_class(cname)(**d[key])
    return d


class _Conflict(Exception):
    pass


def _snapshot(obj):
    dump = obj.model_dump(mode="json")
    if hasattr(obj, "silent_developer_mode"):
        dump["silent_developer_mode"] = obj.silent_developer_mode
    return dump


def _attempt(target, form, overrides, spelling, devmode, dev_spelling=None):
    """-> outcome dict {ok, cls, dump | exc, kind, msg, printed}"""
    buf = io.StringIO()
    try:
        with contextlib.redirect_stdout(buf):
            payload = _payload(target, overrides, spelling, devmode, form, dev_spelling)
            obj = _construct(target, form, payload)
        return {"ok": True, "cls": type(obj).__name__, "dump": _snapshot(obj), "printed": bool(buf.getvalue())}
    except _Conflict:
        raise
    except Exception as e:  # noqa: any exception is a rejection; the kind is recorded
        msg = str(e)
        if "Developer mode is not enabled" in msg:
            kind = "lock"
        elif type(e).__name__ == "ValidationError":
            try:
                kind = "val:" + e.errors()[0]["type"]
            except Exception:  # noqa
                kind = "val"
        else:
            kind = "exc:" + type(e).__name__
        return {"ok": False, "exc": type(e).__name__, "kind": kind, "msg": msg[:240].replace("\n", " | ")}


def _dev_leaf_diffs(fam, dump):
    """developer-only leaves of `dump` that differ from the approved constants of family `fam`."""
    d = table()["families"][fam]["defaults"]
    out = []
    for p in sr.developer_leaves(table(), fam):
        if not sr.json_equal(sr.get_path(dump, p.split(".")), sr.get_path(d, p.split("."))):
            out.append(p)
    return out


def _defaults_intact(fam):
    cls = sr._classes()[fam]
    return sr.diff_paths(cls().model_dump(mode="json"), table()["families"][fam]["defaults"])


def _effect_ok(spec, got, want):
    if got is KeyError:
        return False
    if spec["kind"] == "list_str" and isinstance(got, list) and isinstance(want, list):
        return set(want) <= set(got)  # documented completion of required training features
    if spec["kind"] == "settings":
        return True
    return sr.json_equal(got, want)


# =============================================================================== single / cluster / pairs
def run_overrides(case):
    t = table()
    target = case["target"]
    cls_name, fam, _ = TARGETS[target]
    form, spelling = case["form"], case["spelling"]
    overrides = [(o["path"], sr.dec(o["value"])) for o in case["overrides"]]
    labels = "+".join(o["label"] for o in case["overrides"])
    dotted = "+".join(".".join(p) for p, _ in overrides)
    specs = field_specs(target)
    fam_fields = t["families"][fam]["fields"]
    hourly = fam in sr.HOURLY_FAMILIES
    viol, beh, stats = [], [], {"constructions": 0}
    intact_before = not _defaults_intact(fam)

    status, exp_tree, norm = sr.evaluate(t, fam, overrides)
    if target == "HourlyModel" and any(p == ["train_features"] for p, _ in overrides):
        status = UNSPEC if status == VALID else status  # the constructor picks the solar / non-solar class from this value
    unknown_field = any(".".join(p) not in fam_fields for p, _ in overrides)
    # which developer-only leaves does the input try to move away from the approved constant (by the reference)
    touches_dev = bool(exp_tree is not None and _dev_leaf_diffs(fam, exp_tree))
    overrides_dev_field = any(fam_fields.get(".".join(p[:i + 1]), {}).get("developer") for p, _ in overrides for i in range(len(p)))
    sets_devmode = [v for p, v in overrides if p == ["developer_mode"]]
    related_form = ":" in form
    strict_accept = not related_form and (target, form) not in LOCK_ONLY_FORMS

    # ---- probe: does the library resolve this spelling to the field / to the developer_mode flag?
    eff_field, eff_dev = True, True
    if spelling != "declared":
        eff_field = None
        probe = None
        for p, _ in overrides[:1]:
            spec = specs.get(".".join(p))
            if spec and spec["kind"] != "settings":
                pv = _pair_values(target, ".".join(p)) if ".".join(p) in fam_fields else []
                pv = [x for x in pv if sr.evaluate(t, fam, [(p, x[1])])[0] == VALID]
                if pv:
                    probe = (p, pv[0][1])
        if probe is not None and probe[0] not in (["developer_mode"], ["silent_developer_mode"]):
            o = _attempt(target, form.split(":")[0] if related_form else form, [probe], spelling, "on", dev_spelling="declared")
            stats["constructions"] += 1
            if o["ok"]:
                _, _, pn = sr.evaluate(t, fam, [probe])
                eff_field = _effect_ok(specs[".".join(probe[0])], sr.get_path(o["dump"], probe[0]), pn[".".join(probe[0])])
        o = _attempt(target, "nested_object" if related_form else form, [], spelling, "on")
        stats["constructions"] += 1
        eff_dev = bool(o["ok"] and o["dump"].get("developer_mode") is True) if not hourly else True

    modes = ["absent"] if sets_devmode else DEVMODES
    for devmode in modes:
        try:
            o = _attempt(target, form, overrides, spelling, devmode)
        except _Conflict:
            return {"rejected": "override of a block and of a field inside it"}
        stats["constructions"] += 1
        dev_req = devmode == "on" or any(v is True for v in sets_devmode)
        key = {"tree": "hourly" if hourly else "daily", "field": dotted}  # the families of a tree share their declarations
        ctx = f"{target} form={form} spelling={spelling} developer_mode={devmode} overrides={case['overrides']}"
        if o["ok"]:
            stats["accepted"] = stats.get("accepted", 0) + 1
            if status == INVALID and not unknown_field and (spelling == "declared" or eff_field):
                stats["oracle_must_reject_invalid"] = stats.get("oracle_must_reject_invalid", 0) + 1
            dump = o["dump"]
            res_fam = o["cls"] if o["cls"] in t["families"] else fam
            lock_fam = fam if not hourly else res_fam
            reported_dev = dump.get("developer_mode") is True
            changed = _dev_leaf_diffs(lock_fam, dump)
            # ---- (ii) lock, on the result
            if not hourly:
                stats["oracle_lock_on_result"] = stats.get("oracle_lock_on_result", 0) + 1
                if changed and not reported_dev:
                    viol.append({"clause": "lock_bypassed", "key": {"family": fam, "form": form if related_form else "any", "changed": ",".join(changed)[:120]},
                                 "detail": f"accepted without developer mode but developer-only settings differ from the approved "
                                           f"constants: {[(p, sr.get_path(dump, p.split('.'))) for p in changed][:6]} | {ctx}"})
                if reported_dev and not dev_req:
                    viol.append({"clause": "devmode_not_explicit", "key": {"family": fam, "form": form, "field": dotted},
                                 "detail": f"result reports developer_mode=True although the input never asked for it | {ctx}"})
                if (not dev_req and status == VALID and touches_dev and not changed and not unknown_field
                        and (spelling == "declared" or eff_field) and not related_form):
                    viol.append({"clause": "lock_silently_ignored", "key": key,
                                 "detail": f"a changed developer-only value was neither rejected nor applied | {ctx}"})
            # ---- (iv) invalid values are rejected
            if status == INVALID and not unknown_field and (spelling == "declared" or eff_field):
                viol.append({"clause": "invalid_accepted", "key": dict(key, value=labels),
                             "detail": f"value invalid by the declared bounds / cross-field rules was accepted; "
                                       f"result at field: {[sr.get_path(dump, p) for p, _ in overrides]} | {ctx}"})
            # ---- accepted means applied (declared spelling)
            applied = None
            if status == VALID and not unknown_field:
                stats["oracle_value_applied"] = stats.get("oracle_value_applied", 0) + 1
                applied = all(_effect_ok(specs[".".join(p)], sr.get_path(dump, p), norm[".".join(p)]) for p, _ in overrides)
                if not applied and spelling == "declared" and strict_accept and not (touches_dev and not dev_req and not hourly):
                    viol.append({"clause": "value_not_applied", "key": dict(key, value=labels),
                                 "detail": f"accepted but the settings do not carry the value: got "
                                           f"{[sr.get_path(dump, p) for p, _ in overrides]} want {list(norm.values())} | {ctx}"})
            if dev_req and not hourly and devmode == "on" and not reported_dev and (spelling == "declared" or eff_dev):
                viol.append({"clause": "devmode_not_recorded", "key": {"target": target, "form": form},
                             "detail": f"developer_mode=True was passed and accepted but the settings report {dump.get('developer_mode')!r} | {ctx}"})
            if status == VALID and not unknown_field and strict_accept and (hourly or dev_req or not overrides_dev_field):
                stats["oracle_must_accept_valid"] = stats.get("oracle_must_accept_valid", 0) + 1
            beh.append(["ok", o["cls"], applied, bool(changed), o.get("printed")])
        else:
            # ---- valid values are accepted: (ii) with developer mode, (iii) non-developer fields without it
            stats["rejected:" + o["kind"].split(":")[0]] = stats.get("rejected:" + o["kind"].split(":")[0], 0) + 1
            if status == INVALID and not unknown_field:
                stats["oracle_must_reject_invalid"] = stats.get("oracle_must_reject_invalid", 0) + 1
            if not hourly and not dev_req and status == VALID and touches_dev:
                stats["oracle_locked_change_rejected"] = stats.get("oracle_locked_change_rejected", 0) + 1
            must_accept = False
            if status == VALID and not unknown_field and strict_accept:
                if hourly:
                    must_accept = spelling == "declared" or bool(eff_field)
                elif dev_req:
                    must_accept = spelling == "declared" or bool(eff_field and eff_dev)
                elif not overrides_dev_field:
                    must_accept = spelling == "declared" or bool(eff_field)
            if must_accept:
                stats["oracle_must_accept_valid_but_rejected"] = stats.get("oracle_must_accept_valid_but_rejected", 0) + 1
                clause = "valid_rejected_in_developer_mode" if (dev_req and not hourly and overrides_dev_field) else "valid_rejected"
                viol.append({"clause": clause, "key": dict(key, value=labels, how=o["kind"]),
                             "detail": f"valid value rejected: {o['exc']}: {o['msg']} | {ctx}"})
            beh.append(["rejected", o["kind"]])
    # ---- (i) constructions never disturb the class defaults
    bad = _defaults_intact(fam)
    if bad and intact_before:
        viol.append({"clause": "defaults_changed_after_construction", "key": {"family": fam, "field": ",".join(bad)[:80]},
                     "detail": f"a later no-argument {fam}() differs from the table at {bad} (it did not before this case)"})
    definite = status in (VALID, INVALID) or not hourly
    if spelling != "declared":
        k = "spelling_resolved_to_field" if eff_field else "spelling_not_resolved" if eff_field is False else "spelling_unprobed"
        stats[k] = stats.get(k, 0) + 1
    # the behaviour is the outcome class only (no case identity), so that "many cases, one outcome" stays visible
    behaviour = {"kind": "hourly" if hourly else "daily", "form_class": form.split(":")[0], "reference": status,
                 "developer_field": bool(overrides_dev_field), "moves_developer_leaf": touches_dev,
                 "spelling_effective": [eff_field, eff_dev], "modes": beh}
    return {"behaviour": behaviour, "violations": viol, "stats": stats, "nontrivial": bool(definite)}


# =============================================================================== defaults
def run_defaults(case):
    from opendsm.eemeter import BillingModel, DailyModel, HourlyModel
    from opendsm.eemeter.models.daily.utilities import settings as ds

    t = table()
    viol = []
    what = case["what"]
    if what == "declarations":
        code = sr.build_table_from_code()
        n = 0
        for fam, ft in t["families"].items():
            cf = code.get(fam, {}).get("fields", {})
            for dotted in sorted(set(ft["fields"]) | set(cf)):
                a, b = ft["fields"].get(dotted), cf.get(dotted)
                if a is None or b is None:
                    viol.append({"clause": "declaration_drift", "key": {"family": fam, "field": dotted, "attr": "presence"},
                                 "detail": f"{fam}.{dotted}: {'missing in code' if b is None else 'not in the approved table'}"})
                    continue
                for attr in sorted((set(a) | set(b)) - {"choices"}):
                    n += 1
                    # only what the statement names is a violation by declaration alone: the approved constant itself and the
                    # developer-only flag; bounds / types are enforced behaviourally (invalid_accepted / valid_rejected)
                    if attr not in ("default", "developer"):
                        continue
                    if not sr.json_equal(a.get(attr), b.get(attr)):
                        viol.append({"clause": "declaration_drift", "key": {"family": fam, "field": dotted, "attr": attr},
                                     "detail": f"{fam}.{dotted}.{attr}: code declares {b.get(attr)!r}, approved table says {a.get(attr)!r}"})
        return {"behaviour": ["declarations", n], "violations": viol, "stats": {"declaration_attributes": n}}
    if what == "class":
        fam = case["family"]
        cls = sr._classes()[fam]
        how = case["how"]
        if how == "call":
            obj = cls()
        elif how == "empty_kwargs":
            obj = cls(**{})
        elif how == "validate_empty":
            obj = cls.model_validate({})
        elif how == "validate_json_empty":
            obj = cls.model_validate_json("{}")
        else:
            cls()
            obj = cls()
        name, tab = fam + "()/" + how, fam
        want_cls = fam
    elif what == "model":
        expr = case["expr"]
        m = {"DailyModel()": lambda: DailyModel(), "DailyModel(model='legacy')": lambda: DailyModel(model="legacy"),
             "BillingModel()": lambda: BillingModel(), "HourlyModel()": lambda: HourlyModel()}[expr]()
        obj, name, tab, want_cls = m.settings, expr + ".settings", t["models"][expr]["table"], t["models"][expr]["class"]
    elif what == "model_object":
        expr, fam = case["expr"], case["family"]
        sobj = sr._classes()[fam]()
        try:
            m = {"DailyModel()": lambda: DailyModel(settings=sobj), "DailyModel(model='legacy')": lambda: DailyModel(model="legacy", settings=sobj),
                 "BillingModel()": lambda: BillingModel(settings=sobj), "HourlyModel()": lambda: HourlyModel(settings=sobj)}[expr]()
        except Exception as e:  # noqa: refusing a settings object is always admissible
            return {"behaviour": ["model_object", expr, fam, "rejected:" + type(e).__name__], "violations": [], "stats": {"constructions": 1}}
        obj = m.settings
        tab = t["models"][expr]["table"]
        dump = obj.model_dump(mode="json")
        # accepted: the model now runs with `obj`; without developer mode its developer-only constants must be the approved ones of
        # the MODEL's family (hourly: of the class of the object, which the hourly model adopts as it is)
        if expr == "HourlyModel()":
            tab = type(obj).__name__ if type(obj).__name__ in t["families"] else tab
        diffs = _dev_leaf_diffs(tab, _snapshot(obj))
        if diffs and dump.get("developer_mode") is not True:
            viol.append({"clause": "lock_bypassed", "key": {"constructor": expr.split("(")[0], "form": "settings_object", "given": fam},
                         "detail": f"{expr[:-1]}{', ' if not expr.endswith('()') else ''}settings={fam}()) accepted; the model's developer-only "
                                   f"settings differ from the approved constants of {tab} at {diffs[:6]} with developer_mode={dump.get('developer_mode')!r}"})
        return {"behaviour": ["model_object", expr, fam, "accepted:" + type(obj).__name__], "violations": viol, "stats": {"constructions": 1}}
    else:
        obj = getattr(ds, case["fn"])()
        name, tab, want_cls = case["fn"] + "()", case["family"], case["family"]
    dump = obj.model_dump(mode="json")
    for p in sr.diff_paths(dump, t["families"][tab]["defaults"]):
        viol.append({"clause": "default_differs", "key": {"constructor": name.split("/")[0], "field": p},
                     "detail": f"{name}: {p} = {sr.get_path(dump, p.split('.'))!r}, approved constant is "
                               f"{sr.get_path(t['families'][tab]['defaults'], p.split('.'))!r}"})
    for k, v in t["families"][tab].get("excluded_defaults", {}).items():
        if getattr(obj, k, KeyError) != v:
            viol.append({"clause": "default_differs", "key": {"constructor": name.split("/")[0], "field": k},
                         "detail": f"{name}: {k} = {getattr(obj, k, None)!r}, approved {v!r}"})
    if type(obj).__name__ != want_cls:
        viol.append({"clause": "default_class_differs", "key": {"constructor": name.split("/")[0]},
                     "detail": f"{name} is a {type(obj).__name__}, approved table says {want_cls}"})
    return {"behaviour": [type(obj).__name__, sr.enc(dump)], "violations": viol, "stats": {"constructions": 1}}


# =============================================================================== assignment
def run_assign(case):
    target = case["target"]
    fam = TARGETS[target][1]
    cls = sr._classes()[TARGETS[target][0]]
    intact_before = not _defaults_intact(fam)
    obj = cls()
    path = case["path"]
    holder = obj
    for k in path[:-1]:
        holder = getattr(holder, k)
    value = sr.dec(case["value"])
    before = _dev_leaf_diffs(fam, _snapshot(obj))
    try:
        setattr(holder, path[-1], value)
        out = "no_exception"
    except Exception as e:  # noqa
        out = "raised:" + type(e).__name__
    dump = _snapshot(obj)
    changed = [p for p in _dev_leaf_diffs(fam, dump) if p not in before]
    viol = []
    if changed and dump.get("developer_mode") is not True:
        viol.append({"clause": "lock_bypassed_by_assignment", "key": {"target": target, "block": path[0] if len(path) > 1 else "(top level)"},
                     "detail": f"{target}().{'.'.join(path)} = {value!r} succeeded ({out}); developer-only settings now differ "
                               f"from the approved constants at {changed} with developer_mode={dump.get('developer_mode')!r}"})
    bad = _defaults_intact(fam)
    if bad and intact_before:
        viol.append({"clause": "defaults_changed_after_construction", "key": {"family": fam, "field": ",".join(bad)[:80]},
                     "detail": f"a later no-argument {fam}() differs from the table at {bad} (it did not before this case)"})
    spec = table()["families"][fam]["fields"][".".join(path)]
    return {"behaviour": [out, bool(changed)], "violations": viol, "stats": {"assignments": 1, "assign:" + out: 1},
            "nontrivial": bool(spec.get("developer"))}


# =============================================================================== stored documents
_SUBMODEL = {
    "coefficients": {"model_type": "hdd_tidd_cdd", "intercept": 10.0, "hdd_bp": 50.0, "hdd_beta": 1.0, "hdd_k": None,
                     "cdd_bp": 70.0, "cdd_beta": 2.0, "cdd_k": None},
    "temperature_constraints": {"T_min": 0.0, "T_max": 100.0, "T_min_seg": 10.0, "T_max_seg": 90.0},
    "f_unc": 1.0,
}
_DAILY_INFO = {"error": {"wRMSE": 1.0, "RMSE": 1.0, "MAE": 1.0, "CVRMSE": 0.1, "PNRMSE": 0.1}, "baseline_timezone": "UTC",
               "disqualification": [], "warnings": []}


def _hourly_doc(settings):
    feats = list(settings["train_features"])
    col = {"mean": 1.0}
    return {
        "settings": settings,
        "temporal_clusters": [[m, d, 0] for m in range(1, 13) for d in range(1, 8)],
        "temperature_bin_edges": [40.0, 52.0, 64.0],
        "temperature_edge_bin_coefficients": {"0": {"t_bin": 0.0}},
        "ts_features": feats, "categorical_features": ["temporal_cluster_0"],
        "feature_scaler": {f: [50.0, 10.0] for f in feats}, "catagorical_scaler": None, "y_scaler": [1.0, 2.0],
        "coefficients": [[0.0] * 24], "intercept": [0.0] * 24,
        "baseline_metrics": {"observed": dict(col), "predicted": dict(col), "residuals": dict(col), "n": 5},
        "info": {"warnings": [], "disqualification": [], "error": {}, "baseline_timezone": "UTC", "version": "hand-written"},
    }


def _modulo_flag(d, billing):
    d = copy.deepcopy(d)
    d.pop("silent_developer_mode", None)
    if billing:
        d.pop("developer_mode", None)
    return d


def run_stored(case):
    from opendsm.eemeter import BillingModel, DailyModel, HourlyModel

    t = table()
    st_target = case["target"]
    fam = STORED_TARGETS[st_target]
    overrides = [(o["path"], sr.dec(o["value"])) for o in case["overrides"]]
    status, exp_tree, norm = sr.evaluate(t, fam, overrides)
    if status != VALID:
        return {"rejected": "variant not valid by the reference"}
    intact_before = not _defaults_intact(fam)
    recorded = copy.deepcopy(exp_tree)
    recorded.pop("silent_developer_mode", None)
    daily = fam in sr.DAILY_FAMILIES
    billing = st_target == "BillingModel"
    if daily:
        needs_dev = bool(_dev_leaf_diffs(fam, recorded))
        recorded["developer_mode"] = True if (needs_dev or case["flag"] == "forced_true") else False
        if case["flag"] == "tampered":
            recorded["developer_mode"] = False
        # a train_features-like completion does not exist in the daily tree: the document is exactly the reference tree
        doc = {"submodels": {"fw-su_sh_wi": copy.deepcopy(_SUBMODEL)}, "info": copy.deepcopy(_DAILY_INFO), "settings": recorded}
        loader = BillingModel if billing else DailyModel
    else:
        required = ["temperature", "ghi"] if st_target.endswith("/solar") else ["temperature"]
        recorded["train_features"] = list(recorded["train_features"]) + [f for f in required if f not in recorded["train_features"]]
        doc = _hourly_doc(recorded)
        loader = HourlyModel
    doc = json.loads(json.dumps(doc))  # what a stored document is: plain JSON
    key = {"target": st_target, "flag": case["flag"]}
    ctx = f"{st_target} flag={case['flag']} overrides={case['overrides']}"
    viol = []
    buf = io.StringIO()
    try:
        with contextlib.redirect_stdout(buf):
            m = loader.from_dict(copy.deepcopy(doc))
    except Exception as e:  # noqa
        if case["flag"] == "tampered":
            return {"behaviour": [st_target, "tampered_rejected", type(e).__name__], "violations": [], "stats": {"documents": 1}}
        viol.append({"clause": "stored_document_rejected", "key": key,
                     "detail": f"from_dict raised {type(e).__name__}: {str(e)[:200]} for a document whose settings are valid | {ctx}"})
        return {"behaviour": [st_target, "load_failed", type(e).__name__], "violations": viol, "stats": {"documents": 1}}
    built = json.loads(json.dumps(m.settings.model_dump(mode="json")))
    want = doc["settings"]
    if case["flag"] == "tampered":
        # accepted: admissible only if what the model now runs with are the approved constants of the family it was loaded as
        # (the loader may recognise the document as one of the other daily family)
        lfam = type(m.settings).__name__ if type(m.settings).__name__ in t["families"] else fam
        diffs = _dev_leaf_diffs(lfam, _snapshot(m.settings))
        if diffs:
            viol.append({"clause": "lock_bypassed_by_stored_document", "key": {"target": st_target},
                         "detail": f"a document with developer_mode=false and {case['overrides'][0]['path']} = {overrides[0][1]!r} was loaded; the model's "
                                   f"developer-only settings differ from the approved constants of {lfam} at {diffs[:5]} (live developer_mode="
                                   f"{built.get('developer_mode')!r}) | {ctx}"})
        return {"behaviour": [st_target, "tampered_loaded_as", lfam, bool(diffs)], "violations": viol, "stats": {"documents": 1}}
    same = sr.json_equal if daily or "train_features" not in want else (
        lambda a, b: sr.json_equal({k: v for k, v in a.items() if k != "train_features"},
                                   {k: v for k, v in b.items() if k != "train_features"})
        and set(a.get("train_features") or []) == set(b.get("train_features") or []))
    if not same(built, want):
        viol.append({"clause": "built_settings_differ_from_document", "key": key,
                     "detail": f"model.settings differs from the stored settings at {sr.diff_paths(built, want)} | {ctx}"})
    if not daily:
        m.baseline_metrics = None
    try:
        with contextlib.redirect_stdout(buf):
            out = m.to_dict()
            js = m.to_json()
            m2 = loader.from_json(js) if daily else None
    except Exception as e:  # noqa
        viol.append({"clause": "stored_settings_unavailable", "key": key,
                     "detail": f"to_dict/to_json/from_json raised {type(e).__name__}: {str(e)[:200]} | {ctx}"})
        return {"behaviour": [st_target, "dump_failed", type(e).__name__], "violations": viol, "stats": {"documents": 1}}
    rec = json.loads(json.dumps(out["settings"]))
    if not same(_modulo_flag(rec, billing), _modulo_flag(built, billing)):
        viol.append({"clause": "stored_settings_differ", "key": key,
                     "detail": f"to_dict()['settings'] differs from model.settings.model_dump() at "
                               f"{sr.diff_paths(_modulo_flag(rec, billing), _modulo_flag(built, billing))} | {ctx}"})
    if not sr.json_equal(json.loads(js)["settings"], rec):
        viol.append({"clause": "stored_settings_differ", "key": dict(key, via="to_json"),
                     "detail": f"to_json and to_dict disagree on the settings | {ctx}"})
    if m2 is not None:
        again = json.loads(json.dumps(m2.settings.model_dump(mode="json")))
        if not same(_modulo_flag(again, billing), _modulo_flag(built, billing)):
            viol.append({"clause": "reloaded_settings_differ", "key": key,
                         "detail": f"settings after to_json -> from_json differ at "
                                   f"{sr.diff_paths(_modulo_flag(again, billing), _modulo_flag(built, billing))} | {ctx}"})
    bad = _defaults_intact(fam)
    if bad and intact_before:
        viol.append({"clause": "defaults_changed_after_construction", "key": {"family": fam, "field": ",".join(bad)[:80]},
                     "detail": f"a later no-argument {fam}() differs from the table at {bad} (it did not before this case)"})
    return {"behaviour": [st_target, type(m.settings).__name__, built.get("developer_mode"), rec.get("developer_mode"),
                          bool(buf.getvalue()), len(viol)],
            "violations": viol, "stats": {"documents": 1, "stored_settings_compared": 1}}


# =============================================================================== dispatch
# =============================================================================== life cycle
LIFECYCLE = ["daily", "daily_legacy", "billing", "hourly", "hourly_object", "hourly_supplemental", "hourly_solar"]


def cases_lifecycle(tier):
    return [{"space": "lifecycle", "profile": p} for p in LIFECYCLE]


def run_lifecycle(case):
    """the settings a model was built with are the settings it has after fit(), predict() and a storage round trip (a fit that
    writes into its settings object changes the method after the fact)"""
    import numpy as np
    import opendsm.eemeter as em
    from opendsm.eemeter.models.hourly import settings as hs

    from .. import datasets as ds

    prof = case["profile"]
    given = None
    if prof in ("daily", "daily_legacy", "billing"):
        fr = ds.daily_frame(days=365, noise=0.05)
        m = {"daily": lambda: em.DailyModel(), "daily_legacy": lambda: em.DailyModel(model="legacy"), "billing": lambda: em.BillingModel()}[prof]()
        if prof == "billing":
            data = em.BillingBaselineData.from_series(ds.billing_reads(fr["observed"]), fr["temperature"], is_electricity_data=True)
        else:
            data = em.DailyBaselineData(fr, is_electricity_data=True)
        rep = data
    else:
        fr = ds.hourly_frame(days=365, solar=prof == "hourly_solar")
        if prof == "hourly_supplemental":
            rng = np.random.default_rng(5)
            fr["Wind"] = np.round(rng.uniform(0, 20, len(fr)), 1)
            fr["observed"] = fr["observed"] + 0.02 * fr["Wind"]
            m = em.HourlyModel(settings={"seed": 7, "supplemental_time_series_columns": ["Wind"]})
        elif prof == "hourly_object":
            given = hs.HourlyNonSolarSettings(seed=7)
            m = em.HourlyModel(settings=given)
        else:
            m = em.HourlyModel(settings={"seed": 7})
        data = em.HourlyBaselineData(fr, is_electricity_data=True)
        rep = em.HourlyReportingData(fr.iloc[: 24 * 40].copy(), is_electricity_data=True)
    viol, beh = [], []
    snap0 = _snapshot(m.settings)
    given0 = _snapshot(given) if given is not None else None
    steps = [("fit", lambda: m.fit(data, ignore_disqualification=True)), ("predict", lambda: m.predict(rep, ignore_disqualification=True)),
             ("to_json", lambda: m.to_json())]
    for name, fn in steps:
        try:
            fn()
        except Exception as e:  # noqa
            return {"rejected": f"{prof}: {name} raised {type(e).__name__}: {str(e)[:80]}"}
        now = _snapshot(m.settings)
        # a field left unset (None) may be resolved by fit(); a field that HAS a value keeps it
        diffs = [p_ for p_ in sr.diff_paths(now, snap0) if sr.get_path(snap0, p_.split(".")) is not None]
        if diffs:
            viol.append({"clause": "settings_changed_by_use", "key": {"profile": prof, "step": name},
                         "detail": f"{prof}: model.settings differs after {name}() at {diffs[:6]}: "
                                   f"{[(p_, sr.get_path(snap0, p_.split('.')), sr.get_path(now, p_.split('.'))) for p_ in diffs[:3]]}"})
            break
        if given is not None and sr.diff_paths(_snapshot(given), given0):
            viol.append({"clause": "settings_changed_by_use", "key": {"profile": prof, "step": name, "object": "callers"},
                         "detail": f"{prof}: the settings object handed to the constructor differs after {name}()"})
            break
        beh.append(name)
    # the resolved settings are a fixpoint: a model built from them and fitted on the same data ends with the same settings
    if not viol and prof.startswith("hourly"):
        resolved = _snapshot(m.settings)
        try:
            m2 = em.HourlyModel(settings=type(m.settings)(**m.settings.model_dump()))
            m2.fit(data, ignore_disqualification=True)
            again = _snapshot(m2.settings)
        except Exception as e:  # noqa
            viol.append({"clause": "resolved_settings_not_reusable", "key": {"profile": prof, "exc": type(e).__name__},
                         "detail": f"{prof}: a model built from the settings this model holds after fit() cannot be fitted on the same data: "
                                   f"{type(e).__name__}: {str(e)[:160]}"})
        else:
            d2 = sr.diff_paths(again, resolved)
            if d2:
                viol.append({"clause": "resolved_settings_not_a_fixpoint", "key": {"profile": prof},
                             "detail": f"{prof}: settings after fit() {[(p_, sr.get_path(resolved, p_.split('.'))) for p_ in d2[:3]]} become "
                                       f"{[(p_, sr.get_path(again, p_.split('.'))) for p_ in d2[:3]]} when a model built from them is fitted again"})
            beh.append("refit_from_resolved")
    return {"behaviour": [prof, beh], "violations": viol, "stats": {"constructions": 1}}


# =============================================================================== nested blocks shared between settings objects
SHARE_CLASSES = ["BaseHourlySettings", "HourlyNonSolarSettings", "HourlySolarSettings"]
SHARE_LATER = ["second_parent", "second_parent_then_store_first", "store", "store_twice", "model_validate", "copy_with_update"]


def cases_sharing(tier):
    out = []
    for cls in SHARE_CLASSES:
        for seed_a in (1, None):
            for seed_b in (2, None, 1):
                for blocks in (["temporal_cluster"], ["elasticnet"], ["temporal_cluster", "elasticnet"]):
                    for source in ("fresh_block", "first_parents_block"):
                        for later in SHARE_LATER:
                            if not later.startswith("second_parent") and (seed_b != 2 or blocks != ["temporal_cluster"] or source != "fresh_block"):
                                continue  # the later operation does not involve a second object: one case per (class, seed)
                            out.append({"space": "sharing", "cls": cls, "seed_a": seed_a, "seed_b": seed_b, "blocks": blocks,
                                        "source": source, "later": later})
    return out


def run_sharing(case):
    """the seed a settings object works with (the model reads it from the nested elastic-net and clustering blocks) is the one it was
    built with, whatever is built or stored afterwards - also when a nested block object serves two settings objects"""
    from opendsm.eemeter.models.hourly import settings as hs

    cls = getattr(hs, case["cls"])
    block_cls = {"temporal_cluster": hs.TemporalClusteringSettings, "elasticnet": hs.ElasticNetSettings}

    def seeds(o):
        return [None if v is None else int(v) for v in (getattr(o, "_seed", None), getattr(o.elasticnet, "_seed", None), getattr(o.temporal_cluster, "_seed", None))]

    kw_a = {} if case["seed_a"] is None else {"seed": case["seed_a"]}
    kw_b = {} if case["seed_b"] is None else {"seed": case["seed_b"]}
    try:
        if case["source"] == "fresh_block":
            shared = {b: block_cls[b]() for b in case["blocks"]}
            a = cls(**shared, **kw_a)
        else:
            a = cls(**kw_a)
            shared = {b: getattr(a, b) for b in case["blocks"]}
    except Exception as e:  # noqa
        return {"rejected": f"{type(e).__name__}: {str(e)[:80]}"}
    s0 = seeds(a)
    key = {"cls": case["cls"], "later": case["later"], "seeded": case["seed_a"] is not None}
    viol = []
    if len(set(s0)) != 1 or s0[0] is None or (case["seed_a"] is not None and s0[0] != case["seed_a"]):
        viol.append({"clause": "effective_seed_not_the_given_seed", "key": key, "detail": f"{case}: (own, elasticnet, clustering) seeds {s0}"})
    info = hs.ModelInfo(warnings=[], disqualification=[], error={}, baseline_timezone="UTC", version="x")
    later = case["later"]
    b = None
    if later.startswith("second_parent"):
        b = cls(**shared, **kw_b)
        if later.endswith("store_first"):
            hs.SerializeModel(settings=a, info=info)
    elif later.startswith("store"):
        for _ in range(2 if later == "store_twice" else 1):
            hs.SerializeModel(settings=a, info=info)   # what HourlyModel.to_dict() does with its settings object
    elif later == "model_validate":
        cls.model_validate(a)
    else:
        a.model_copy(update={"train_features": ["temperature"]})
    s1 = seeds(a)
    if s1 != s0:
        viol.append({"clause": "effective_seed_changed_by_later_use", "key": key,
                     "detail": f"{case}: (own, elasticnet, clustering) seeds of the first settings object {s0} -> {s1} after {later}"})
    if b is not None:
        sb = seeds(b)
        if len(set(sb)) != 1 or sb[0] is None or (case["seed_b"] is not None and sb[0] != case["seed_b"]):
            viol.append({"clause": "effective_seed_not_the_given_seed", "key": dict(key, object="second"),
                         "detail": f"{case}: second object's (own, elasticnet, clustering) seeds {sb}"})
    return {"behaviour": [case["cls"], later, case["seed_a"] is not None, case["seed_b"], s1 == s0], "violations": viol, "stats": {"constructions": 2 if b is not None else 1}}


def run_case(case):
    sp = case["space"]
    if sp == "lifecycle":
        return run_lifecycle(case)
    if sp == "sharing":
        return run_sharing(case)
    if sp in ("single", "cluster", "pairs", "flagpairs"):
        return run_overrides(case)
    if sp == "defaults":
        return run_defaults(case)
    if sp == "assign":
        return run_assign(case)
    if sp == "stored":
        return run_stored(case)
    raise ValueError(sp)


def run(tier, seed):
    from .. import env

    env.setup_env()
    env.quiet_library()
    spaces = [("defaults", cases_defaults), ("single", cases_single), ("cluster", cases_cluster),
              ("assign", cases_assign), ("stored", cases_stored), ("flagpairs", cases_flagpairs), ("lifecycle", cases_lifecycle), ("sharing", cases_sharing)]
    if tier == "thorough":
        spaces.append(("pairs", cases_pairs))
    exps = []
    with poolmod.Pool() as pool:
        for name, gen in spaces:
            cs = gen(tier)
            exps.append(explore.explore(pool, name, MOD, "run_case", cs, seed=seed))
    cov = explore.merge_coverage(
        exps,
        rule="one case = (target family or model constructor, overridden field(s) with one alternative value each, key spelling, "
        "input form); each case is constructed under developer_mode absent / False / True (plus probe constructions for "
        "non-declared spellings); a behaviour is the vector of (accepted class, value applied?, developer leaves changed? | "
        "rejection kind) over those modes; a case is non-trivial when the reference gives a definite valid/invalid verdict for "
        "the value or the family has developer-only fields (so the lock clause applies)",
    )
    t = table()
    cov["constructions"] = sum(e.stats.get("constructions", 0) for e in exps)
    cov["documents"] = sum(e.stats.get("documents", 0) for e in exps)
    cov["oracle_applications"] = {k: sum(e.stats.get(k, 0) for e in exps)
                                  for k in sorted({k for e in exps for k in e.stats})
                                  if k.startswith(("oracle_", "rejected:", "accepted", "spelling_", "assign:", "stored_"))}
    cov["fields_per_family"] = {f: len(v["fields"]) for f, v in t["families"].items()}
    cov["developer_only_leaves_per_family"] = {f: len(sr.developer_leaves(t, f)) for f in t["families"]}
    cov["vacuous"] = [f"lock clause (ii) is vacuous for {f}: no developer-only field is declared"
                      for f in t["families"] if not sr.developer_leaves(t, f)]
    viols = [v for e in exps for v in e.violations]
    return {"level": LEVEL, "coverage": cov, "violations": viols, "assumptions": ASSUMPTIONS}


def replay(rep):
    from .. import env

    env.setup_env()
    env.quiet_library()
    vs = []
    for k in range(2):
        r = run_case(rep["case"])
        vs = [v for v in r.get("violations", []) if v["clause"] == rep["clause"]]
        print(f"run {k}: behaviour={json.dumps(r.get('behaviour'), default=str)[:600]}")
        print(f"run {k}: {len(r.get('violations', []))} violations, {len(vs)} of clause {rep['clause']}")
        for v in vs[:3]:
            print("  ", v["key"], v["detail"][:500])
    return 1 if vs else 0
