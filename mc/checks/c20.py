"""C20 — baseline and reporting windows never leak across the intervention.

Deviation-bounded / product enumeration over cut instants (every timestamp,
every mid-point, one before the data, one after), max_days, option
combinations, series kinds and zones; oracle = `windows` reference evaluated on
the input alone.
"""
import itertools

import numpy as np
import pandas as pd

from .. import explore, pool as poolmod

PROP = "C20"
LEVEL = "exploration"
MOD = "mc.checks.c20"

ASSUMPTIONS = [
    "no-leak clause (rows <= end / >= start) is strict under every option combination",
    "look-back clause is strict for default options; with allow_billing_period_overshoot the first (last) row must be the "
    "row nearest to the target among rows on the permitted side of the cut (ties: either); with "
    "ignore_billing_period_gap_for_day_count=True measuring max_days from the requested instant or from the last (first) "
    "data point at/before (at/after) it are both accepted - for the baseline only while the gap is within the documented tolerance "
    "(n_days_billing_period_overshoot None, or gap shorter than it); a longer gap must be measured from the requested end",
    "rows strictly inside the permitted window must be present (boundary rows are allowed, not required, on the look-back side)",
    "a gap warning is required only for explicitly requested instants (end for baseline, start for reporting, and an explicit "
    "start/end passed with max_days=None); warnings for limits derived from max_days are allowed, not required",
    "an 'empty selection' is one without any row carrying a value in every column; it must raise the dedicated error and "
    "nothing else; a non-empty permitted window must not raise",
    "the final row of the returned slice is blanked (NaN in every column)",
]

SERIES_KINDS = ["daily30", "hourly10d", "billing14"]
ZONES = ["UTC", "America/Chicago"]
OTHER = {"UTC": "Asia/Kolkata", "America/Chicago": "UTC"}
MAX_DAYS = [365, None, 1, 5, 10, 0.5, 0]   # half a day and zero are windows too (not "no limit")


def make_index(kind, zone):
    if kind == "hourly10d":
        return pd.date_range("2021-03-09 00:00", periods=240, freq="h", tz=zone)  # crosses US DST start (Mar 14)
    if kind == "daily30":
        return pd.date_range("2021-10-20", periods=30, freq="D", tz=zone)  # crosses US DST end (Nov 7)
    if kind == "billing14":
        lens = [31, 28, 33, 29, 30, 35, 27, 31, 30, 62, 31, 30, 29]
        ts = [pd.Timestamp("2020-01-05", tz=zone)]
        for n in lens:
            ts.append((ts[-1].tz_localize(None) + pd.Timedelta(days=n)).tz_localize(zone))
        return pd.DatetimeIndex(ts)
    raise ValueError(kind)


def make_data(kind, zone, shape):
    idx = make_index(kind, zone)
    vals = np.arange(1.0, len(idx) + 1.0)
    if shape == "series":
        return pd.Series(vals, index=idx, name="value")
    if shape == "series_nanhead":
        v = vals.copy()
        v[:3] = np.nan
        v[-2:] = np.nan
        return pd.Series(v, index=idx, name="value")
    if shape == "frame":
        return pd.DataFrame({"value": vals, "temperature": vals * 0.5 + 30}, index=idx)
    # readings that are not floats: whole units from a billing export / SQL driver (int64, nullable Int64), float32
    if shape == "series_int":
        return pd.Series(vals.astype("int64"), index=idx, name="value")
    if shape == "frame_int":
        return pd.DataFrame({"value": vals.astype("int64"), "temperature": vals * 0.5 + 30}, index=idx)
    if shape == "frame_Int64":
        return pd.DataFrame({"value": pd.array(vals.astype("int64"), dtype="Int64")}, index=idx)
    if shape == "frame_f32":
        return pd.DataFrame({"value": vals.astype("float32"), "temperature": (vals * 0.5 + 30).astype("float32")}, index=idx)
    if shape == "frame_estimated":
        # the classic meter frame: readings plus a boolean `estimated` flag (a column that cannot hold NaN)
        return pd.DataFrame({"value": vals, "estimated": (np.arange(len(idx)) % 7 == 0)}, index=idx)
    raise ValueError(shape)


def cut_instants(idx):
    """(label, Timestamp) simplest-first: on each timestamp, each mid-point, before the first, after the last."""
    out = []
    for i, t in enumerate(idx):
        out.append((f"on{i}", t))
    for i in range(len(idx) - 1):
        out.append((f"mid{i}", idx[i] + (idx[i + 1] - idx[i]) / 2))
    step = idx[1] - idx[0]
    out.append(("before", idx[0] - step))
    out.append(("far_before", idx[0] - pd.Timedelta(days=12)))
    out.append(("after", idx[-1] + step))
    out.append(("far_after", idx[-1] + pd.Timedelta(days=12)))
    # around the n_days_billing_period_overshoot tolerances (0 and 3 days) beyond either end of the data
    for lab, d in (("h12", 0.5), ("d1", 1.0), ("d3-1h", 3.0 - 1 / 24), ("d3", 3.0), ("d3+12h", 3.5), ("d4", 4.0)):
        out.append((f"after+{lab}", idx[-1] + pd.Timedelta(days=d)))
        out.append((f"before-{lab}", idx[0] - pd.Timedelta(days=d)))
    return out


def cases(tier):
    out = []
    shapes = ["series", "series_nanhead", "frame", "series_int", "frame_int", "frame_Int64", "frame_f32", "frame_estimated"]
    for kind in SERIES_KINDS:
        for zone in ZONES:
            idx = make_index(kind, zone)
            cuts = cut_instants(idx)
            if tier == "quick" and kind == "hourly10d":
                # every hour of the first and last two days and the DST day, every 6th hour and mid-point elsewhere
                keep = []
                for lab, t in cuts:
                    if lab.startswith(("on", "mid")):
                        i = int(lab[2:] if lab.startswith("on") else lab[3:])
                        if i < 30 or i > 210 or 118 <= i <= 126 or i % 6 == 0:
                            keep.append((lab, t))
                    else:
                        keep.append((lab, t))
                cuts = keep
            for shape in shapes:
                if tier == "quick" and shape != "series" and kind == "hourly10d":
                    continue
                if shape in ("series_int", "frame_int", "frame_Int64", "frame_f32", "frame_estimated") and (kind == "hourly10d" or (tier == "quick" and zone != "America/Chicago")):
                    continue
                out.append({"fn": "both", "kind": kind, "zone": zone, "shape": shape, "cut": "none", "cut_tz": "same"})
                for lab, _ in cuts:
                    for cut_tz in ("same", "other"):
                        if cut_tz == "other" and shape != "series":
                            continue
                        out.append({"fn": "both", "kind": kind, "zone": zone, "shape": shape, "cut": lab, "cut_tz": cut_tz})
                    if shape == "series" and zone != "UTC":
                        # the same instant as a stdlib datetime (tzinfo with clock changes), max_days as a numpy integer
                        out.append({"fn": "both", "kind": kind, "zone": zone, "shape": shape, "cut": lab, "cut_tz": "same", "limit_form": "pydatetime"})
    return out


OPTS_BASE = [
    dict(allow=a, ignore=g, nover=n)
    for a, g, n in itertools.product([False, True], [False, True], [None, 0, 3])
]
OPTS_REP = [dict(allow=a, ignore=g) for a, g in itertools.product([False, True], [False, True])]


def _fp(obj):
    if isinstance(obj, pd.Series):
        obj = obj.to_frame()
    return (
        tuple(obj.columns),
        str(obj.index.tz),
        obj.index.asi8.tobytes(),
        tuple(str(d) for d in obj.dtypes),
        obj.astype("float64").to_numpy(dtype="float64").tobytes(),
    )


def _valid_rows(data):
    df = data.to_frame() if isinstance(data, pd.Series) else data
    return df.notna().all(axis=1).to_numpy()


def _check_slice(data, res, viol, key):
    """contiguity, values unchanged, last row blanked.  returns (i, j) positions or None"""
    idx = data.index
    ridx = res.index
    if len(ridx) == 0:
        viol.append({"clause": "returned_empty_without_error", "key": key, "detail": "empty frame returned"})
        return None
    pos = idx.get_indexer(ridx)
    if (pos < 0).any():
        viol.append({"clause": "row_not_in_input", "key": key, "detail": f"timestamps not in input: {list(ridx[pos < 0])[:3]}"})
        return None
    if not (np.diff(pos) == 1).all():
        viol.append({"clause": "not_contiguous", "key": key, "detail": f"positions {pos.tolist()[:20]}"})
        return None
    i, j = int(pos[0]), int(pos[-1])
    if type(res) is not type(data) or str(ridx.tz) != str(idx.tz):
        viol.append({"clause": "type_or_tz_changed", "key": key, "detail": f"{type(res).__name__} tz={ridx.tz}"})
    a = (res.to_frame() if isinstance(res, pd.Series) else res).astype("float64").to_numpy(dtype="float64")
    b = (data.to_frame() if isinstance(data, pd.Series) else data).astype("float64").to_numpy(dtype="float64")[i : j + 1]
    if a.shape != b.shape:
        viol.append({"clause": "shape_changed", "key": key, "detail": f"{a.shape} vs {b.shape}"})
        return i, j
    body_same = np.array_equal(a[:-1], b[:-1], equal_nan=True)
    if not body_same:
        viol.append({"clause": "values_changed", "key": key, "detail": "a row other than the last differs from the input"})
    if not np.isnan(a[-1]).all():
        viol.append({"clause": "final_row_not_blanked", "key": key, "detail": f"last row {a[-1].tolist()}"})
    return i, j


def _nearest_ok(cands, target, got):
    """got must be a nearest element of cands to target (ties accepted)."""
    d = np.abs((cands - target).total_seconds().to_numpy())
    return abs((got - target).total_seconds()) <= d.min() + 1e-9


LIMIT_FORM = {"form": "timestamp"}


def _lib(v):
    """the limit in the form the case asks for: a pandas Timestamp (default) or a stdlib datetime with the same tzinfo"""
    if v is not None and LIMIT_FORM["form"] == "pydatetime":
        return v.to_pydatetime()
    return v


def _md(v):
    if v is not None and LIMIT_FORM["form"] == "pydatetime" and float(v) == int(v):
        return np.int64(v)   # and max_days as a numpy integer (what arithmetic on a column of day counts yields)
    return v


def run_baseline(data, end, max_days, start, opt, key0):
    from opendsm.eemeter.common.exceptions import NoBaselineDataError
    from opendsm.eemeter.common.transform import get_baseline_data

    viol = []
    key = dict(key0, fn="baseline", allow=opt["allow"], ignore=opt["ignore"])
    idx = data.index
    fp0 = _fp(data)
    kw = dict(end=_lib(end), max_days=_md(max_days), allow_billing_period_overshoot=opt["allow"],
              n_days_billing_period_overshoot=opt["nover"], ignore_billing_period_gap_for_day_count=opt["ignore"])
    if start is not None:
        kw["start"] = _lib(start)
    if end is None:
        end = idx.max()  # no end requested: everything up to the last row is at or before "the end" (oracle only)
    try:
        res, warns = get_baseline_data(data, **kw)
        exc = None
    except NoBaselineDataError:
        res, warns, exc = None, [], "dedicated"
    except Exception as e:  # noqa
        res, warns, exc = None, [], type(e).__name__
    if _fp(data) != fp0:
        viol.append({"clause": "input_modified", "key": key, "detail": "input changed by get_baseline_data"})
    valid = _valid_rows(data)
    before = idx <= end
    # admissible look-back targets
    targets = []
    if max_days is not None:
        targets.append(end - pd.Timedelta(days=max_days))
        if opt["ignore"] and before.any():
            data_end = idx[before].max()
            # the documented tolerance: the gap between the requested end and the last reading is ignored for the day count when
            # no tolerance is given or the gap is shorter than n_days_billing_period_overshoot; a longer gap is NOT ignored
            if opt["nover"] is None or end - pd.Timedelta(days=opt["nover"]) < data_end:
                targets.append(data_end - pd.Timedelta(days=max_days))
    elif start is not None:
        targets.append(start)
    lo_strict = max(targets) if targets else None  # rows >= this are inside under every reading
    lo_lenient = min(targets) if targets else None
    # ---- empty-selection clause
    if opt["allow"] and targets and before.any():
        cands = idx[before]
        firsts = set()
        for t in targets:
            d = np.abs((cands - t).total_seconds().to_numpy())
            firsts.update(np.flatnonzero(d <= d.min() + 1e-9).tolist())
        sel_any = any(valid[: len(cands)][f:].any() for f in firsts)
        sel_all = all(valid[: len(cands)][f:].any() for f in firsts)
    else:
        inside_strict = before & ((idx >= lo_strict) if lo_strict is not None else True)
        inside_len = before & ((idx >= lo_lenient) if lo_lenient is not None else True)
        sel_all = bool((inside_strict & valid).any())
        sel_any = bool((inside_len & valid).any())
    if exc == "dedicated":
        if sel_all:
            viol.append({"clause": "spurious_empty_error", "key": key,
                         "detail": "NoBaselineDataError although the permitted window holds valid rows"})
        return viol, "raise_dedicated"
    if exc is not None:
        viol.append({"clause": "wrong_exception", "key": dict(key, exc=exc, empty=not sel_any),
                     "detail": f"{exc} raised; permitted window {'is empty' if not sel_any else 'has valid rows'}"})
        return viol, "raise_" + exc
    if not sel_any:
        viol.append({"clause": "empty_selection_not_raised", "key": key, "detail": f"returned {len(res)} rows"})
    ij = _check_slice(data, res, viol, key)
    if ij is None:
        return viol, "bad_slice"
    i, j = ij
    # ---- no leak
    if res.index.max() > end:
        viol.append({"clause": "leak_after_end", "key": key, "detail": f"last row {res.index.max()} > end {end}"})
    # ---- look-back
    if targets:
        if opt["allow"]:
            cands = idx[before]
            if len(cands) and not any(_nearest_ok(cands, t, res.index[0]) for t in targets):
                viol.append({"clause": "not_nearest_boundary", "key": key,
                             "detail": f"first row {res.index[0]} is not the row nearest to any admissible target {targets}"})
        else:
            if res.index[0] < lo_lenient:
                viol.append({"clause": "too_early", "key": key, "detail": f"first row {res.index[0]} < {lo_lenient}"})
            interior = np.flatnonzero(before & (idx > lo_strict) & (idx < end))
            if len(interior) and (interior[0] < i or interior[-1] > j):
                viol.append({"clause": "interior_rows_missing", "key": key,
                             "detail": f"rows {interior[0]}..{interior[-1]} are inside the window, returned {i}..{j}"})
    else:
        interior = np.flatnonzero(idx < end)
        if len(interior) and (interior[0] < i or interior[-1] > j):
            viol.append({"clause": "interior_rows_missing", "key": key, "detail": f"returned {i}..{j}"})
    # ---- warnings
    names = [w.qualified_name for w in warns]
    allowed = {"eemeter.get_baseline_data.gap_at_baseline_end", "eemeter.get_baseline_data.gap_at_baseline_start"}
    if set(names) - allowed:
        viol.append({"clause": "unknown_warning", "key": key, "detail": str(names)})
    if idx.max() < end and "eemeter.get_baseline_data.gap_at_baseline_end" not in names:
        viol.append({"clause": "missing_gap_warning_end", "key": key,
                     "detail": f"data ends {idx.max()} before requested end {end}; warnings={names}"})
    if start is not None and start < idx.min() and "eemeter.get_baseline_data.gap_at_baseline_start" not in names:
        viol.append({"clause": "missing_gap_warning_start", "key": key, "detail": f"warnings={names}"})
    return viol, f"rows{i}-{j}|w{len(names)}"


def run_reporting(data, start, max_days, end, opt, key0):
    from opendsm.eemeter.common.exceptions import NoReportingDataError
    from opendsm.eemeter.common.transform import get_reporting_data

    viol = []
    key = dict(key0, fn="reporting", allow=opt["allow"], ignore=opt["ignore"])
    idx = data.index
    fp0 = _fp(data)
    kw = dict(start=_lib(start), max_days=_md(max_days), allow_billing_period_overshoot=opt["allow"],
              ignore_billing_period_gap_for_day_count=opt["ignore"])
    if end is not None:
        kw["end"] = _lib(end)
    if start is None:
        start = idx.min()  # no start requested (oracle only)
    try:
        res, warns = get_reporting_data(data, **kw)
        exc = None
    except NoReportingDataError:
        res, warns, exc = None, [], "dedicated"
    except Exception as e:  # noqa
        res, warns, exc = None, [], type(e).__name__
    if _fp(data) != fp0:
        viol.append({"clause": "input_modified", "key": key, "detail": "input changed by get_reporting_data"})
    valid = _valid_rows(data)
    after = idx >= start
    targets = []
    if max_days is not None:
        targets.append(start + pd.Timedelta(days=max_days))
        if opt["ignore"] and after.any():
            targets.append(idx[after].min() + pd.Timedelta(days=max_days))
    elif end is not None:
        targets.append(end)
    hi_strict = min(targets) if targets else None
    hi_lenient = max(targets) if targets else None
    off = int(np.argmax(after)) if after.any() else len(idx)
    if opt["allow"] and targets and after.any():
        cands = idx[after]
        lasts = set()
        for t in targets:
            d = np.abs((cands - t).total_seconds().to_numpy())
            lasts.update(np.flatnonzero(d <= d.min() + 1e-9).tolist())
        sel_any = any(valid[off:][: l + 1].any() for l in lasts)
        sel_all = all(valid[off:][: l + 1].any() for l in lasts)
    else:
        inside_strict = after & ((idx <= hi_strict) if hi_strict is not None else True)
        inside_len = after & ((idx <= hi_lenient) if hi_lenient is not None else True)
        sel_all = bool((inside_strict & valid).any())
        sel_any = bool((inside_len & valid).any())
    if exc == "dedicated":
        if sel_all:
            viol.append({"clause": "spurious_empty_error", "key": key,
                         "detail": "NoReportingDataError although the permitted window holds valid rows"})
        return viol, "raise_dedicated"
    if exc is not None:
        viol.append({"clause": "wrong_exception", "key": dict(key, exc=exc, empty=not sel_any),
                     "detail": f"{exc} raised; permitted window {'is empty' if not sel_any else 'has valid rows'}"})
        return viol, "raise_" + exc
    if not sel_any:
        viol.append({"clause": "empty_selection_not_raised", "key": key, "detail": f"returned {len(res)} rows"})
    ij = _check_slice(data, res, viol, key)
    if ij is None:
        return viol, "bad_slice"
    i, j = ij
    if res.index.min() < start:
        viol.append({"clause": "leak_before_start", "key": key, "detail": f"first row {res.index.min()} < start {start}"})
    if targets:
        if opt["allow"]:
            cands = idx[after]
            if len(cands) and not any(_nearest_ok(cands, t, res.index[-1]) for t in targets):
                viol.append({"clause": "not_nearest_boundary", "key": key,
                             "detail": f"last row {res.index[-1]} is not the row nearest to any admissible target {targets}"})
        else:
            if res.index[-1] > hi_lenient:
                viol.append({"clause": "too_late", "key": key, "detail": f"last row {res.index[-1]} > {hi_lenient}"})
            interior = np.flatnonzero(after & (idx < hi_strict) & (idx > start))
            if len(interior) and (interior[0] < i or interior[-1] > j):
                viol.append({"clause": "interior_rows_missing", "key": key,
                             "detail": f"rows {interior[0]}..{interior[-1]} are inside the window, returned {i}..{j}"})
    else:
        interior = np.flatnonzero(idx > start)
        if len(interior) and (interior[0] < i or interior[-1] > j):
            viol.append({"clause": "interior_rows_missing", "key": key, "detail": f"returned {i}..{j}"})
    names = [w.qualified_name for w in warns]
    allowed = {"eemeter.get_reporting_data.gap_at_reporting_end", "eemeter.get_reporting_data.gap_at_reporting_start"}
    if set(names) - allowed:
        viol.append({"clause": "unknown_warning", "key": key, "detail": str(names)})
    if start < idx.min() and "eemeter.get_reporting_data.gap_at_reporting_start" not in names:
        viol.append({"clause": "missing_gap_warning_start", "key": key,
                     "detail": f"data starts {idx.min()} after requested start {start}; warnings={names}"})
    if end is not None and idx.max() < end and "eemeter.get_reporting_data.gap_at_reporting_end" not in names:
        viol.append({"clause": "missing_gap_warning_end", "key": key, "detail": f"warnings={names}"})
    return viol, f"rows{i}-{j}|w{len(names)}"


def run_case(case):
    data = make_data(case["kind"], case["zone"], case["shape"])
    idx = data.index
    if case["cut"] == "none":
        # no limit requested at all (end=None / start=None), no max_days: the whole input, under every option combination,
        # and with an explicit opposite limit inside the data
        viol, beh, n = [], [], 0
        for opt in OPTS_BASE:
            for other in (None, idx[len(idx) // 3]):
                v, b = run_baseline(data, None, None, other, opt, {"max_days": False, "limit": "none"})
                viol += [dict(x, detail=f"{x['detail']} | call options end=None start={other} {opt}") for x in v]
                beh.append(b)
                n += 1
        for opt in OPTS_REP:
            for other in (None, idx[2 * len(idx) // 3]):
                v, b = run_reporting(data, None, None, other, opt, {"max_days": False, "limit": "none"})
                viol += [dict(x, detail=f"{x['detail']} | call options start=None end={other} {opt}") for x in v]
                beh.append(b)
                n += 1
        return {"behaviour": beh, "violations": viol, "stats": {"calls": n}}
    LIMIT_FORM["form"] = case.get("limit_form", "timestamp")
    cut = dict(cut_instants(idx))[case["cut"]]
    if case["cut_tz"] == "other":
        cut = cut.tz_convert(OTHER[case["zone"]])
    lab = case["cut"]
    where = "on" if lab.startswith("on") else "mid" if lab.startswith("mid") else lab
    key0 = {}
    viol, beh, n = [], [], 0
    for md in MAX_DAYS:
        for opt in OPTS_BASE:
            v, b = run_baseline(data, cut, md, None, opt, dict(key0, max_days=md is not None))
            viol += [dict(x, sub=dict(max_days=md, **opt)) for x in v]
            beh.append(b)
            n += 1
        for opt in OPTS_REP:
            v, b = run_reporting(data, cut, md, None, opt, dict(key0, max_days=md is not None))
            viol += [dict(x, sub=dict(max_days=md, **opt)) for x in v]
            beh.append(b)
            n += 1
    # explicit opposite limit with max_days=None: inside the data and outside it
    for other_lab, other in (("inside", idx[len(idx) // 3]), ("outside_lo", idx[0] - pd.Timedelta(days=3)),
                             ("outside_hi", idx[-1] + pd.Timedelta(days=3))):
        for opt in (OPTS_BASE[0], OPTS_BASE[6]):
            if other <= cut:
                v, b = run_baseline(data, cut, None, other, opt, dict(key0, max_days=False, explicit=other_lab))
                viol += [dict(x, sub=dict(start=str(other), **opt)) for x in v]
                beh.append(b)
                n += 1
        for opt in (OPTS_REP[0], OPTS_REP[2]):
            if other >= cut:
                v, b = run_reporting(data, cut, None, other, opt, dict(key0, max_days=False, explicit=other_lab))
                viol += [dict(x, sub=dict(end=str(other), **opt)) for x in v]
                beh.append(b)
                n += 1
    for x in viol:
        x["detail"] = f"{x['detail']} | call options {x.pop('sub')} cut={cut}"
    return {"behaviour": beh, "violations": viol, "stats": {"calls": n}}


def run(tier, seed):
    cs = cases(tier)
    with poolmod.Pool() as pool:
        ex = explore.explore(pool, "cut-instants x options", MOD, "run_case", cs, seed=seed)
    cov = explore.merge_coverage(
        [ex],
        rule="one case = (series kind, zone, container shape, cut instant, zone the cut is expressed in); each case calls "
        "get_baseline_data and get_reporting_data under every max_days x option combination; a behaviour is the vector of "
        "(returned row range, warning count | exception) over those calls; all cases are non-trivial",
    )
    cov["calls"] = ex.stats.get("calls", 0)
    return {"level": LEVEL, "coverage": cov, "violations": ex.violations, "assumptions": ASSUMPTIONS}


def replay(rep):
    for k in range(2):
        r = run_case(rep["case"])
        vs = [v for v in r["violations"] if v["clause"] == rep["clause"]]
        print(f"run {k}: {len(r['violations'])} violations, {len(vs)} of clause {rep['clause']}")
        for v in vs[:3]:
            print("  ", v["key"], v["detail"])
    return 1 if vs else 0
