"""C16 -- reported fit statistics are the true statistics of the model predictions.

Small-scope exhaustive enumeration of (observed, predicted) series over a value
alphabet, a full product of structured long series, ReportingMetrics and the
CalTRACK ModelMetrics over them, the hourly poor-fit gate on real model objects
with thresholds placed at value*(1 +- 1e-6), and a handful of real fits
(hourly / daily / billing) whose stored statistics are compared with the
statistics of predict(baseline).  Oracle: mc.refmodels.metrics (Fractions /
fsum, computed from the input pairs alone).
"""
import hashlib
import itertools
import math

import numpy as np
import pandas as pd

from .. import explore, pool as poolmod
from ..refmodels import metrics as ref

PROP = "C16"
LEVEL = "exploration"
MOD = "mc.checks.c16"

ASSUMPTIONS = [
    "'undefined' means None or NaN; +-inf and finite numbers are 'a number'.  For ReportingMetrics and the CalTRACK ModelMetrics "
    "(float-typed, no safety floor of their own, json() nulls non-finite values) +-inf is also accepted as undefined, and so is an "
    "exception raised by the single undefined attribute",
    "the safety floor is the library's own (BaselineMetrics._min_denominator = 1e-3): a ratio whose denominator is <= 1e-3 must be "
    "undefined, one whose denominator is > 1e-3 must equal numerator/denominator (1e-12 relative); a denominator within 1e-9 relative "
    "of the floor accepts both verdicts",
    "variance/std are population forms (ddof=0), quantiles are numpy's default linear interpolation, PNRMSE = RMSE / IQR(observed) for "
    "BaselineMetrics and RMSE / (q95 - q05) for the daily model's error dict (either accepted there), skew/kurtosis are the "
    "bias-corrected sample forms (pandas), MAD is scaled by 1/Phi^-1(0.75): the library's documented choices are accepted",
    "residual sign: observed-predicted or predicted-observed are both textbook; BaselineMetrics must use one of them consistently "
    "across residuals.*, mbe, nmbe, pnmbe; CalTRACK ModelMetrics documents predicted-observed",
    "R-squared is the squared Pearson correlation of predicted and observed (undefined when either has no spread); adjusted "
    "R-squared = 1-(1-R2)(n-1)/(n-p-1), undefined when n-p-1 <= 0",
    "degrees of freedom n-p: where n-p < 1 the library substitutes 1; there both the substituted value and 'undefined' are accepted "
    "for ddof, rmse_adj and everything derived from them (same for n'-p)",
    "lag-1 autocorrelation is the Pearson correlation of the residual sequence of the finite pairs with itself shifted by one "
    "(pandas autocorr); n' = n(1-rho)/(1+rho); where rho is undefined (fewer than 3 pairs, no spread) undefined, 1 and n are accepted; "
    "where 1+rho is exactly zero undefined or the documented fallback 1 are accepted, any other number is a ratio with a zero "
    "denominator reported as a number; the *_autocorr_adj forms and the savings uncertainty are checked as functions of the "
    "library's own reported n' (n' is ill-conditioned near rho=-1), n' itself against the formula",
    "where the spread of the residuals (or of a column) is itself rounding noise of observed-predicted (mean square / variance > 2.5e10) "
    "the autocorrelation / R-squared are not judged; otherwise their tolerance grows with that ratio (4e-15 x ratio)",
    "MAPE is taken over rows with |observed| >= floor (or > floor: both accepted), undefined when there is none",
    "column summary statistics that the statement does not name (cvstd, skew, kurtosis) are only checked where they are defined "
    "(mean > floor; n >= 3 / 4 and a non-negligible variance)",
    "savings = sum(predicted) - sum(observed) over finite reporting pairs; uncertainty = ASHRAE-14: factor * E_rep * t * CV * "
    "sqrt(n/n' * (1+2/n') / m) with factor 1.26 (hourly) or the Guideline's polynomial in the number of reporting months "
    "(daily, billing); CV is the library's cvrmse_autocorr_adj; the t quantile may use n-p or n-p-1 degrees of freedom (both "
    "accepted: the statement does not say whether p counts the intercept); reporting frames keep >= 1 finite row in every month "
    "and stay inside one calendar year so every reading of 'number of months' agrees; fsu with savings == 0 must be non-finite",
    "CalTRACK ModelMetrics: CVRMSE may use mean(observed) or mean(|observed|) (the class documents the latter 'to account for "
    "solar'); n' may use observed_length or merged_length; NMBE/NMAE denominators are sum(observed) and must be safely positive",
    "hourly gate: the model uses the parameter-adjusted forms (cvrmse_adj, pnrmse_adj; named in the warning it emits); a metric "
    "that is undefined cannot pass its threshold; thresholds are never placed exactly at the value",
    "fitted hourly models: the gate at value*(1+-1e-6) is exercised on the fitted object (settings swapped, _model_fit_is_acceptable()); "
    "the end-to-end path through fit() uses thresholds a factor 2 away because two hourly fits of the same data are not bit-identical "
    "(C03's subject), and is judged on the refitted model's own true statistics; stored vs predict(baseline) statistics are two "
    "evaluations of one fitted model and are compared at 1e-9 relative",
    "series of length 1 are outside the quantifier (length >= 2) and are executed but not judged; a series without any finite "
    "pair is rejected (nothing to compute) whatever the class does",
    "daily/billing: the 'pairs they are given' are the rows of predict(baseline) with finite observed and predicted; wRMSE "
    "(a weighted statistic) is not judged",
]

# value alphabet, simplest first
ALPHABET = ["0", "1", "3", "-2", "0.001", "nan", "inf"]
SUB_ALPHABET = ["0", "1", "-2", "0.001", "nan"]  # exhaustive sub-alphabet used for n = 3 in the quick tier
PARAMS = [1, 2, 5]
FREQS = ["hourly", "daily", "billing"]
CONF_TAILS = [(0.9, 2), (0.8, 1)]

KEY_STATS = ["cvrmse", "pnrmse", "nmbe", "r_squared", "r_squared_adj", "mape", "cvrmse_adj", "pnrmse_adj"]


def _f(s):
    return float(s)


# ----------------------------------------------------------------------------------------- observation helpers
def _flatten(d, prefix=""):
    out = {}
    for k, v in d.items():
        if isinstance(v, dict):
            out.update(_flatten(v, prefix + k + "."))
        else:
            out[prefix + k] = v
    return out


def _plain(v):
    if v is None:
        return None
    if isinstance(v, (bool, np.bool_)):
        return bool(v)
    if isinstance(v, (int, np.integer)):
        return int(v)
    if isinstance(v, (float, np.floating)):
        return float(v)
    return v


def _frame(obs, pred, start="2021-01-01", freq="D"):
    idx = pd.date_range(start, periods=len(obs), freq=freq)
    return pd.DataFrame({"observed": np.array(obs, dtype="float64"), "predicted": np.array(pred, dtype="float64")}, index=idx)


def _short(x):
    if isinstance(x, float):
        return repr(x)
    return str(x)


class Collector:
    """Keeps at most `cap` violations per (clause, key) group, counts all of them."""

    def __init__(self, cap=2):
        self.cap = cap
        self.groups = {}
        self.viol = []
        self.counts = {}

    def add(self, clause, key, detail, case):
        g = (clause, tuple(sorted(key.items())))
        self.counts["violations:" + clause] = self.counts.get("violations:" + clause, 0) + 1
        k = self.groups.get(g, 0)
        self.groups[g] = k + 1
        if k < self.cap:
            self.viol.append({"clause": clause, "key": key, "detail": detail, "case": case})


# ----------------------------------------------------------------------------------------- BaselineMetrics
def _compare(flat, acc, skip=()):
    bad = []
    for stat, acceptance in acc.items():
        if stat in skip:
            continue
        if stat not in flat:
            bad.append((stat, "<missing>", acceptance))
            continue
        if not ref.accepts(flat[stat], acceptance):
            bad.append((stat, flat[stat], acceptance))
    return bad


DEGENERATE_RHO = {
    "rho=-1": "the lag-1 autocorrelation of the residuals is exactly -1, so n(1-rho)/(1+rho) has a zero denominator",
    "rho_undefined": "the residuals (or their lag) have no spread, so their lag-1 autocorrelation is 0/0",
}


def check_baseline(obs, pred, p, col, sub, dtype=None):
    """Runs BaselineMetrics on the frame and judges every exposed statistic.  Returns (bm, flat, info) or (None, None, info)."""
    from opendsm.common.metrics import BaselineMetrics

    o, q = ref.finite_pairs(obs, pred)
    nfin = len(o)
    info = {"n": nfin}
    try:
        bm = BaselineMetrics(df=_frame(obs, pred) if dtype is None else _frame(obs, pred).astype(dtype), num_model_params=p)
        flat = {k: _plain(v) for k, v in _flatten(bm.model_dump()).items()}
    except Exception as exc:  # noqa
        info["raised"] = type(exc).__name__
        if nfin >= 2:
            col.add("crash", {"cls": "BaselineMetrics", "exc": type(exc).__name__},
                    f"BaselineMetrics(...).model_dump() raised {type(exc).__name__}: {str(exc)[:200]} on {nfin} finite pairs", sub)
        return None, None, info
    if nfin == 0:
        return bm, flat, info
    acc, rinfo = ref.baseline_reference(obs, pred, p, +1, flat.get("n_prime"))
    bad = _compare(flat, acc, skip=("num_model_params",))
    if any(s in ("residuals.sum", "residuals.mean", "mbe") for s, _, _ in bad):
        acc2, rinfo2 = ref.baseline_reference(obs, pred, p, -1, flat.get("n_prime"))
        bad2 = _compare(flat, acc2)
        if len(bad2) < len(bad):
            acc, rinfo, bad = acc2, rinfo2, bad2
            info["sign"] = -1
    info.update(rinfo)
    info["unmapped"] = sorted(set(flat) - set(acc) - {"num_model_params"})
    for stat, got, acceptance in bad:
        gc = ref.classify(got)
        exp = ref.describe(acceptance)
        only_undef = all(a[0] == "undef" for a in acceptance)
        if stat in ref.RATIO_DENS and only_undef and gc in ("num", "+inf", "-inf"):
            dn = ref.RATIO_DENS[stat]
            col.add("undefined_ratio_reported_as_number",
                    {"cls": "BaselineMetrics", "den": "observed." + dn, "den_class": rinfo["den_class"][dn]},
                    f"{stat} = {_short(got)} but its denominator observed.{dn} = {rinfo['den'][dn]!r} is not above the safety floor "
                    f"{ref.FLOOR}: expected undefined (None)", sub)
        elif stat == "r_squared_adj" and only_undef and gc in ("num", "+inf", "-inf"):
            col.add("undefined_ratio_reported_as_number",
                    {"cls": "BaselineMetrics", "den": "n-p-1", "den_class": "zero" if rinfo.get("r2adj_class") == "dof-1<=0" else "r2_undefined"},
                    f"r_squared_adj = {_short(got)} with n={nfin}, p={p} (n-p-1 <= 0 or R2 undefined): expected undefined", sub)
        elif stat == "n_prime" and rinfo.get("n_prime_class") in DEGENERATE_RHO:
            col.add("n_prime_degenerate_autocorrelation", {"cls": "BaselineMetrics", "rho": rinfo["n_prime_class"]},
                    f"{DEGENERATE_RHO[rinfo['n_prime_class']]}; reported n_prime = {_short(got)} (expected {exp})", sub)
        else:
            col.add("formula_mismatch", {"cls": "BaselineMetrics", "stat": stat, "got": gc},
                    f"{stat}: reported {_short(got)}, formula on the {nfin} finite pairs gives {exp} (p={p})", sub)
    # identities between reported numbers
    def fin(k):
        v = flat.get(k)
        return v if ref.classify(v) == "num" else None

    ids = []
    if fin("mse") is not None and fin("sse") is not None:
        ids.append(("mse*n == sse", fin("mse") * nfin, fin("sse")))
    if fin("rmse") is not None and fin("mse") is not None:
        ids.append(("rmse^2 == mse", fin("rmse") ** 2, fin("mse")))
    if fin("cvrmse") is not None and fin("observed.mean") is not None and fin("rmse") is not None:
        ids.append(("cvrmse*mean == rmse", fin("cvrmse") * fin("observed.mean"), fin("rmse")))
    if fin("pnrmse") is not None and fin("observed.iqr") is not None and fin("rmse") is not None:
        ids.append(("pnrmse*iqr == rmse", fin("pnrmse") * fin("observed.iqr"), fin("rmse")))
    for name, a, b in ids:
        if abs(a - b) > 1e-14 * max(abs(a), abs(b)) + 1e-300:
            col.add("identity", {"cls": "BaselineMetrics", "identity": name}, f"{name}: {a!r} vs {b!r}", sub)
    return bm, flat, info


# ----------------------------------------------------------------------------------------- hourly gate
def _gate_readings(acceptance):
    out = []
    for a in acceptance:
        if a[0] == "num":
            out.append(a[1])
        elif a[0] == "undef":
            out.append(None)
    return out or [None]


def _thresholds(v):
    if v is None:
        return [("any_lo", 0.5), ("any_hi", 1e9)]
    d = 1e-6 * abs(v) if v != 0 else 1e-9
    return [("below", v - d), ("above", v + d)]


def check_hourly_gate(bm, flat, info, col, sub, stats):
    from opendsm.eemeter.models.hourly import settings as hset
    from opendsm.eemeter.models.hourly.model import HourlyModel

    cvs, pns = _gate_readings(info["gate"]["cv"]), _gate_readings(info["gate"]["pn"])
    beh = []
    for (lc, tc), (lp, tp) in itertools.product(_thresholds(cvs[0]), _thresholds(pns[0])):
        admissible = set()
        for cv in cvs:
            for pn in pns:
                admissible.add(bool((cv is not None and cv < tc) or (pn is not None and pn < tp)))
        try:
            m = HourlyModel(settings=hset.HourlyNonSolarSettings(cvrmse_threshold=tc, pnrmse_threshold=tp))
            m.baseline_metrics = bm
            got = bool(m._model_fit_is_acceptable())
        except Exception as exc:  # noqa
            col.add("crash", {"cls": "HourlyModel._model_fit_is_acceptable", "exc": type(exc).__name__}, str(exc)[:200], sub)
            continue
        stats["gate_calls"] = stats.get("gate_calls", 0) + 1
        beh.append(f"{lc}/{lp}:{'ok' if got else 'dq'}")
        stats[f"gate:{'acceptable' if got else 'disqualified'}"] = stats.get(f"gate:{'acceptable' if got else 'disqualified'}", 0) + 1
        if got not in admissible:
            col.add("hourly_gate",
                    {"expected": "disqualified" if got else "acceptable",
                     "cvrmse_adj_ref": "undefined" if cvs == [None] else "number", "pnrmse_adj_ref": "undefined" if pns == [None] else "number"},
                    f"_model_fit_is_acceptable() -> {got} with cvrmse_threshold={tc!r}, pnrmse_threshold={tp!r}; true cvrmse_adj = "
                    f"{ref.describe(info['gate']['cv'])}, true pnrmse_adj = {ref.describe(info['gate']['pn'])}; library reports cvrmse_adj="
                    f"{_short(flat.get('cvrmse_adj'))}, pnrmse_adj={_short(flat.get('pnrmse_adj'))}.  A model is disqualified exactly when "
                    f"it misses both thresholds, and an undefined metric cannot pass", sub)
    return beh


# ----------------------------------------------------------------------------------------- ReportingMetrics
def reporting_frames():
    """name -> (frame, number of reporting months).  Every month keeps a finite row; all inside 2021."""
    nan, inf = float("nan"), float("inf")
    out = {}
    out["jan4"] = (_frame([1, 2, 3, 2], [2, 2, 4, 3], "2021-01-04"), 1)
    idx = pd.DatetimeIndex(["2021-01-10", "2021-01-20", "2021-02-10", "2021-02-20", "2021-03-05", "2021-03-15", "2021-03-25"])
    out["q1_dirty"] = (pd.DataFrame({"observed": [3.0, nan, 4.0, 2.0, 5.0, 1.0, 2.0], "predicted": [2.0, 1.0, 3.0, inf, 4.0, 1.5, nan]}, index=idx), 3)
    out["zero_savings"] = (_frame([1, 3], [3, 1], "2021-06-01"), 1)
    # whole-number readings (exact in every numeric dtype); usage went UP, so the savings are negative
    out["whole_up"] = (_frame([130, 141, 152, 127, 160, 155], [120, 131, 150, 129, 140, 150], "2021-02-01"), 1)
    t = np.arange(300.0)
    o = 10 + 3 * np.sin(2 * np.pi * t / 7) + 0.01 * t
    out["ten_months"] = (_frame(o, o * 1.1, "2021-01-01"), 10)
    return out


_RF = None
REPORT_FIELDS = ["n", "observed_sum", "predicted_sum", "t_stat", "savings", "total_savings_uncertainty", "fsu", "predicted_data_point_unc"]


def check_reporting(bm, flat, col, sub, stats, frames, conf_tails):
    from opendsm.common.metrics import ReportingMetrics

    global _RF
    if _RF is None:
        _RF = reporting_frames()
    base = {"n": flat["n"], "n_prime": flat["n_prime"], "ddof": flat["ddof"], "cv": flat["cvrmse_autocorr_adj"]}
    beh = []
    for fname in frames:
        rdf, months = _RF[fname]
        ro, rp = rdf["observed"].tolist(), rdf["predicted"].tolist()
        if sub.get("dtype"):
            rdf = rdf.astype(sub["dtype"])
        for freq in FREQS:
            for conf, tails in conf_tails:
                rsub = dict(sub, reporting=fname, freq=freq, conf=conf, tails=tails)
                stats["reporting_calls"] = stats.get("reporting_calls", 0) + 1
                try:
                    rm = ReportingMetrics(baseline_metrics=bm, reporting_df=rdf, data_frequency=freq, confidence_level=conf, t_tail=tails)
                except Exception as exc:  # noqa
                    col.add("crash", {"cls": "ReportingMetrics()", "exc": type(exc).__name__}, str(exc)[:200], rsub)
                    continue
                got = {}
                try:
                    d = rm.model_dump()
                    got = {k: _plain(d.get(k)) for k in REPORT_FIELDS}
                    unm = set(d) - set(REPORT_FIELDS) - {"data_frequency", "confidence_level", "t_tail"}
                    if unm:
                        stats["unmapped_reporting_fields"] = stats.get("unmapped_reporting_fields", 0) + 1
                    dumped = True
                except Exception as exc:  # noqa
                    dumped = False
                    col.add("dump_raises", {"cls": "ReportingMetrics", "exc": type(exc).__name__},
                            f"ReportingMetrics.model_dump() raised {type(exc).__name__}: {str(exc)[:160]}; savings and sums are defined but "
                            f"cannot be reported (baseline cvrmse_autocorr_adj={_short(base['cv'])}, n_prime={_short(base['n_prime'])})", rsub)
                    for k in REPORT_FIELDS:
                        try:
                            got[k] = _plain(getattr(rm, k))
                        except Exception as e2:  # noqa
                            got[k] = ("raised", type(e2).__name__)
                acc = ref.reporting_reference(base, ro, rp, months, freq, conf, tails)
                beh.append(f"{fname}/{freq}/{tails}:{'dump' if dumped else 'raise'}:{ref.classify(got.get('total_savings_uncertainty')) if not isinstance(got.get('total_savings_uncertainty'), tuple) else 'raised'}")
                for stat, acceptance in acc.items():
                    g = got.get(stat)
                    if isinstance(g, tuple):
                        if any(a[0] in ("nonfinite", "undef", "any") for a in acceptance):
                            continue
                        col.add("formula_mismatch", {"cls": "ReportingMetrics", "stat": stat, "got": "raised"},
                                f"{stat} raised {g[1]}, expected {ref.describe(acceptance)}", rsub)
                    elif not ref.accepts(g, acceptance):
                        col.add("formula_mismatch", {"cls": "ReportingMetrics", "stat": stat, "got": ref.classify(g)},
                                f"{stat}: reported {_short(g)}, formula gives {ref.describe(acceptance)} (baseline n={base['n']}, n'={base['n_prime']!r}, "
                                f"ddof={base['ddof']}, cv={_short(base['cv'])}; frame {fname}, {freq}, conf={conf}, tails={tails})", rsub)
    return beh


# ----------------------------------------------------------------------------------------- CalTRACK ModelMetrics
CALTRACK_FIELDS = [
    "merged_length", "observed_mean", "predicted_mean", "observed_variance", "predicted_variance", "observed_skew", "predicted_skew",
    "observed_kurtosis", "predicted_kurtosis", "observed_cvstd", "predicted_cvstd", "r_squared", "r_squared_adj", "rmse", "rmse_adj",
    "cvrmse", "cvrmse_adj", "mape", "mape_no_zeros", "num_meter_zeros", "nmae", "nmbe", "autocorr_resid", "n_prime",
    "single_tailed_confidence_level", "degrees_of_freedom", "t_stat", "cvrmse_auto_corr_correction",
    "approx_factor_auto_corr_correction", "fsu_base_term",
]


def check_caltrack(obs, pred, p, col, sub, stats):
    from opendsm.eemeter.models.hourly_caltrack.metrics import ModelMetrics

    df = _frame(obs, pred, freq="h")
    o, q = ref.finite_pairs(obs, pred)
    stats["caltrack_calls"] = stats.get("caltrack_calls", 0) + 1
    try:
        mm = ModelMetrics(df["observed"], df["predicted"], num_parameters=p, confidence_level=0.9)
    except Exception as exc:  # noqa
        if len(o) >= 2:
            col.add("crash", {"cls": "caltrack.ModelMetrics", "exc": type(exc).__name__}, str(exc)[:200], sub)
        return "raise"
    got = {k: _plain(getattr(mm, k, "<missing>")) for k in CALTRACK_FIELDS + ["observed_length"]}
    has_inf = any(math.isinf(float(a)) or math.isinf(float(b)) for a, b in zip(obs, pred))
    if has_inf and got["merged_length"] != len(o):
        col.add("nonfinite_row_not_excluded", {"cls": "caltrack.ModelMetrics", "rows": "inf"},
                f"merged_length = {got['merged_length']} but there are {len(o)} finite pairs: rows holding +-inf are kept, so rmse = "
                f"{_short(got['rmse'])}, cvrmse = {_short(got['cvrmse'])}", sub)
        return "inf_kept"
    acc, rinfo = ref.caltrack_reference(obs, pred, p, 0.9, got)
    if acc is None:
        return "no_pairs"
    for stat, acceptance in acc.items():
        g = got.get(stat)
        if ref.accepts(g, acceptance):
            continue
        gc = ref.classify(g)
        if stat in ("nmae", "nmbe") and rinfo["den_class"]["sum_observed"] != "ok" and gc == "num":
            col.add("undefined_ratio_reported_as_number",
                    {"cls": "caltrack.ModelMetrics", "den": "sum(observed)", "den_class": rinfo["den_class"]["sum_observed"]},
                    f"{stat} = {_short(g)} although mean(observed) is not safely positive: expected undefined", sub)
        elif stat in ("n_prime", "autocorr_resid") and rinfo.get("n_prime_class") in DEGENERATE_RHO:
            col.add("n_prime_degenerate_autocorrelation", {"cls": "caltrack.ModelMetrics", "rho": rinfo["n_prime_class"]},
                    f"{DEGENERATE_RHO[rinfo['n_prime_class']]}; reported {stat} = {_short(g)} (expected {ref.describe(acceptance)})", sub)
        else:
            col.add("formula_mismatch", {"cls": "caltrack.ModelMetrics", "stat": stat, "got": gc},
                    f"{stat}: reported {_short(g)}, formula on the {len(o)} finite pairs gives {ref.describe(acceptance)} (p={p})", sub)
    return f"ok:{rinfo.get('n_prime_class')}:{ref.classify(got['fsu_base_term'])}"


# ----------------------------------------------------------------------------------------- one pair
def run_pair(obs, pred, p, col, stats, sub, reporting=(), conf_tails=CONF_TAILS[:1], caltrack=False, judge=True, dtype=None):
    """Everything done on one (observed, predicted, p).  Returns a compact behaviour string."""
    jcol = col if judge else Collector()
    bm, flat, info = check_baseline(obs, pred, p, jcol, sub, dtype=dtype)
    stats["baseline_dumps"] = stats.get("baseline_dumps", 0) + 1
    if bm is None:
        return f"raise:{info.get('raised')}:n{info['n']}"
    if info["n"] == 0:
        return "n0"
    sig = [f"n{min(info['n'], 4)}", info.get("n_prime_class", "")] + [ref.classify(flat.get(k))[:2] for k in KEY_STATS]
    stats[f"finite_pairs:{min(info['n'], 4)}{'+' if info['n'] >= 4 else ''}"] = stats.get(f"finite_pairs:{min(info['n'], 4)}{'+' if info['n'] >= 4 else ''}", 0) + 1
    for k in ("cvrmse", "pnrmse", "r_squared_adj"):
        kk = f"{k}:{ref.classify(flat.get(k))}"
        stats[kk] = stats.get(kk, 0) + 1
    kk = "n_prime_class:" + info.get("n_prime_class", "")
    stats[kk] = stats.get(kk, 0) + 1
    if info.get("unmapped"):
        stats["unmapped_baseline_fields"] = stats.get("unmapped_baseline_fields", 0) + len(info["unmapped"])
    sig += check_hourly_gate(bm, flat, info, jcol, sub, stats)
    if reporting:
        sig += check_reporting(bm, flat, jcol, sub, stats, reporting, conf_tails)
    if caltrack:
        sig.append(check_caltrack(obs, pred, p, jcol, sub, stats))
    return "|".join(sig)


# ----------------------------------------------------------------------------------------- structured series (b)
OBS_KINDS = ["constant", "constant_tenth", "linear", "alternating", "zero_mean", "tiny_mean", "neg_mean", "mixed_sign", "noisy", "zeros"]
PRED_KINDS = ["perfect", "offset", "scaled", "alt_err", "trend_err", "noisy_err", "small_err", "const_pred"]
CONTAM = ["none", "nan_obs", "nan_pred", "inf_obs", "inf_pred", "mixed"]
LENGTHS = [24, 25, 100, 400]


def make_struct(obs_kind, pred_kind, L, contam):
    t = np.arange(L, dtype="float64")
    alt = np.where(t % 2 == 0, 1.0, -1.0)
    if obs_kind == "constant":
        o = np.full(L, 3.0)
    elif obs_kind == "constant_tenth":
        o = np.full(L, 0.1)
    elif obs_kind == "linear":
        o = 1 + 0.5 * t
    elif obs_kind == "alternating":
        o = 2 + alt
    elif obs_kind == "zero_mean":
        o = t - (L - 1) / 2.0
    elif obs_kind == "tiny_mean":
        o = alt * 1.0 + (0.0005 if L % 2 == 0 else 0.0005 - 1.0 / L)
    elif obs_kind == "neg_mean":
        o = -3 + 2 * ((t * 7) % 11) / 11.0
    elif obs_kind == "mixed_sign":
        o = 0.5 + alt * ((t % 5) / 2.0)
    elif obs_kind == "noisy":
        o = 10 + 3 * np.sin(2 * np.pi * t / 24) + np.random.default_rng(17).normal(0, 1, L)
    elif obs_kind == "zeros":
        o = np.zeros(L)
    else:
        raise ValueError(obs_kind)
    if pred_kind == "perfect":
        q = o.copy()
    elif pred_kind == "offset":
        q = o + 0.25
    elif pred_kind == "scaled":
        q = 0.9 * o
    elif pred_kind == "alt_err":
        q = o + 0.5 * alt
    elif pred_kind == "trend_err":
        q = o + 0.01 * t
    elif pred_kind == "noisy_err":
        e = np.random.default_rng(23).normal(0, 0.3, L)
        for i in range(1, L):
            e[i] = 0.5 * e[i - 1] + e[i]
        q = o + e
    elif pred_kind == "small_err":
        q = o + 0.001 * alt
    elif pred_kind == "const_pred":
        q = np.full(L, 2.0)
    else:
        raise ValueError(pred_kind)
    o, q = o.copy(), q.copy()
    nan, inf = np.nan, np.inf
    if contam == "nan_obs":
        o[[3, 10]] = nan
    elif contam == "nan_pred":
        q[[3, 10]] = nan
    elif contam == "inf_obs":
        o[[4, 11]] = inf
    elif contam == "inf_pred":
        q[[4, 11]] = -inf
    elif contam == "mixed":
        o[1] = nan
        q[5] = inf
        o[7] = nan
        q[7] = nan
        o[L - 1] = -inf
    return o.tolist(), q.tolist()


# ----------------------------------------------------------------------------------------- real fits (d)
def _hourly_truth(m, em, data, measured, col, sub, stats, label):
    """stored baseline_metrics of model m vs the reference statistics of m.predict(baseline) on measured hours"""
    stored = {k: _plain(v) for k, v in _flatten(m.baseline_metrics.model_dump()).items()}
    p = stored["num_model_params"]
    pr = m.predict(em.HourlyBaselineData(data(), is_electricity_data=True), ignore_disqualification=True)
    if len(pr) != len(measured):
        return None
    obs = pr["observed"].to_numpy()[measured].tolist()
    pred = pr["predicted"].to_numpy()[measured].tolist()
    acc, info = ref.baseline_reference(obs, pred, p, +1, stored.get("n_prime"))
    for stat, got, acceptance in _compare(stored, acc):
        # two different evaluations of the same fitted model: 1e-9 relative
        if any(a[0] == "num" and ref.classify(got) == "num" and abs(got - a[1]) <= 1e-9 * max(abs(a[1]), 1e-12) + a[2] for a in acceptance):
            continue
        col.add("stored_metrics_differ_from_predict", {"cls": "HourlyModel.baseline_metrics"},
                f"[{label}] stored baseline_metrics.{stat} = {_short(got)}; statistics of predict(baseline) on the {len(obs)} measured "
                f"(non-interpolated) hours: {ref.describe(acceptance)}", sub)
    stats["stored_stats_compared"] = stats.get("stored_stats_compared", 0) + len(acc)
    return _gate_readings(info["gate"]["cv"])[0], _gate_readings(info["gate"]["pn"])[0], len(obs), p


def _fit_hourly(case, col, stats):
    from opendsm import eemeter as em
    from opendsm.eemeter.models.hourly import settings as hset

    from .. import datasets

    def data():
        df = datasets.hourly_frame(days=365, solar=case.get("solar", False))
        df.iloc[100:103, df.columns.get_loc("observed")] = np.nan
        # a 14-hour meter outage in January: that day falls below the training threshold and is left out of the fit - before the
        # March clock change, so the day positions of the training subset and of the whole baseline differ from then on
        df.iloc[480:494, df.columns.get_loc("observed")] = np.nan
        df.iloc[2000:2002, df.columns.get_loc("temperature")] = np.nan
        if "ghi" in df.columns:
            # gaps in the irradiance feed at hours whose meter and temperature readings are present: filled by the data class,
            # flagged interpolated_ghi, and therefore not "non-interpolated hours"
            for a in (3000, 4200, 5100, 6000, 7000):
                df.iloc[a:a + 40, df.columns.get_loc("ghi")] = np.nan
        return df

    S = hset.HourlySolarSettings if case.get("solar") else hset.HourlyNonSolarSettings
    if case.get("ghi_ignored"):
        # the frame carries (gappy) irradiance, the model is told not to use it: which hours are "non-interpolated" is a fact
        # about the data, not about the features the model uses
        def S(**kw):
            return hset.HourlyNonSolarSettings(train_features=["temperature"], **kw)
    raw = data()
    measured = (raw["observed"].notna() & raw["temperature"].notna()).to_numpy()
    if "ghi" in raw.columns:
        measured = measured & raw["ghi"].notna().to_numpy()
    sub = dict(case)
    m = em.HourlyModel(settings=S()).fit(em.HourlyBaselineData(data(), is_electricity_data=True))
    t1 = _hourly_truth(m, em, data, measured, col, sub, stats, "default thresholds")
    if t1 is None:
        return {"rejected": "predict(baseline) row count differs from the input (C06 territory)"}
    cv1, pn1 = t1[0], t1[1]
    if cv1 is None or pn1 is None:
        return {"rejected": "fitted metrics undefined"}
    # (i) the gate of the fitted object itself, thresholds at value*(1 +- 1e-6), no refit
    beh = []
    for (lc, fc), (lp, fp) in itertools.product((("below", 1 - 1e-6), ("above", 1 + 1e-6)), repeat=2):
        tc, tp = cv1 * fc, pn1 * fp
        m.settings = S(cvrmse_threshold=tc, pnrmse_threshold=tp)
        got = bool(m._model_fit_is_acceptable())
        stats["gate_calls_fitted"] = stats.get("gate_calls_fitted", 0) + 1
        beh.append(f"{lc}/{lp}:{'ok' if got else 'dq'}")
        if got != bool(cv1 < tc or pn1 < tp):
            col.add("hourly_gate_fit", {"expected": "disqualified" if got else "acceptable", "how": "fitted object"},
                    f"fitted model with cvrmse_threshold={tc!r}, pnrmse_threshold={tp!r}: _model_fit_is_acceptable() -> {got}; true "
                    f"cvrmse_adj={cv1!r}, pnrmse_adj={pn1!r}", sub)
    # (ii) end to end through fit(): thresholds a factor 2 away from the value (the hourly fit is not bit-reproducible --
    # C03's subject -- so a refit cannot be placed within 1e-6 of its own statistic); judged on the refitted model's own truth
    fac = {"lo": 0.5, "hi": 2.0}
    tc, tp = cv1 * fac[case["cv_thr"]], pn1 * fac[case["pn_thr"]]
    m2 = em.HourlyModel(settings=S(cvrmse_threshold=tc, pnrmse_threshold=tp)).fit(em.HourlyBaselineData(data(), is_electricity_data=True))
    cv, pn, n, p = _hourly_truth(m2, em, data, measured, col, sub, stats, "refit with thresholds")
    if cv is None or pn is None or abs(cv / tc - 1) < 1e-9 or abs(pn / tp - 1) < 1e-9:
        return {"rejected": "refit moved a statistic onto its threshold (fit not reproducible; C03)"}
    if not (cv == cv1 and pn == pn1):
        stats["refit_not_bit_identical"] = 1
    dq = "eemeter.model_fit_metrics" in [w.qualified_name for w in m2.disqualification]
    expected = not (cv < tc or pn < tp)
    if dq != expected:
        col.add("hourly_gate_fit", {"expected": "disqualified" if expected else "acceptable", "how": "fit()"},
                f"fit with cvrmse_threshold={tc!r}, pnrmse_threshold={tp!r}: poor-fit disqualification {'present' if dq else 'absent'}; "
                f"true cvrmse_adj={cv!r}, pnrmse_adj={pn!r} of this model's predict(baseline)", sub)
    return {"behaviour": {"n": n, "dq": dq, "cv_side": "pass" if cv < tc else "miss", "pn_side": "pass" if pn < tp else "miss",
                          "object_gate": beh}}


def _daily_truth(m, data, Model, col, sub, stats, label):
    err = {k: float(v) for k, v in m.error.items()}
    pr = m.predict(data(), ignore_disqualification=True)
    o, q = ref.finite_pairs(pr["observed"].tolist(), pr["predicted"].tolist())
    n = len(o)
    e = [a - b for a, b in zip(o, q)]
    rmse = math.sqrt(math.fsum(x * x for x in e) / n)
    mae = math.fsum(abs(x) for x in e) / n
    mean_o = math.fsum(o) / n
    s = sorted(o)

    def qt(f):
        pos = f * (n - 1)
        lo = int(math.floor(pos))
        return s[lo] + (s[min(lo + 1, n - 1)] - s[lo]) * (pos - lo)

    true = {"RMSE": [rmse], "MAE": [mae], "CVRMSE": [rmse / mean_o], "PNRMSE": [rmse / (qt(0.95) - qt(0.05)), rmse / (qt(0.75) - qt(0.25))]}
    for k, vals in true.items():
        if not any(abs(err[k] - v) <= 1e-9 * abs(v) for v in vals):
            col.add("stored_metrics_differ_from_predict", {"cls": f"{Model.__name__}.error"},
                    f"[{label}] model.error[{k!r}] = {err[k]!r}; the same statistic of predict(baseline) over its {n} finite rows is "
                    f"{' or '.join(repr(v) for v in vals)} (relative difference {abs(err[k] - vals[0]) / abs(vals[0]):.2e})", sub)
    stats["stored_stats_compared"] = stats.get("stored_stats_compared", 0) + len(true)
    return rmse / mean_o, n, abs(err["RMSE"] - rmse) / rmse


def _fit_daily(case, col, stats):
    from opendsm import eemeter as em

    from .. import datasets

    df = datasets.daily_frame(days=365, noise=case["noise"])
    if case.get("export"):
        # a PV customer: every fourth day the site exports more than it uses (negative usage), the yearly mean stays positive
        df["observed"] = df["observed"] - np.where(np.arange(len(df)) % 4 == 0, 1.6 * float(df["observed"].mean()), 0.0)

    def data():
        if case["family"] == "daily":
            return em.DailyBaselineData(df.copy(), is_electricity_data=True)
        reads = datasets.billing_reads(df["observed"])
        return em.BillingBaselineData.from_series(reads, df["temperature"], is_electricity_data=True)

    Model = em.DailyModel if case["family"] == "daily" else em.BillingModel
    sub = dict(case)
    m = Model().fit(data())
    cv1, _, _ = _daily_truth(m, data, Model, col, sub, stats, "default threshold")
    thr = cv1 * {"lo": 1 - 1e-6, "hi": 1 + 1e-6}[case["thr"]]
    m2 = Model(settings={"developer_mode": True, "silent_developer_mode": True, "cvrmse_threshold": thr}).fit(data())
    cv, n, rel = _daily_truth(m2, data, Model, col, sub, stats, "threshold at value*(1+-1e-6)")
    # the FIRST model's reported statistics are still its own after another model of the family has been fitted
    other = Model().fit(Model is em.DailyModel and em.DailyBaselineData(datasets.daily_frame(days=365, noise=0.02, seed=9, base=60.0), is_electricity_data=True)
                        or em.BillingBaselineData.from_series(datasets.billing_reads(datasets.daily_frame(days=365, noise=0.02, seed=9, base=60.0)["observed"]),
                                                              datasets.daily_frame(days=365, noise=0.02, seed=9, base=60.0)["temperature"], is_electricity_data=True))
    _daily_truth(m, data, Model, col, sub, stats, "first model, re-read after fits of other models")
    del other
    if abs(cv / thr - 1) < 1e-9:
        return {"rejected": "refit moved CVRMSE onto its threshold (fit not reproducible; C03)"}
    if cv != cv1:
        stats["refit_not_bit_identical"] = 1
    dq = "eemeter.model_fit_metrics.cvrmse" in [w.qualified_name for w in m2.disqualification]
    expected = cv > thr
    if dq != expected:
        col.add("daily_gate_fit", {"cls": Model.__name__, "expected": "disqualified" if expected else "acceptable"},
                f"fit with cvrmse_threshold={thr!r}: CVRMSE disqualification {'present' if dq else 'absent'}; CVRMSE of this model's "
                f"predict(baseline) = {cv!r}, model.error['CVRMSE'] = {m2.error['CVRMSE']!r}", sub)
    return {"behaviour": {"n": n, "dq": dq, "side": "exceeds" if cv > thr else "within",
                          "rel_diff_rmse": float(f"{rel:.1e}")}}


# ----------------------------------------------------------------------------------------- case dispatch
def run_case(case):
    kind = case["kind"]
    col = Collector()
    stats = {}
    if kind == "meta":
        from opendsm.common.metrics import ModelChoice

        vals = sorted({m.value for m in ModelChoice.__members__.values()})
        if vals != sorted(FREQS):
            col.add("coverage_gap", {"what": "data_frequency"}, f"ReportingMetrics accepts {vals}, the check enumerates {FREQS}", case)
        return {"behaviour": vals, "violations": col.viol, "nontrivial": False}
    if kind == "small":
        obs = [_f(s) for s in case["obs"]]
        alpha = ALPHABET if case["alpha"] == "full" else SUB_ALPHABET
        n = len(obs)
        judge = n >= 2
        beh = {}
        nontrivial = False
        for predt in itertools.product(alpha, repeat=n):
            pred = [_f(s) for s in predt]
            for p in PARAMS:
                sub = {"kind": "pair", "obs": case["obs"], "pred": list(predt), "p": p, "reporting": case.get("reporting", False)}
                rep = ("jan4", "q1_dirty", "zero_savings") if case.get("reporting") else ()
                b = run_pair(obs, pred, p, col, stats, sub, reporting=rep, judge=judge)
                beh[b] = beh.get(b, 0) + 1
                if not b.startswith(("raise", "n0", "n1")):
                    nontrivial = True
        if not judge:
            return {"rejected": "series of length 1: outside the quantifier (length >= 2); executed, not judged"}
        if all(k.startswith(("n0", "raise")) for k in beh) and not col.viol:
            return {"rejected": "no finite pair for any predicted series (observed has no finite value)"}
        stats.update(col.counts)
        items = sorted(beh.items())
        digest = hashlib.sha256(repr(items).encode()).hexdigest()[:16]
        top = [[k[:160], v] for k, v in sorted(items, key=lambda kv: (-kv[1], kv[0]))[:4]]
        return {"behaviour": {"distinct_outcomes": len(items), "digest": digest, "most_common": top},
                "violations": col.viol, "stats": stats, "nontrivial": nontrivial}
    if kind == "pair":  # a single sub-case (replay)
        obs, pred = [_f(s) for s in case["obs"]], [_f(s) for s in case["pred"]]
        rep = ("jan4", "q1_dirty", "zero_savings") if case.get("reporting") else ()
        col = Collector(cap=50)
        b = run_pair(obs, pred, case["p"], col, stats, {k: v for k, v in case.items() if k not in ("freq", "conf", "tails")}, reporting=rep)
        return {"behaviour": b, "violations": col.viol, "stats": stats}
    if kind == "struct":
        obs, pred = make_struct(case["obs_kind"], case["pred_kind"], case["length"], case["contam"])
        beh = []
        col = Collector(cap=1 if "p" not in case else 50)
        for p in ([case["p"]] if "p" in case else PARAMS):
            sub = {k: case[k] for k in ("kind", "obs_kind", "pred_kind", "length", "contam")}
            sub["p"] = p
            beh.append(run_pair(obs, pred, p, col, stats, sub, reporting=("jan4", "q1_dirty", "zero_savings", "ten_months"),
                                conf_tails=CONF_TAILS, caltrack=True))
        stats.update(col.counts)
        return {"behaviour": [b[:240] + "#" + hashlib.sha256(b.encode()).hexdigest()[:12] for b in beh], "violations": col.viol, "stats": stats}
    if kind == "dtype":
        # whole-number series handed over in another numeric dtype: every statistic is the one of the same numbers as float64
        L = case["length"]
        t = np.arange(L)
        obs = (100 + (7 * t) % 23).astype("float64")
        pred = obs + ((5 * t) % 9 - 4)
        col = Collector(cap=50)
        beh = []
        for p in PARAMS:
            sub = {"kind": "dtype", "dtype": case["dtype"], "length": L, "p": p}
            beh.append(run_pair(obs.tolist(), pred.tolist(), p, col, stats, sub, reporting=("whole_up",), conf_tails=CONF_TAILS[:1], dtype=case["dtype"]))
        for v in col.viol:
            v["key"] = dict(v["key"], dtype=case["dtype"])
        stats.update(col.counts)
        return {"behaviour": [b[:200] for b in beh], "violations": col.viol, "stats": stats}
    if kind == "fit":
        col = Collector(cap=50)
        res = _fit_hourly(case, col, stats) if case["family"] == "hourly" else _fit_daily(case, col, stats)
        stats.update(col.counts)
        res.setdefault("violations", col.viol)
        res.setdefault("stats", stats)
        return res
    raise ValueError(kind)


# ----------------------------------------------------------------------------------------- spaces
def small_cases(tier):
    out = []
    for n in (1, 2):
        for obs in itertools.product(ALPHABET, repeat=n):
            out.append({"kind": "small", "obs": list(obs), "alpha": "full", "reporting": True})
    alpha = "full" if tier == "thorough" else "sub"
    for obs in itertools.product(ALPHABET if alpha == "full" else SUB_ALPHABET, repeat=3):
        out.append({"kind": "small", "obs": list(obs), "alpha": alpha, "reporting": False})
    if tier == "thorough":
        # ReportingMetrics over the n = 3 sub-alphabet as well (the full n = 3 space runs the baseline, gate and identities)
        for obs in itertools.product(SUB_ALPHABET, repeat=3):
            out.append({"kind": "small", "obs": list(obs), "alpha": "sub", "reporting": True})
    return out


def struct_cases(tier):
    lengths = LENGTHS if tier == "thorough" else [24, 25, 400]
    return [
        {"kind": "struct", "obs_kind": ok, "pred_kind": pk, "length": L, "contam": c}
        for L in lengths for c in CONTAM for ok in OBS_KINDS for pk in PRED_KINDS
    ]


def dtype_cases(tier):
    return [{"kind": "dtype", "dtype": dt, "length": L} for dt in ("float32", "int64", "int32", "int16", "uint32", "uint16", "uint8")
            for L in ((24, 60) if tier == "quick" else (24, 25, 60, 400))]


def fit_cases(tier):
    out = []
    for cvt, pnt in itertools.product(["lo", "hi"], repeat=2):
        out.append({"kind": "fit", "family": "hourly", "cv_thr": cvt, "pn_thr": pnt})
    out.append({"kind": "fit", "family": "hourly", "cv_thr": "lo", "pn_thr": "lo", "solar": True})
    out.append({"kind": "fit", "family": "hourly", "cv_thr": "hi", "pn_thr": "hi", "solar": True, "ghi_ignored": True})
    if tier == "thorough":
        out.append({"kind": "fit", "family": "hourly", "cv_thr": "hi", "pn_thr": "lo", "solar": True})
    for fam in ("billing", "daily"):
        for thr in ("lo", "hi"):
            out.append({"kind": "fit", "family": fam, "thr": thr, "noise": 0.3})
    if tier == "thorough":
        for fam in ("billing", "daily"):
            out.append({"kind": "fit", "family": fam, "thr": "hi", "noise": 0.02})
    # net-metered sites: usage below zero on some days (exports), positive on average
    for fam in ("billing", "daily"):
        for thr in (("lo",) if tier == "quick" else ("lo", "hi")):
            out.append({"kind": "fit", "family": fam, "thr": thr, "noise": 0.3, "export": True})
    return out


def run(tier, seed):
    exs = []
    with poolmod.Pool() as pool:
        # long-running fits first so they overlap with the cheap cases of the other spaces on a shared machine
        exs.append(explore.explore(pool, "real fits: stored statistics vs predict(baseline); gates at value*(1+-1e-6)", MOD, "run_case",
                                   [{"kind": "meta"}] + fit_cases(tier), seed=seed, chunk=1))
        exs.append(explore.explore(pool, "small scope: all (observed, predicted) of length <= 3 over the alphabet x p", MOD, "run_case",
                                   small_cases(tier), seed=seed, chunk=1))
        exs.append(explore.explore(pool, "structured series 24-400 x contamination x p (+ReportingMetrics, CalTRACK, gate)", MOD, "run_case",
                                   struct_cases(tier), seed=seed, chunk=4))
        exs.append(explore.explore(pool, "whole-number series in other numeric dtypes (float32, signed / unsigned integers)", MOD, "run_case",
                                   dtype_cases(tier), seed=seed, chunk=1))
    cov = explore.merge_coverage(
        exs,
        rule="small scope: one case = one observed tuple; it runs every predicted tuple over the same alphabet x p in {1,2,5} "
        "(BaselineMetrics.model_dump vs the Fraction reference, reported identities, the hourly gate at 2x2 threshold placements, "
        "ReportingMetrics over 3 frames x 3 frequencies where stated); behaviour = multiset of (finite pairs, n' class, class of each "
        "key ratio, gate outcomes, reporting outcomes); non-trivial = at least one pair with >= 2 finite rows.  Structured: one case = "
        "(observed kind, predicted kind, length, contamination) run for each p.  Dtypes: one case = a whole-number series handed to "
        "BaselineMetrics / ReportingMetrics in float32, int64/32/16 or uint32/16/8 columns, judged by the same reference.  Fits: one case = two fits + one predict",
    )
    stats = {}
    for e in exs:
        for k, v in e.stats.items():
            stats[k] = stats.get(k, 0) + v
    cov["alphabet"] = ALPHABET
    cov["sub_alphabet_n3_quick"] = SUB_ALPHABET
    cov["params"] = PARAMS
    cov["counters"] = dict(sorted(stats.items()))
    cov["pairs_evaluated"] = stats.get("baseline_dumps", 0)
    viols = [v for e in exs for v in e.violations]
    return {"level": LEVEL, "coverage": cov, "violations": viols, "assumptions": ASSUMPTIONS}


def replay(rep):
    vs = []
    for k in range(2):
        r = run_case(rep["case"])
        if r.get("rejected"):
            print(f"run {k}: rejected: {r['rejected']}")
            continue
        allv = r.get("violations") or []
        vs = [v for v in allv if v["clause"] == rep["clause"] and v.get("key") == rep.get("key")]
        print(f"run {k}: behaviour={str(r.get('behaviour'))[:300]}")
        print(f"run {k}: {len(allv)} violations, {len(vs)} of clause {rep['clause']} key {rep.get('key')}")
        for v in vs[:4]:
            print("  ", v["detail"])
    return 1 if vs else 0
