"""C11 — the daily model curve is continuous, monotone and its load components add up.

Exhaustive product: coefficient lattice per model shape (dailydocs.lattice) x fitted range x a dense temperature
sweep that contains every stored and effective balance point and its floating-point neighbours.  Models are
built from documents (DailyModel.from_dict) and evaluated through the public predict() on a DailyReportingData.
"""
import numpy as np
import pandas as pd

from .. import dailydocs as dd, explore, pool as poolmod
from ..refmodels import curve

PROP = "C11"
LEVEL = "exploration"
MOD = "mc.checks.c11"

ASSUMPTIONS = [
    "admissible coefficients = balance points inside [T_min_seg, T_max_seg] (hdd_bp <= cdd_bp; two-slope documents written with the "
    "balance points in reverse order are read as the same curve with the branches exchanged), intercepts {0.5, 50, and -6 for a "
    "net-metered site}, slope magnitudes in "
    "{0.05,1,20}, smoothing fractions in [0,1] (full smooth model) / smoothing lengths >= 0 (one-sided smooth models), "
    "stored sign conventions of ModelCoefficients; nothing is claimed between lattice points",
    "'balance point' of a smoothed model = the effective (inward-shifted) balance point; the straight line a smoothed "
    "branch follows is intercept + beta*(T-bp_eff) - |beta*k| and the distance to it is bounded by |beta*k|*exp(-|T-bp_eff|/k)",
    "floating point: equalities, monotonicity and 'load >= 0' are checked up to 4 ulp of the largest term entering the "
    "evaluation of that point (|predicted|, |intercept|, |beta*(T-bp)|, |beta*k|): rounding noise of the closed form, "
    "e.g. a heating load of -4e-15 next to the balance point of a model with beta*k = 300, is not a violation",
]

SWEEP = np.round(np.arange(-60.0, 140.0001, 0.25), 2)
_S = {}


def _settings():
    if "s" not in _S:
        _S["s"] = dd.settings_dump("current")
    return _S["s"]


def cases(tier):
    out = []
    for tcn in ("wide", "narrow"):
        tc = dd.TC_WIDE if tcn == "wide" else dd.TC_NARROW
        for shape in dd.SHAPES:
            n = len(dd.lattice(shape, tier, tc))
            # quick: every lattice point of the wide range, every 3rd of the narrow one
            step = 1 if (tier == "thorough" or tcn == "wide") else 3
            for i in range(0, n, step):
                out.append({"shape": shape, "tc": tcn, "i": i})
    # fitted ranges whose segment limits coincide with the observed extremes (ties at the hottest / coldest temperature)
    for shape in dd.SHAPES:
        for i in range(len(dd.lattice(shape, tier, dd.TC_TIED))):
            out.append({"shape": shape, "tc": "tied", "i": i})
    # the sweep embedded between mild days: the first and the last row of the reporting frame lie between the balance points
    for shape in ("hdd_tidd_cdd", "hdd_tidd_cdd_smooth", "hdd_tidd", "tidd_cdd"):
        for i in range(0, len(dd.lattice(shape, tier, dd.TC_WIDE)), 1 if tier == "thorough" else 4):
            out.append({"shape": shape, "tc": "wide", "i": i, "padded": True})
    # a negative temperature-independent load (net-metered site: the fitted intercept of a solar home is below zero): every 3rd point
    for shape in dd.SHAPES:
        for i in range(0, len(dd.lattice(shape, tier, dd.TC_WIDE)), 1 if tier == "thorough" else 3):
            out.append({"shape": shape, "tc": "wide", "i": i, "intercept": -6.0})
    # two-slope documents whose balance points are written in reverse order (hdd_bp > cdd_bp, each with its own slope and smoothing):
    # inside the optimiser's bounds, read as the same curve with the two branches exchanged
    for shape in ("hdd_tidd_cdd", "hdd_tidd_cdd_smooth"):
        for i in range(0, len(dd.lattice(shape, tier, dd.TC_WIDE)), 1 if tier == "thorough" else 2):
            out.append({"shape": shape, "tc": "wide", "i": i, "reversed_bps": True})
    # the same documents with the keys of every JSON object sorted / reversed (key order carries no meaning): every 4th point
    for order in ("sorted", "reversed"):
        for shape in dd.SHAPES:
            for i in range(0, len(dd.lattice(shape, tier, dd.TC_WIDE)), 1 if tier == "thorough" else 4):
                out.append({"shape": shape, "tc": "wide", "i": i, "key_order": order})
    # reporting temperatures that are not float64: whole degrees as int64, and float32 (quarter degrees are exact in both)
    for dtype in ("int64", "float32"):
        for shape in dd.SHAPES:
            for i in range(0, len(dd.lattice(shape, tier, dd.TC_WIDE)), 1 if tier == "thorough" else 4):
                out.append({"shape": shape, "tc": "wide", "i": i, "t_dtype": dtype})
    # split documents: weekdays and weekends follow two different lattice curves and the temperatures arrive in an
    # order that is monotone in neither; every sub-model's rows must lie on that sub-model's curve
    for shape in dd.SHAPES:
        n = len(dd.lattice(shape, tier, dd.TC_WIDE))
        for i in range(0, n, 1 if tier == "thorough" else 4):
            out.append({"shape": shape, "tc": "wide", "i": i, "split": "wd_we"})
    # FITTED models: one object is fitted on a first building, predicts, is fitted on a second building and predicts the sweep - the curve
    # it then shows must be the one of the coefficients it then publishes (to_dict)
    for first, second in (("heating", "cooling"), ("cooling", "both"), ("both", "heating")):
        for profile in ("current", "legacy"):
            out.append({"shape": "fitted", "tc": "fitted", "i": 0, "first": first, "second": second, "profile": profile})
    # documents of the 2.0 format (from_2_0_dict): four model types x a small coefficient lattice
    out += [{"shape": "legacy2", "tc": "legacy2", "i": i} for i in range(len(legacy2_lattice()))]
    return out


LEGACY2_TC = {"T_min": -100, "T_max": 200, "T_min_seg": -100, "T_max_seg": 200}  # what from_2_0_params stores


def legacy2_lattice():
    """(2.0 document, the same coefficients in the current stored convention)"""
    out = []
    for ic in (0.0, 20.0):
        out.append(({"model_type": "intercept_only", "model_params": {"intercept": ic}}, dd.coeffs("tidd", intercept=ic)))
        for beta in (0.5, 2.25):
            for hbp in (30.0, 55.0, 65.0):
                out.append(({"model_type": "hdd_only", "model_params": {"intercept": ic, "beta_hdd": beta, "heating_balance_point": hbp}},
                            dd.coeffs("hdd_tidd", intercept=ic, hdd_bp=hbp, hdd_beta=beta)))
            for cbp in (65.0, 70.0, 90.0):
                out.append(({"model_type": "cdd_only", "model_params": {"intercept": ic, "beta_cdd": beta, "cooling_balance_point": cbp}},
                            dd.coeffs("tidd_cdd", intercept=ic, cdd_bp=cbp, cdd_beta=beta)))
            for hbp, cbp in ((30.0, 65.0), (55.0, 70.0), (65.0, 65.0), (65.0, 90.0)):
                for beta2 in (0.5, 2.25):
                    out.append(({"model_type": "cdd_hdd", "model_params": {"intercept": ic, "beta_hdd": beta, "heating_balance_point": hbp,
                                                                            "beta_cdd": beta2, "cooling_balance_point": cbp}},
                                dd.coeffs("hdd_tidd_cdd", intercept=ic, hdd_bp=hbp, hdd_beta=beta, cdd_bp=cbp, cdd_beta=beta2)))
    return out


def reorder(x, how):
    if isinstance(x, dict):
        keys = sorted(x) if how == "sorted" else list(reversed(list(x)))
        return {k: reorder(x[k], how) for k in keys}
    if isinstance(x, list):
        return [reorder(v, how) for v in x]
    return x


def temps_for(c, tc, e):
    pts = set(SWEEP.tolist())
    special = [tc["T_min"], tc["T_max"], tc["T_min_seg"], tc["T_max_seg"], e["hdd_bp"], e["cdd_bp"]]
    for k in ("hdd_bp", "cdd_bp"):
        if c.get(k) is not None:
            special.append(c[k])
    for s in special:
        s = float(s)
        pts.update([s, float(np.nextafter(s, -np.inf)), float(np.nextafter(s, np.inf)), s - 1e-9, s + 1e-9])
    return np.array(sorted(pts))


def ulp(x):
    return np.spacing(np.maximum(np.abs(x), 1e-300))


def check_curve(c, tc, T, pred, heat, cool):
    """Oracle clauses of C11 on one curve; returns list of (clause, detail)."""
    v = []
    e = curve.effective(c, tc)
    ic = c["intercept"]
    hb, cb = e["hdd_beta"], e["cdd_beta"]
    hbp, cbp = e["hdd_bp"], e["cdd_bp"]
    hk, ck = e["hdd_k"], e["cdd_k"]
    flat = bool(e.get("flat"))
    maxbeta = max(hb, cb)
    if not np.isfinite(pred).all():
        return [("non_finite", f"non-finite prediction at T={T[~np.isfinite(pred)][:3]}")]
    # largest term that enters the evaluation of a point: the rounding noise of the closed form is a few ulp of it
    scale = np.maximum.reduce([np.abs(pred), np.full_like(pred, abs(ic)), maxbeta * np.abs(T - hbp), maxbeta * np.abs(T - cbp),
                               np.full_like(pred, maxbeta * max(hk, ck))])
    tol = 4 * ulp(scale)
    # 1 continuity (Lipschitz with the largest slope)
    dT = np.diff(T)
    dE = np.abs(np.diff(pred))
    bad = dE > maxbeta * dT * (1 + 1e-9) + tol[1:] + tol[:-1]
    if bad.any():
        j = int(np.argmax(bad))
        v.append(("discontinuous", f"jump {dE[j]:.6g} between T={T[j]!r} and {T[j+1]!r} (max slope {maxbeta})"))
    # 2 base load between the balance points
    if flat:
        mid = np.ones_like(T, bool)
    else:
        mid = (T >= hbp) & (T <= cbp)
        if hb == 0:
            mid |= T <= cbp
        if cb == 0:
            mid |= T >= hbp
    if (pred[mid] != ic).any():
        j = int(np.flatnonzero(mid & (pred != ic))[0])
        v.append(("not_base_load_between_bps", f"T={T[j]!r}: predicted {pred[j]!r} != intercept {ic!r} (bps {hbp!r},{cbp!r})"))
    if not flat:
        # 3 monotone
        lo = T <= hbp
        hi = T >= cbp
        if hb > 0 and lo.sum() > 1:
            d = np.diff(pred[lo])
            t = tol[lo]
            if (d > t[1:] + t[:-1]).any():
                j = int(np.argmax(d))
                v.append(("not_monotone_heating", f"usage rises with T below the heating balance point near T={T[lo][j]!r}"))
        if cb > 0 and hi.sum() > 1:
            d = np.diff(pred[hi])
            t = tol[hi]
            if (d < -(t[1:] + t[:-1])).any():
                j = int(np.argmin(d))
                v.append(("not_monotone_cooling", f"usage falls with T above the cooling balance point near T={T[hi][j]!r}"))
        # 4 straight line with the fitted slope beyond each balance point
        for side, sel, beta, bp, k in (("heating", T < hbp, -hb, hbp, hk), ("cooling", T > cbp, cb, cbp, ck)):
            if beta == 0 or not sel.any():
                continue
            line = beta * (T[sel] - bp) + ic
            if k == 0:
                err = np.abs(pred[sel] - line)
                lim = tol[sel]
            else:
                asym = line - abs(beta * k)
                err = np.abs(pred[sel] - asym)
                lim = abs(beta * k) * np.exp(-np.abs(T[sel] - bp) / k) * (1 + 1e-9) + tol[sel] + 4 * ulp(np.abs(line))
            if (err > lim).any():
                j = int(np.argmax(err - lim))
                v.append((f"off_the_line_{side}", f"T={T[sel][j]!r}: predicted {pred[sel][j]!r}, line with stored slope {beta!r} "
                          f"through bp {bp!r} gives {line[j]!r} (k={k!r}); error {err[j]:.6g} > {lim[j]:.3g}"))
    # 5 loads
    ltol = tol
    if (heat < -ltol).any() or (cool < -ltol).any():
        j = int(np.argmin(np.minimum(heat, cool)))
        v.append(("negative_load", f"T={T[j]!r}: heating {heat[j]!r} cooling {cool[j]!r}"))
    both = (heat != 0) & (cool != 0)
    if both.any():
        j = int(np.flatnonzero(both)[0])
        v.append(("both_loads_nonzero", f"T={T[j]!r}: heating {heat[j]!r} cooling {cool[j]!r}"))
    s = ic + heat + cool
    if (np.abs(s - pred) > ltol).any():
        j = int(np.argmax(np.abs(s - pred)))
        v.append(("loads_do_not_add_up", f"T={T[j]!r}: {ic!r}+{heat[j]!r}+{cool[j]!r} != {pred[j]!r}"))
    # load attribution: heating load only at/below the heating balance point, cooling only at/above the cooling one
    if ((heat != 0) & (T > hbp)).any() or ((cool != 0) & (T < cbp)).any():
        v.append(("load_on_wrong_side", "heating load above the heating balance point or cooling load below the cooling one"))
    return v


def run_case(case):
    import opendsm.eemeter as em

    if case["shape"] == "fitted":
        return run_fitted_case(case, em)
    if case["shape"] == "legacy2":
        tc = LEGACY2_TC
        doc2, c = legacy2_lattice()[case["i"]]
        e = curve.effective(c, tc)
        T = temps_for(c, tc, e)
        m = em.DailyModel.from_2_0_dict(doc2)
    else:
        tc = {"wide": dd.TC_WIDE, "narrow": dd.TC_NARROW, "tied": dd.TC_TIED}[case["tc"]]
        c = dd.lattice(case["shape"], case.get("tier", "quick"), tc)[case["i"]]
        if case.get("intercept") is not None:
            c = dict(c, intercept=case["intercept"])
        e = curve.effective(c, tc)
        T = temps_for(c, tc, e)
        c_doc = c
        if case.get("reversed_bps"):
            if not c["hdd_bp"] < c["cdd_bp"]:
                return {"rejected": "balance points coincide: nothing to reverse"}
            c_doc = dict(c, hdd_bp=c["cdd_bp"], hdd_beta=c["cdd_beta"], hdd_k=c["cdd_k"], cdd_bp=c["hdd_bp"], cdd_beta=c["hdd_beta"], cdd_k=c["hdd_k"])
        doc = dd.document({"fw-su_sh_wi": dd.submodel(c_doc, tc)}, _settings())
        if case.get("key_order"):
            doc = reorder(doc, case["key_order"])
        m = em.DailyModel.from_dict(doc)
    if case.get("split") == "wd_we":
        return run_split_case(case, em, c, tc, T)
    if case.get("padded"):
        # rows are evaluated in calendar order: a mild day first and last (inside the dead band, or at the single balance point)
        mild = 0.5 * (e["hdd_bp"] + e["cdd_bp"])
        T = np.concatenate([[mild], T, [mild]])
    Tcol = T
    if case.get("t_dtype") == "int64":
        T = np.arange(-60.0, 141.0)           # whole degrees
        Tcol = T.astype("int64")
    elif case.get("t_dtype") == "float32":
        T = np.arange(-60.0, 140.25, 0.25)    # exactly representable in float32
        Tcol = T.astype("float32")
    idx = pd.date_range("2019-01-01", periods=len(T), freq="D", tz="UTC")
    r = em.DailyReportingData(pd.DataFrame({"temperature": Tcol}, index=idx), is_electricity_data=True)
    p = m.predict(r)
    viol = []
    if not np.array_equal(p["temperature"].to_numpy(dtype="float64"), T):
        return {"rejected": "temperature not passed through unchanged by the data class"}
    P, Hh, Cc = p["predicted"].to_numpy(float), p["heating_load"].to_numpy(float), p["cooling_load"].to_numpy(float)
    if case.get("padded"):
        order = np.argsort(T, kind="stable")
        keep = np.concatenate([[True], np.diff(T[order]) > 0])
        extra_v = []
        if not (P[0] == P[-1]):
            extra_v.append(("same_temperature_different_prediction", f"the two rows at {T[0]!r} F are predicted {P[0]!r} and {P[-1]!r}"))
        T, P, Hh, Cc = T[order][keep], P[order][keep], Hh[order][keep], Cc[order][keep]
    got = check_curve(c, tc, T, P, Hh, Cc) + (extra_v if case.get("padded") else [])
    fr = "none"
    if case["shape"] == "hdd_tidd_cdd_smooth":
        s = (c["hdd_k"] or 0) + (c["cdd_k"] or 0)
        fr = "sum>=1" if s >= 1 else "sum<1"
    edge = {}
    if case["tc"] == "tied":
        # which balance point sits exactly on the edge of the fitted range
        on = [k for k in ("hdd_bp", "cdd_bp") if c.get(k) is not None and c[k] in (tc["T_min"], tc["T_max"])]
        top = [k for k in on if c[k] == tc["T_max"]]
        edge = {"range": "tied", "bp_on_edge": ("T_max" if top else "T_min") if on else "none",
                "all_bps_on_T_max": bool(on) and all(c[k] == tc["T_max"] for k in ("hdd_bp", "cdd_bp") if c.get(k) is not None)}
    for clause, detail in got:
        viol.append({"clause": clause, "key": {"shape": c["model_type"] if case["shape"] == "legacy2" else case["shape"], "smoothing": fr, **edge,
                                               **({"document": "2.0"} if case["shape"] == "legacy2" else {}),
                                               **({"key_order": case["key_order"]} if case.get("key_order") else {}),
                                               **({"t_dtype": case["t_dtype"]} if case.get("t_dtype") else {}),
                                               **({"intercept": "negative"} if case.get("intercept") is not None else {}),
                                               **({"frame": "mild_day_first_and_last"} if case.get("padded") else {}),
                                               **({"document": "reversed_balance_points"} if case.get("reversed_bps") else {})},
                     "detail": f"{detail} | coefficients {c} tc {tc}"})
    pr = p["predicted"].to_numpy(float)
    beh = [case["shape"] + ":" + case.get("key_order", "") + case.get("t_dtype", ""), bool(e.get("flat")), round(float(pr.min()), 6), round(float(pr.max()), 6), len(got)]
    return {"behaviour": beh, "violations": viol, "stats": {"points": int(len(T))}}


def run_fitted_case(case, em):
    from .. import datasets as ds

    gen = {"heating": dict(hs=1.2, cs=0.0), "cooling": dict(hs=0.0, cs=1.5), "both": dict(hs=1.0, cs=1.3)}
    mk = (lambda: em.DailyModel(model="legacy")) if case["profile"] == "legacy" else (lambda: em.DailyModel())
    m = mk()

    def data(kind, seed):
        fr = ds.daily_frame(start="2021-01-01", days=365, tz="America/Chicago", wseed=seed, seed=seed, noise=0.01, base=20.0 + seed, **gen[kind])
        return em.DailyBaselineData(fr, is_electricity_data=True)

    sweepT = np.round(np.arange(-20.0, 120.0001, 0.5), 2)
    idx = pd.date_range("2019-01-01", periods=len(sweepT), freq="D", tz="America/Chicago")
    rep = em.DailyReportingData(pd.DataFrame({"temperature": sweepT}, index=idx), is_electricity_data=True)
    m.fit(data(case["first"], 1), ignore_disqualification=True)
    m.predict(rep, ignore_disqualification=True)
    m.fit(data(case["second"], 2), ignore_disqualification=True)
    doc = m.to_dict()
    if list(doc["submodels"]) != ["fw-su_sh_wi"]:
        return {"rejected": f"the second fit chose a split ({list(doc['submodels'])}); the curve clauses are applied to unsplit fits"}
    sub = doc["submodels"]["fw-su_sh_wi"]
    c = {k: (v.value if hasattr(v, "value") else v) for k, v in sub["coefficients"].items()}
    tc = sub["temperature_constraints"]
    p = m.predict(rep, ignore_disqualification=True)
    got = check_curve(c, tc, sweepT, p["predicted"].to_numpy(float), p["heating_load"].to_numpy(float), p["cooling_load"].to_numpy(float))
    viol = [{"clause": clause, "key": {"shape": c["model_type"], "model": "fitted_twice", "profile": case["profile"]},
             "detail": f"{detail} | object fitted on a {case['first']} building, used, fitted on a {case['second']} building; published coefficients {c}"}
            for clause, detail in got]
    pr = p["predicted"].to_numpy(float)
    return {"behaviour": ["fitted:" + c["model_type"], round(float(pr.min()), 4), round(float(pr.max()), 4), len(got)], "violations": viol,
            "stats": {"points": int(len(sweepT))}}


def run_split_case(case, em, c, tc, T):
    """Weekday sub-model = lattice point i, weekend sub-model = another point of the same shape; weekdays receive the
    sweep in descending order, weekends in ascending order, interleaved by the calendar."""
    lat = dd.lattice(case["shape"], case.get("tier", "quick"), tc)
    c2 = lat[(case["i"] + 7) % len(lat)]
    T2 = temps_for(c2, tc, curve.effective(c2, tc))
    doc = dd.document({"wd-su_sh_wi": dd.submodel(c, tc), "we-su_sh_wi": dd.submodel(c2, tc)}, _settings())
    m = em.DailyModel.from_dict(doc)
    want = {"wd": list(T[::-1]), "we": list(T2)}
    days = pd.date_range("2019-01-01", periods=int(3.6 * max(len(T), len(T2))) + 14, freq="D", tz="UTC")
    temps, kind = [], []
    for d in days:
        k = "we" if d.dayofweek >= 5 else "wd"
        temps.append(want[k].pop(0) if want[k] else 50.0)
        kind.append(k)
    if want["wd"] or want["we"]:
        raise RuntimeError("calendar too short for the sweep")
    temps = np.array(temps)
    kind = np.array(kind)
    r = em.DailyReportingData(pd.DataFrame({"temperature": temps}, index=days), is_electricity_data=True)
    p = m.predict(r)
    if not (p.index.equals(days) and np.array_equal(p["temperature"].to_numpy(float), temps)):
        return {"rejected": "temperature not passed through unchanged by the data class"}
    viol, nclause = [], 0
    for k, cc in (("wd", c), ("we", c2)):
        sel = np.flatnonzero(kind == k)
        order = sel[np.argsort(temps[sel], kind="stable")]
        Tk, uniq = np.unique(temps[order], return_index=True)
        rows = order[uniq]
        got = check_curve(cc, tc, Tk, p["predicted"].to_numpy(float)[rows], p["heating_load"].to_numpy(float)[rows],
                          p["cooling_load"].to_numpy(float)[rows])
        # the filler temperature occurs on many days: all of them must agree
        fill = sel[temps[sel] == 50.0]
        if len(set(p["predicted"].to_numpy(float)[fill].tolist())) > 1:
            got.append(("same_temperature_different_prediction", f"{k}: days at 50.0F are predicted differently"))
        nclause += len(got)
        for clause, detail in got:
            viol.append({"clause": clause, "key": {"shape": case["shape"], "split": "wd_we", "submodel": k},
                         "detail": f"{detail} | coefficients {cc} tc {tc}"})
    pr = p["predicted"].to_numpy(float)
    beh = [case["shape"] + ":split", round(float(np.nanmin(pr)), 6), round(float(np.nanmax(pr)), 6), nclause]
    return {"behaviour": beh, "violations": viol, "stats": {"points": int(len(temps))}}


def run(tier, seed):
    cs = [dict(c, tier=tier) for c in cases(tier)]
    with poolmod.Pool() as pool:
        ex = explore.explore(pool, "coefficient lattice x temperature sweep", MOD, "run_case", cs, seed=seed)
    cov = explore.merge_coverage(
        [ex],
        rule="one case = one model document (shape, lattice point, fitted range) evaluated by predict() on ~830 "
        "temperatures (-60..140F step 0.25 plus every stored/effective balance point, range limit and their float "
        "neighbours); plus every 4th (thorough: every) document with its JSON object keys sorted / reversed, and 2.0-format documents "
        "(from_2_0_dict: four model types x coefficient lattice), and two-component documents (weekday curve = the lattice point, "
        "weekend curve = another one) evaluated on a calendar in which weekdays receive the sweep in descending and weekends in "
        "ascending order, each component's rows held to its own curve; behaviour = (shape, flat?, min, max of the curve, #clauses failed); "
        "every case is non-trivial",
    )
    cov["temperature_points"] = ex.stats.get("points", 0)
    return {"level": LEVEL, "coverage": cov, "violations": ex.violations, "assumptions": ASSUMPTIONS}


def replay(rep):
    vs = []
    for k in range(2):
        r = run_case(rep["case"])
        vs = [v for v in r["violations"] if v["clause"] == rep["clause"]]
        print(f"run {k}: {len(r['violations'])} violations; clause {rep['clause']}: {len(vs)}")
        for v in vs[:2]:
            print("  ", v["detail"][:500])
    return 1 if vs else 0
