"""C02 — using a model or a data object never changes it (no hidden side effects).

Explicit-state BFS (E3) over histories of predict(R_i) / fit-of-another-meter on one fitted model object per family,
state = structural fingerprint of the whole model object graph (E4) + its serialised document; plus the aliasing
audit and behavioural independence tests for data objects, caller frames and handed-out frames.
"""
import copy
import itertools
import json

import numpy as np
import pandas as pd

from .. import datasets as ds, explore, fingerprint as F, pool as poolmod, stategraph

PROP = "C02"
LEVEL = "model_checking"
MOD = "mc.checks.c02"

ASSUMPTIONS = [
    "state = fingerprint of the complete model object graph (only sklearn ElasticNet.dual_gap_/n_iter_ excluded: convergence "
    "diagnostics whose last bits differ between identical fits and that predict never reads) together with the to_json() string",
    "live states are snapshotted with copy.deepcopy; every snapshot is asserted to have the fingerprint of its source",
    "predict may log; logging handlers are not state",
    "pandas copy-on-write makes buffer sharing between a caller frame and a data object unobservable, so independence of "
    "frames is decided behaviourally (write into one, re-read the other) and identity sharing is audited for Python containers",
    "an operation that raises must raise the same exception type in every history (compared with the same call on a pristine copy)",
]

FAMILIES = ["daily", "billing", "hourly", "hourly_solar", "caltrack"]
# variants of a family: same classes, settings/data chosen so that a side-effect path of fit/predict is taken
#   *_poorfit        thresholds placed so that fit() adds its own poor-fit disqualification
#   hourly_ghi_ignored   model told to ignore GHI, data carries a GHI column (fit and every predict emit a mismatch warning)
#   hourly_shared_settings   ONE settings object (explicit train_features + a supplemental column) serves every model built; the
#                            explored model's meter lacks the supplemental column, the other meter (fit_other) has it
VARIANTS = ["daily_poorfit", "billing_poorfit", "hourly_poorfit", "hourly_ghi_ignored", "hourly_shared_settings", "hourly_supp_categorical"]
#   hourly_supp_categorical  the model is configured with a supplemental CATEGORICAL column and its baseline carries it; reporting sets come
#                            with and without the column (the ones without are refused - and must leave the model as it was)
_SHARED = {}


def base_family(family):
    return {"daily_poorfit": "daily", "billing_poorfit": "billing", "hourly_poorfit": "hourly",
            "hourly_ghi_ignored": "hourly_solar", "hourly_shared_settings": "hourly", "hourly_supp_categorical": "hourly"}.get(family, family)
ZONE = "America/Chicago"


# ------------------------------------------------------------------ builders
def baseline_frame(family, days, seed=0):
    family = base_family(family)
    if family in ("daily", "billing"):
        return ds.daily_frame(start="2021-01-01", days=days, tz=ZONE, wseed=seed, seed=seed, noise=0.05, weekend_factor=1.2)
    solar = family == "hourly_solar"
    return ds.hourly_frame(start="2021-01-01", days=days, tz=ZONE, wseed=seed, seed=seed, solar=solar)


def make_baseline(family, frame):
    import opendsm.eemeter as em

    family = base_family(family)
    if family == "daily":
        return em.DailyBaselineData(frame, is_electricity_data=True)
    if family == "billing":
        reads = ds.billing_reads(frame["observed"])
        return em.BillingBaselineData.from_series(reads, frame["temperature"], is_electricity_data=True)
    if family in ("hourly", "hourly_solar"):
        return em.HourlyBaselineData(frame, is_electricity_data=True)
    from opendsm.eemeter.models.hourly_caltrack import HourlyBaselineData as CB

    return CB(frame, is_electricity_data=True)


def new_model(family):
    import opendsm.eemeter as em

    if family == "daily_poorfit":
        return em.DailyModel(settings={"developer_mode": True, "silent_developer_mode": True, "cvrmse_threshold": 1e-6})
    if family == "billing_poorfit":
        return em.BillingModel(settings={"developer_mode": True, "silent_developer_mode": True, "cvrmse_threshold": 1e-6})
    if family == "hourly_poorfit":
        return em.HourlyModel(settings={"seed": 7, "cvrmse_threshold": 1e-6, "pnrmse_threshold": 1e-6})
    if family == "hourly_ghi_ignored":
        return em.HourlyModel(settings={"seed": 7, "train_features": ["temperature"]})
    if family == "hourly_supp_categorical":
        return em.HourlyModel(settings={"seed": 7, "supplemental_categorical_columns": ["mode"]})
    if family == "hourly_shared_settings":
        if "obj" not in _SHARED:
            from opendsm.eemeter.models.hourly import settings as hs

            _SHARED["obj"] = hs.HourlyNonSolarSettings(seed=7, train_features=["temperature"], supplemental_time_series_columns=["occupancy"])
        return em.HourlyModel(settings=_SHARED["obj"])
    if family == "daily":
        return em.DailyModel()
    if family == "billing":
        return em.BillingModel()
    if family in ("hourly", "hourly_solar"):
        # explicit seed: with seed=None every (re)validation of the settings object - which to_json() triggers - draws a new
        # private seed from numpy's global RNG; that is hidden state of to_json, outside this property, and is owned here
        return em.HourlyModel(settings={"seed": 7})
    from opendsm.eemeter.models.hourly_caltrack import HourlyModel as CM

    return CM()


def fit(family, model, data):
    family = base_family(family)
    if family == "caltrack":
        return model.fit(data)
    return model.fit(data, ignore_disqualification=True)


def predict(family, model, data):
    family = base_family(family)
    if family == "caltrack":
        return model.predict(data)
    return model.predict(data, ignore_disqualification=True)


REPORTING = [  # (name, start, days) simplest first
    ("day", "2022-03-01", 1),
    ("week", "2022-07-04", 7),
    ("month", "2022-02-01", 28),
    ("dst_span", "2022-03-01", 260),   # crosses both US DST changes
    ("year", "2022-01-01", 365),
]


def make_reporting(family, start, days, usage, seed=1):
    import opendsm.eemeter as em

    family = base_family(family)
    if family in ("daily", "billing"):
        fr = ds.daily_frame(start=start, days=days, tz=ZONE, wseed=seed, seed=seed + 10, noise=0.05)
        if family == "daily":
            if not usage:
                fr = fr[["temperature"]]
            return em.DailyReportingData(fr, is_electricity_data=True)
        if not usage or days < 28:
            return em.BillingReportingData.from_series(None, fr["temperature"], is_electricity_data=True)
        idx1 = ds.local_days(start, days + 1, ZONE)
        t = ds.daily_temperature(idx1, "continental", seed)
        reads = ds.billing_reads(pd.Series(np.append(fr["observed"].to_numpy(), 0.0), index=idx1),
                                 period_days=[30], start_offset=0)
        return em.BillingReportingData.from_series(reads, t, is_electricity_data=True)
    solar = family == "hourly_solar"
    fr = ds.hourly_frame(start=start, days=days, tz=ZONE, wseed=seed, seed=seed + 10, solar=solar)
    if not usage:
        fr = fr.drop(columns=["observed"])
    if family == "caltrack":
        from opendsm.eemeter.models.hourly_caltrack import HourlyReportingData as CR

        return CR(fr, is_electricity_data=True)
    return em.HourlyReportingData(fr, is_electricity_data=True)


def _nofreq(index):
    """the same instants on a fresh index object that carries no freq (as an index read from a file does)"""
    return pd.DatetimeIndex(np.array(index.asi8, copy=True).view("M8[ns]") if str(index.dtype).startswith("datetime64[ns") else index.to_numpy(copy=True), tz="UTC").tz_convert(index.tz)


def _meta(a):
    """metadata of a caller's Series/DataFrame that the value fingerprint does not cover"""
    if a is None:
        return "|None"
    idx = a.index
    return f"|freq={getattr(idx, 'freq', None)!r}|iname={idx.name!r}|attrs={sorted(a.attrs.items())!r}|flags={a.flags.allows_duplicate_labels}"


def out_fp(x):
    return F.fp(x)


# ------------------------------------------------------------------ the state graph of one model
def run_graph(case):
    family, days, depth = case["family"], case["days"], case["depth"]
    viol = []
    key0 = {"family": family}
    frame = baseline_frame(family, days, seed=0)
    if family == "hourly_supp_categorical":
        frame["mode"] = (frame.index.hour >= 8).astype(int)
    bdata = make_baseline(family, frame)
    fpb0, attrs_b0 = F.fp_attrs(bdata)
    model = fit(family, new_model(family), bdata)
    fpb1, attrs_b1 = F.fp_attrs(bdata)
    if fpb0 != fpb1:
        viol.append({"clause": "fit_modifies_baseline_data", "key": key0,
                     "detail": f"attributes changed by fit(): {F.diff_attrs(attrs_b0, attrs_b1)}"})
    try:
        again = fit(family, new_model(family), bdata)
        if again.to_json() != model.to_json():
            viol.append({"clause": "second_fit_on_same_data_differs", "key": key0, "detail": "a second model fitted on the same data object serialises differently"})
    except Exception as exc:
        viol.append({"clause": "second_fit_on_same_data_raises", "key": key0, "detail": f"{type(exc).__name__}: {exc}"})
    # the data object's OWN state containers (depth-1 attributes such as $.warnings); immutable-by-convention records
    # nested inside them (an EEMeterWarning's payload) may be shared
    shared = [s for s in F.shared_mutables(model, bdata)
              if s[2] in ("list", "dict", "set") and s[1].count(".") == 1 and "[" not in s[1]]
    if shared:
        viol.append({"clause": "model_aliases_baseline_data", "key": key0,
                     "detail": f"mutable containers shared between the fitted model and the data object: {shared[:6]}"})
    try:
        doc0 = model.to_json()
    except Exception as exc:
        return {"behaviour": ["to_json_raises"], "violations": [{"clause": "to_json_raises", "key": key0, "detail": repr(exc)}]}
    if case.get("loaded"):
        # the explored object is the model as it comes back from storage: fit() has not primed anything on this object
        # (a fitted object has already predicted its whole baseline once); simplest-first operations come first
        try:
            model = type(model).from_json(doc0)
            doc0 = model.to_json()
            key0 = dict(key0, loaded=True)
        except Exception as exc:
            return {"behaviour": ["load_raises"], "violations": [{"clause": "roundtrip_raises", "key": key0, "detail": repr(exc)}]}
    sets = REPORTING if case["tier"] == "thorough" else REPORTING[:4] if family == "caltrack" else REPORTING
    alphabet, data_objs, skipped = [], {}, []
    for name, start, ndays in sets:
        for usage in (True, False):
            opn = f"predict:{name}:{'usage' if usage else 'nousage'}"
            try:
                data_objs[opn] = make_reporting(family, start, ndays, usage)
            except Exception as exc:
                skipped.append(f"{opn}: data class raised {type(exc).__name__}")
                continue
            alphabet.append((opn, opn))
    if family == "hourly_supp_categorical":
        import opendsm.eemeter as em

        for name, start, ndays in sets[1:3]:
            fr_m = ds.hourly_frame(start=start, days=ndays, tz=ZONE, wseed=1, seed=11)
            fr_m["mode"] = (fr_m.index.hour >= 8).astype(int)
            opn = f"predict:{name}_with_the_categorical_column:usage"
            data_objs[opn] = em.HourlyReportingData(fr_m, is_electricity_data=True)
            alphabet.insert(1, (opn, opn))
    if family == "hourly_shared_settings":
        # reporting data that carry the configured supplemental column although this model's baseline did not
        import opendsm.eemeter as em

        for name, start, ndays in sets[1:3]:
            fr_occ = ds.hourly_frame(start=start, days=ndays, tz=ZONE, wseed=1, seed=11)
            fr_occ["occupancy"] = ((fr_occ.index.hour >= 8) & (fr_occ.index.hour < 18)).astype(float)
            opn = f"predict:{name}_with_supplemental_column:usage"
            data_objs[opn] = em.HourlyReportingData(fr_occ, is_electricity_data=True)
            alphabet.insert(1, (opn, opn))
    # the very data object the model was fitted on is also a legitimate argument of predict()
    data_objs["predict:baseline_object:usage"] = bdata
    alphabet.append(("predict:baseline_object:usage", "predict:baseline_object:usage"))
    alphabet.append(("fit_other_meter", "fit_other"))
    if base_family(family) in ("hourly", "hourly_solar") and family in ("hourly", "hourly_solar"):
        # ANOTHER model, for a meter in a zone that shares this zone's UTC offset at both ends of the year but not its clock changes
        # (America/Regina: UTC-6 all year), is fitted on and predicts the very same instants
        alphabet.append(("other_model_in_another_zone_same_instants", "other_zone"))
    unfittable = None
    if base_family(family) in ("daily", "billing"):
        # a refit ATTEMPT that fails inside the fit (a handful of days of a meter in another zone, disqualification ignored): the caller
        # sees the exception and keeps using the model it had
        import opendsm.eemeter as em

        try:
            fr_u = ds.daily_frame(start="2021-01-01", days=46, tz="Europe/Berlin", wseed=2, seed=9)
            if base_family(family) == "daily":
                unfittable = em.DailyBaselineData(fr_u.iloc[:5], is_electricity_data=True)
            else:
                reads_u = pd.Series([300.0, 900.0, np.nan], index=fr_u.index[[0, 9, 39]], name="observed")
                unfittable = em.BillingBaselineData.from_series(reads_u, fr_u["temperature"], is_electricity_data=True)
            alphabet.append(("refit_attempt_that_fails", "fit_unfittable"))
        except Exception as exc:
            skipped.append(f"refit_attempt_that_fails: data class raised {type(exc).__name__}")
    other_frame = baseline_frame(family, 365, seed=5)
    if family == "hourly_shared_settings":
        other_frame["occupancy"] = ((other_frame.index.hour >= 8) & (other_frame.index.hour < 18)).astype(float) * (1 + other_frame.index.dayofweek % 3)

    def canon(m):
        try:
            js = m.to_json()
        except Exception as exc:
            js = "to_json raises " + type(exc).__name__
        return F.fp(m) + "|" + F.fp(js)

    def step(m, op):
        if op == "other_zone":
            import opendsm.eemeter as em

            oz = "America/Regina"
            om = fit(family, new_model(family), em.HourlyBaselineData(frame.tz_convert(oz), is_electricity_data=True))
            outs = []
            for name, start, ndays in sets:
                if ndays >= 200:
                    fr_o = ds.hourly_frame(start=start, days=ndays, tz=ZONE, wseed=1, seed=11, solar=base_family(family) == "hourly_solar").tz_convert(oz)
                    outs.append(F.fp(predict(family, om, em.HourlyReportingData(fr_o, is_electricity_data=True))))
            return {"out": "other_zone:" + F.fp(outs)}
        if op == "fit_unfittable":
            try:
                m.fit(unfittable, ignore_disqualification=True)
                return {"out": "refit_succeeded"}
            except Exception as exc:
                return {"out": "fit_raised:" + type(exc).__name__}
        if op == "fit_other":
            other = fit(family, new_model(family), make_baseline(family, other_frame.copy()))
            return {"out": "fitted_other:" + F.fp(other.to_json())}
        d = data_objs[op]
        fp0, a0 = F.fp_attrs(d)
        try:
            out = predict(family, m, d)
            res = {"out": out_fp(out)}
        except Exception as exc:
            res = {"out": "raise:" + type(exc).__name__}
        fp1, a1 = F.fp_attrs(d)
        if fp0 != fp1:
            res["data_changed"] = F.diff_attrs(a0, a1)
        return res

    # reference outcomes on pristine copies
    ref = {}
    for name, op in alphabet:
        ref[name] = step(copy.deepcopy(model), op)
        if ref[name].get("data_changed"):
            # the FIRST predict a data object ever sees (later ones may find the object already altered and change nothing more)
            viol.append({"clause": "predict_modifies_data_object", "key": dict(key0),
                         "detail": f"{name} (first use of this data object): data object attributes changed: {ref[name]['data_changed']}"})
    if ref.get("refit_attempt_that_fails", {}).get("out") == "refit_succeeded":
        # the data turned out to be fittable: that refit legitimately replaces the model - not an operation of this graph
        alphabet = [a for a in alphabet if a[0] != "refit_attempt_that_fails"]
        skipped.append("refit_attempt_that_fails: the refit succeeded")
    # reference must itself be reproducible
    for name, op in alphabet[:3]:
        again = step(copy.deepcopy(model), op)
        if again["out"] != ref[name]["out"]:
            viol.append({"clause": "predict_not_reproducible_on_fresh_copy", "key": key0, "detail": f"{name}: {ref[name]} vs {again}"})

    def check_state(m, hist):
        v = []
        try:
            js = m.to_json()
        except Exception as exc:
            return [{"clause": "to_json_raises_after_use", "key": dict(key0, after=hist[-1].split(":")[0] if hist else "fit"),
                     "detail": f"after {hist}: {type(exc).__name__}: {exc}"}]
        if js != doc0:
            a, b = json.loads(doc0), json.loads(js)
            changed = sorted(k for k in set(a) | set(b) if a.get(k) != b.get(k))
            v.append({"clause": "document_changed_by_use", "key": dict(key0, after=hist[-1].split(":")[0] if hist else "fit"),
                      "detail": f"to_json() differs after history {hist}; top-level keys changed: {changed}"})
        return v

    def check_transition(src_hist, name, op, outcome, m_after):
        v = []
        if outcome["out"] != ref[name]["out"]:
            v.append({"clause": "history_dependent_output", "key": dict(key0, op=name.split(":")[0]),
                      "detail": f"{name} after {src_hist} gives {outcome['out']}, on a pristine copy {ref[name]['out']}"})
        if outcome.get("data_changed"):
            v.append({"clause": "predict_modifies_data_object", "key": dict(key0),
                      "detail": f"{name} after {src_hist}: data object attributes changed: {outcome['data_changed']}"})
        return v

    def explain(a, b):
        return f"attrs differing: {F.diff_attrs(F.fp_attrs(a)[1], F.fp_attrs(b)[1])}; json equal: {a.to_json() == b.to_json()}"

    g = stategraph.bfs(model, alphabet, step, canon, check_state, check_transition, max_depth=depth, explain=explain)
    viol += g.violations
    # hidden state: object fingerprint changed although the document did not
    k0 = canon(model)
    hidden = [s for s in g.states if s != k0 and s.split("|")[1] == k0.split("|")[1]]
    summ = g.summary()
    summ.update(family=family, days=days, alphabet=len(alphabet), skipped_ops=skipped, hidden_only_states=len(hidden),
                raising_ops=sorted(n for n in ref if str(ref[n]["out"]).startswith("raise")))
    return {"behaviour": [family, days, summ["states"], summ["fixpoint"], len(viol)], "violations": viol,
            "stats": {"states": summ["states"], "transitions": summ["transitions"], "fixpoint": int(summ["fixpoint"])},
            "extra": summ}


# ------------------------------------------------------------------ data classes / frames
def run_frames(case):
    """caller frames, constructors, from_series and handed-out frames"""
    import opendsm.eemeter as em

    family = case["family"]
    key0 = {"family": family}
    viol = []
    checks = 0
    entries = []
    if family in ("daily", "billing"):
        fr = ds.daily_frame(start="2021-01-01", days=365, tz=ZONE, wseed=2, seed=2)
        fr.iloc[10, 0] = 0.0  # an electric zero (the class turns it into NaN internally)
        fr.iloc[20, 1] = np.nan
        if family == "daily":
            entries.append(("DailyBaselineData(frame)", lambda f: em.DailyBaselineData(f, is_electricity_data=True), [fr]))
            entries.append(("DailyReportingData(frame)", lambda f: em.DailyReportingData(f, is_electricity_data=True), [fr]))
            entries.append(("DailyReportingData(frame w/o observed)", lambda f: em.DailyReportingData(f, is_electricity_data=True), [fr[["temperature"]]]))
            entries.append(("DailyBaselineData.from_series", lambda m, t: em.DailyBaselineData.from_series(m, t, is_electricity_data=True),
                            [fr["observed"], fr["temperature"]]))
            hourly_t = ds.hourly_temperature(ds.local_hours("2021-01-01", 365, ZONE), "continental", 2)
            entries.append(("DailyBaselineData.from_series(hourly T)", lambda m, t: em.DailyBaselineData.from_series(m, t, is_electricity_data=True),
                            [fr["observed"], hourly_t]))
            entries.append(("DailyReportingData.from_series", lambda m, t: em.DailyReportingData.from_series(m, t, is_electricity_data=True),
                            [fr["observed"], fr["temperature"]]))
        else:
            reads = ds.billing_reads(fr["observed"])
            entries.append(("BillingBaselineData.from_series", lambda m, t: em.BillingBaselineData.from_series(m, t, is_electricity_data=True),
                            [reads, fr["temperature"]]))
            entries.append(("BillingReportingData.from_series", lambda m, t: em.BillingReportingData.from_series(m, t, is_electricity_data=True),
                            [reads, fr["temperature"]]))
            bf = pd.DataFrame({"observed": reads.reindex(fr.index), "temperature": fr["temperature"]})
            bf.iloc[-1, 0] = 1.0
            entries.append(("BillingBaselineData(frame)", lambda f: em.BillingBaselineData(f, is_electricity_data=True), [bf]))
            entries.append(("BillingReportingData(frame)", lambda f: em.BillingReportingData(f, is_electricity_data=True), [bf]))
    elif family in ("hourly", "hourly_solar"):
        fr = ds.hourly_frame(start="2021-01-01", days=60, tz=ZONE, wseed=2, seed=2, solar=family == "hourly_solar")
        fr.iloc[30, 0] = 0.0
        fr.iloc[40, 1] = np.nan
        entries.append(("HourlyBaselineData(frame)", lambda f: em.HourlyBaselineData(f, is_electricity_data=True), [fr]))
        entries.append(("HourlyReportingData(frame)", lambda f: em.HourlyReportingData(f, is_electricity_data=True), [fr]))
        entries.append(("HourlyReportingData(frame w/o observed)", lambda f: em.HourlyReportingData(f, is_electricity_data=True),
                        [fr.drop(columns=["observed"])]))
    else:
        from opendsm.eemeter.models.hourly_caltrack import HourlyBaselineData as CB, HourlyReportingData as CR

        fr = ds.hourly_frame(start="2021-01-01", days=60, tz=ZONE, wseed=2, seed=2)
        fr.iloc[30, 0] = 0.0
        fr.iloc[40, 1] = np.nan
        entries.append(("caltrack.HourlyBaselineData(frame)", lambda f: CB(f, is_electricity_data=True), [fr]))
        entries.append(("caltrack.HourlyReportingData(frame)", lambda f: CR(f, is_electricity_data=True), [fr]))
        entries.append(("caltrack.HourlyReportingData(frame w/o observed)", lambda f: CR(f, is_electricity_data=True),
                        [fr.drop(columns=["observed"])]))
        entries.append(("caltrack.HourlyBaselineData.from_series", lambda m, t: CB.from_series(m, t, is_electricity_data=True),
                        [fr["observed"], fr["temperature"]]))
        entries.append(("caltrack.HourlyReportingData.from_series", lambda m, t: CR.from_series(m, t, is_electricity_data=True),
                        [fr["observed"], fr["temperature"]]))
    # every from_series entry point is driven with the full product of argument FORMS: meter as Series / one-column frame
    # (column already named 'observed' or not) x temperature as Series / one-column frame (named 'temperature' or not) x
    # temperature index in the meter's zone / in UTC; frame constructors additionally with a 'datetime' column, a microsecond
    # index and an extra column
    expanded = []
    for name, ctor, args in entries:
        if "from_series" in name and len(args) == 2:
            m0, t0 = args
            m_forms = [("mS", m0), ("mF:observed", m0.to_frame("observed")), ("mF:value", m0.to_frame("value"))]
            t_forms = []
            for zlab, tt in (("tz_same", t0), ("tz_utc", t0.tz_convert("UTC"))):
                t_forms += [(f"tS:{zlab}", tt), (f"tF:temperature:{zlab}", tt.to_frame("temperature")), (f"tF:temp:{zlab}", tt.to_frame("temp"))]
            for (ml, mv), (tl, tv) in itertools.product(m_forms, t_forms):
                expanded.append((f"{name}[{ml},{tl}]", ctor, [mv, tv]))
            m1, t1 = m0.copy(), t0.copy()
            m1.index, t1.index = _nofreq(m1.index), _nofreq(t1.index)
            expanded.append((f"{name}[indexes without freq]", ctor, [m1, t1]))
            if "Reporting" in name:
                expanded.append((f"{name}[no meter, index without freq]", ctor, [None, t1.copy()]))
        elif len(args) == 1 and isinstance(args[0], pd.DataFrame):
            f0 = args[0]
            expanded.append((name, ctor, [f0]))
            fx = f0.copy()
            fx["note"] = 1.0
            expanded.append((name + "[extra column]", ctor, [fx]))
            # the same instants in every datetime resolution other than the frame's own (pandas 3 builds microsecond indexes by
            # default; files, parquet and older code give nanoseconds)
            for unit in ("ns", "us", "ms"):
                if getattr(f0.index, "unit", None) == unit:
                    continue
                fu = f0.copy()
                try:
                    fu.index = fu.index.as_unit(unit)
                    expanded.append((name + f"[{unit} index]", ctor, [fu]))
                except Exception:
                    pass
            # the same frame on an index built from values (regular, but carrying no freq): metadata the class might fill in
            fn = f0.copy()
            fn.index = _nofreq(fn.index)
            expanded.append((name + "[index without freq]", ctor, [fn]))
            if "caltrack" not in name:
                fd = f0.reset_index(names="datetime")
                expanded.append((name + "[datetime column]", ctor, [fd]))
            for dt in ("Float64", "float32"):
                try:
                    expanded.append((name + f"[{dt} columns]", ctor, [f0.astype(dt)]))
                except Exception:
                    pass
        else:
            expanded.append((name, ctor, args))
    entries = expanded
    outcomes = []
    refused = []
    for name, ctor, args in entries:
        args = [a.copy(deep=True) if a is not None else None for a in args]
        for a in args:
            if a is not None and "without freq" in name:
                a.index = _nofreq(a.index)  # copy(deep=True) shares the index's underlying array (and its freq) with the original
        before = [F.fp(a) + _meta(a) for a in args]
        try:
            d = ctor(*args)
        except Exception as exc:
            if "columns]" in name:
                # an input dtype the data class refuses (hourly classes cannot interpolate into float32 columns under pandas 3):
                # acceptance of inputs is C10/C17's subject; nothing was constructed, so there is no side effect to judge
                refused.append(f"{name}: {type(exc).__name__}")
                continue
            viol.append({"clause": "constructor_raised", "key": dict(key0, entry=name), "detail": f"{type(exc).__name__}: {exc}"})
            continue
        checks += 1
        after = [F.fp(a) + _meta(a) for a in args]
        if before != after:
            which = [i for i, (x, y) in enumerate(zip(before, after)) if x != y]
            cols = []
            for i in which:
                a = args[i]
                cols.append((list(a.columns) if isinstance(a, pd.DataFrame) else a.name, _meta(a)))
            viol.append({"clause": "constructor_modifies_caller_input", "key": dict(key0, entry=name.split("[")[0], form=name.split("[")[1].rstrip("]") if "[" in name else ""),
                         "detail": f"argument(s) {which} changed by {name}; columns / metadata now {cols}; metadata before {[before[i].split('|', 1)[1] for i in which]}"})
        # caller keeps writing into its own frame: the data object must not follow
        df_a = d.df
        fa = F.fp(df_a)
        for a in args:
            if a is None:
                continue
            try:
                if isinstance(a, pd.DataFrame):
                    a.iloc[3, -1] = 987654.0
                else:
                    a.iloc[3] = 987654.0
            except Exception:
                pass
        if F.fp(d.df) != fa:
            viol.append({"clause": "data_object_follows_caller_frame", "key": dict(key0, entry=name),
                         "detail": "writing into the caller's input after construction changed data.df"})
        # handed-out frames are independent copies
        got = d.df
        if got is d.df and family != "caltrack_never":
            viol.append({"clause": "df_not_a_copy", "key": dict(key0, entry=name), "detail": "data.df returns the same object twice"})
        try:
            got.iloc[5, got.columns.get_loc("temperature")] = -999.0
            got["extra_col"] = 1.0
        except Exception:
            pass
        if F.fp(d.df) != fa:
            viol.append({"clause": "handed_out_frame_not_independent", "key": dict(key0, entry=name),
                         "detail": "writing into a frame returned by data.df changed the data object"})
        outcomes.append(fa)
    return {"behaviour": [family, len(entries), len(viol), refused], "violations": viol,
            "stats": {"entry_points": checks, "input_forms_refused_by_data_class": len(refused)}}


def run_prediction_frames(case):
    """a prediction frame is independent of the data object and of the model"""
    family = case["family"]
    key0 = {"family": family}
    viol = []
    frame = baseline_frame(family, 365, seed=0)
    model = fit(family, new_model(family), make_baseline(family, frame))
    data = make_reporting(family, "2022-02-01", 60, True)
    f0 = F.fp(data)
    p1 = predict(family, model, data)
    ref = F.fp(p1)
    m0 = F.fp(model)
    try:
        p1.iloc[2, p1.columns.get_loc("predicted")] = -1.0
        p1.iloc[3, p1.columns.get_loc("temperature")] = -999.0
        p1["junk"] = 0
    except Exception:
        pass
    if F.fp(data) != f0:
        viol.append({"clause": "prediction_frame_aliases_data_object", "key": key0, "detail": "writing into predict()'s frame changed the data object"})
    if F.fp(model) != m0:
        viol.append({"clause": "prediction_frame_aliases_model", "key": key0, "detail": "writing into predict()'s frame changed the model"})
    p2 = predict(family, model, data)
    if F.fp(p2) != ref:
        viol.append({"clause": "prediction_changed_after_writing_into_previous", "key": key0, "detail": "second predict differs"})
    return {"behaviour": [family, len(viol)], "violations": viol, "stats": {"prediction_frames": 1}}


def run_docgraph(case):
    """Models that never saw a baseline in this process - built from a 2.0 document (from_2_0_dict), a current document (from_dict)
    or a stored billing document - explored over reporting sets in TWO zones (the document's and another one), with and without usage:
    whatever a call does (predict or refuse), it does the same after any history, and the object's document does not change."""
    import opendsm.eemeter as em
    from .. import dailydocs as dd

    kind = case["doc"]
    key0 = {"family": kind}
    if kind == "daily_2_0":
        model = em.DailyModel.from_2_0_dict({"model_type": "cdd_hdd", "model_params": {"intercept": 20.0, "beta_hdd": 0.8, "heating_balance_point": 55.0,
                                                                                     "beta_cdd": 1.1, "cooling_balance_point": 68.0}})
    elif kind == "daily_doc":
        model = em.DailyModel.from_dict(dd.document({"fw-su_sh_wi": dd.submodel(dd.coeffs("hdd_tidd_cdd"))}, dd.settings_dump("current"), tz=ZONE))
    else:
        sb = dd.settings_dump("billing")
        sb["developer_mode"] = True
        model = em.BillingModel.from_dict(dd.document({"fw-su_sh_wi": dd.submodel(dd.coeffs("hdd_tidd_cdd"))}, sb, tz=ZONE))
    fam = "billing" if kind == "billing_doc" else "daily"
    alphabet, data_objs = [], {}
    for zone in ("UTC", ZONE, "Asia/Kolkata"):
        for name, start, ndays in (("week", "2022-07-04", 7), ("quarter", "2022-02-01", 95)):
            for usage in (True, False):
                fr = ds.daily_frame(start=start, days=ndays, tz=zone, wseed=1, seed=11, noise=0.05)
                opn = f"predict:{name}:{zone}:{'usage' if usage else 'nousage'}"
                try:
                    if fam == "daily":
                        data_objs[opn] = em.DailyReportingData(fr if usage else fr[["temperature"]], is_electricity_data=True)
                    elif usage and ndays >= 28:
                        data_objs[opn] = em.BillingReportingData.from_series(ds.billing_reads(fr["observed"]), fr["temperature"], is_electricity_data=True)
                    else:
                        data_objs[opn] = em.BillingReportingData.from_series(None, fr["temperature"], is_electricity_data=True)
                except Exception:
                    continue
                alphabet.append((opn, opn))

    def canon(m):
        try:
            js = m.to_json()
        except Exception as exc:
            js = "to_json raises " + type(exc).__name__
        return F.fp(m) + "|" + F.fp(js)

    def step(m, op):
        d = data_objs[op]
        fp0, a0 = F.fp_attrs(d)
        try:
            res = {"out": out_fp(m.predict(d))}
        except Exception as exc:
            res = {"out": "raise:" + type(exc).__name__}
        fp1, a1 = F.fp_attrs(d)
        if fp0 != fp1:
            res["data_changed"] = F.diff_attrs(a0, a1)
        return res

    viol = []
    ref = {name: step(copy.deepcopy(model), op) for name, op in alphabet}
    doc0 = canon(model).split("|")[1]

    def check_state(m, hist):
        if canon(m).split("|")[1] != doc0:
            return [{"clause": "document_changed_by_use", "key": dict(key0, after=hist[-1].split(":")[0] if hist else "load"),
                     "detail": f"to_json() differs after history {hist}"}]
        return []

    def check_transition(src_hist, name, op, outcome, m_after):
        v = []
        if outcome["out"] != ref[name]["out"]:
            v.append({"clause": "history_dependent_output", "key": dict(key0, op=name.split(":")[0]),
                      "detail": f"{name} after {src_hist} gives {outcome['out']}, on a pristine copy {ref[name]['out']}"})
        if outcome.get("data_changed"):
            v.append({"clause": "predict_modifies_data_object", "key": dict(key0), "detail": f"{name} after {src_hist}: {outcome['data_changed']}"})
        return v

    g = stategraph.bfs(model, alphabet, step, canon, check_state, check_transition, max_depth=case.get("depth", 2))
    viol += g.violations
    summ = g.summary()
    summ.update(family=kind, alphabet=len(alphabet), raising_ops=sorted(n for n in ref if str(ref[n]["out"]).startswith("raise")))
    return {"behaviour": [kind, summ["states"], summ["fixpoint"], len(summ["raising_ops"]), len(viol)], "violations": viol,
            "stats": {"states": summ["states"], "transitions": summ["transitions"], "fixpoint": int(summ["fixpoint"])}, "extra": summ}


def run_case(case):
    return {"graph": run_graph, "frames": run_frames, "pframes": run_prediction_frames, "docgraph": run_docgraph}[case["part"]](case)


def cases(tier):
    out = []
    fams = FAMILIES
    for f in fams:
        out.append({"part": "frames", "family": f, "tier": tier})
    for f in fams:
        out.append({"part": "pframes", "family": f, "tier": tier})
    for f in fams:
        out.append({"part": "graph", "family": f, "days": 365, "depth": 2, "tier": tier, "loaded": True})
    for doc in ("daily_2_0", "daily_doc", "billing_doc"):
        out.append({"part": "docgraph", "doc": doc, "family": doc, "depth": 2, "tier": tier})
    for f in fams + VARIANTS:
        for days in ((365, 330) if ((tier == "thorough" and f in fams) or f in ("hourly",)) else (365,)):
            out.append({"part": "graph", "family": f, "days": days, "depth": 3 if tier == "thorough" and f != "caltrack" else 2, "tier": tier})
    return out


def run(tier, seed):
    cs = cases(tier)
    # longest first
    with poolmod.Pool(workers=min(len(cs), poolmod.n_workers())) as pool:
        ex = explore.explore(pool, "state graphs + frames", MOD, "run_case", cs, seed=seed, chunk=1)
    states = ex.stats.get("states", 0)
    trans = ex.stats.get("transitions", 0)
    graphs = [c for c in cs if c["part"] in ("graph", "docgraph")]
    cov = explore.merge_coverage(
        [ex],
        rule="graph cases: one fitted model per (family, baseline length); BFS over histories of predict(R_i) (5 spans x with/without "
        "usage) and fit-of-another-meter; behaviour = (family, days, states, fixpoint, #violations). frames cases: every constructor / "
        "from_series entry point of the family's data classes. pframes: prediction-frame independence. docgraph cases: models built from a "
        "2.0 document / a current document / a billing document, BFS over predict() on reporting sets in three zones",
        level_extra={
            "states": max(states, 1), "transitions": max(trans, 1), "traces_validated_against_impl": trans,
            "graphs": len(graphs), "graphs_at_fixpoint": ex.stats.get("fixpoint", 0),
            "explanation": "states/transitions are explored directly on the implementation (no separate model): every transition is a "
                           "real call on a snapshot of a real object; fixpoint = every operation maps every discovered state into the "
                           "discovered set, so the result holds for histories of any length over the alphabet",
        },
    )
    cov["graph_summaries"] = ex.extras
    return {"level": LEVEL, "coverage": cov, "violations": ex.violations, "assumptions": ASSUMPTIONS}


def replay(rep):
    vs = []
    for k in range(2):
        r = run_case(rep["case"])
        vs = [v for v in r.get("violations", []) if v["clause"] == rep["clause"]]
        print(f"run {k}: behaviour={r.get('behaviour')} violations={sorted(set(v['clause'] for v in r.get('violations', [])))}")
        for v in vs[:3]:
            print("  ", v["detail"][:600])
    return 1 if vs else 0
