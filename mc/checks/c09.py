"""C09 — daily temperature is the meter-day mean of the sub-daily temperatures.

Deviation-bounded exhaustive enumeration: a complete hourly / half-hourly feed
over the meter's span, <= d runs of NaN readings of each stated length at every
offset of a 6-local-day window that contains a DST day; crossed with meter kind,
entry point, class family, feed zone.  Oracle = `refmodels.tempday` (exact means
and counts computed from the supplied feed and the meter days).
"""
import datetime as dt
import itertools
from fractions import Fraction

import numpy as np
import pandas as pd

from .. import explore, pool as poolmod
from ..refmodels import intervals as iv
from ..refmodels import tempday
from .c08 import dst_dates, index_minutes, to_index

PROP = "C09"
LEVEL = "exploration"
MOD = "mc.checks.c09"
REL = 1e-9

ASSUMPTIONS = [
    "a meter day is [row, row + 1 local calendar day) for every row of the data object: local midnight for a daily "
    "meter read at midnight, an hourly meter and a billing meter; 06:00 -> 06:00 for a daily meter read at 06:00 "
    "(the statement's 'meter's own 24-hour day'; on a DST day that day is 23 / 25 hours long on the real clock)",
    "every reading supplied by the caller counts, including NaN readings at the very start or end of the feed: "
    "present / (present + absent) is taken over the readings the caller supplied for that day",
    "the feed covers the meter's span completely (one extra day on both sides in the feed's own zone); feed zones other "
    "than the meter's differ only in representation and in where the feed starts, which is what the statement allows "
    "(whole number of sampling intervals)",
    "frame entry: the caller converts the feed to the meter's zone and supplies the rows from the first meter "
    "timestamp (or 6 / 30 hours before it: frame_lead_hours) to the end of the last meter day; other frame layouts are "
    "not enumerated",
    "per-day counts are read from the coverage frame returned by the instance's own _set_data (recorded by a "
    "subclass that only stores the return value); a meter day missing from that frame is a mismatch, except a day "
    "without a single present reading, which may have no counts at all (the sufficiency test sees a day without "
    "temperature either way)",
    "violation keys do not carry Baseline/Reporting: both inherit the temperature code unchanged from the same private "
    "base class (the class is named in the detail)",
    "temperatures are multiples of 0.5 F so that the reference mean is exact; comparison at 1e-9 relative",
    "extra output rows (days that are not meter days) are ignored",
    "Reporting classes share the temperature code with the Baseline classes and are enumerated on a d <= 1 slice",
]

LENGTHS_H = [1, 6, 11, 12, 13, 23, 24]
N_DAYS = 6

# ------------------------------------------------------------------------------------ inputs


def window_start(zone, which, dst_pos):
    ds = dst_dates(zone)
    if not ds:
        return dt.date(2021, 3, 12)
    short = [d for d, m in ds if m < 1440]
    long_ = [d for d, m in ds if m > 1440]
    d = short[0] if which == "spring" else long_[0]
    return iv.add_days(d, -dst_pos)


def feed_zone_name(meter_zone, feed_zone):
    """Resolve '+1h' / '-5h' to a fixed-offset zone relative to the meter zone's January offset."""
    if feed_zone == "same":
        return meter_zone
    if feed_zone in ("+1h", "-5h"):
        jan = iv.wall_to_min(dt.date(2021, 1, 1), meter_zone)  # minutes since epoch of local midnight
        off_h = -((jan - iv.wall_to_min(dt.date(2021, 1, 1), "UTC")) // 60)  # meter offset in hours (east positive)
        off_h += 1 if feed_zone == "+1h" else -5
        return "UTC" if off_h == 0 else f"Etc/GMT{-off_h:+d}"
    return feed_zone


def meter_days(case):
    """(list of (start_min, end_min) meter days, anchor minute, first date)"""
    zone = case["zone"]
    d0 = window_start(zone, case["window"], case.get("dst_pos", 2))
    if case["family"] == "billing":
        first = iv.add_days(d0, -29)  # reads at d0-29, d0+1, d0+31: the window straddles the second read
        n = 60
        anchor = 0
    else:
        first, n = d0, case.get("n_days", N_DAYS)
        anchor = 360 if case["meter"] == "daily06" else 0
    days = [iv.day_bounds(iv.add_days(first, k), zone, anchor) for k in range(n)]
    return days, anchor, first, d0


def feed_series(case, days, d0):
    """(times, values) of the complete feed with the NaN runs applied.  Run offsets index the
    readings of the 6-day window (from the window's first meter-day start)."""
    zone, step = case["zone"], case["feed"]
    fz = feed_zone_name(zone, case.get("feed_zone", "same"))
    # feed spans from feed-local midnight one day before the meter span to one day after it
    da, _ = iv.min_to_wall(days[0][0], fz)
    db, _ = iv.min_to_wall(days[-1][1], fz)
    t0 = iv.wall_to_min(iv.add_days(da, -1), fz)
    t1 = iv.wall_to_min(iv.add_days(db, 2), fz)
    times = list(range(t0, t1, step))
    values = [Fraction(80 + 2 * ((i * 17) % 29) + (i % 2), 2) for i in range(len(times))]
    if case.get("cold"):
        # a cold-climate feed in whole degrees, -14 .. +14 F: one reading in 29 is exactly 0 F (a temperature, not "no reading")
        values = [Fraction((i * 17) % 29 - 14) for i in range(len(times))]
    anchor = 360 if case.get("meter") == "daily06" else 0
    w0 = iv.wall_to_min(d0, zone, anchor)
    base = times.index(w0)
    for s, n in case.get("runs", []):
        for i in range(base + s, base + s + n):
            values[i] = None
    return times, values, fz


def window_readings(case):
    zone, step = case["zone"], case["feed"]
    d0 = window_start(zone, case["window"], case.get("dst_pos", 2))
    anchor = 360 if case.get("meter") == "daily06" else 0
    a = iv.wall_to_min(d0, zone, anchor)
    b = iv.wall_to_min(iv.add_days(d0, N_DAYS), zone, anchor)
    return (b - a) // step


def build_inputs(case):
    zone = case["zone"]
    days, anchor, first, d0 = meter_days(case)
    times, values, fz = feed_series(case, days, d0)
    temp = pd.Series([np.nan if v is None else float(v) for v in values], index=to_index(times, fz), name="temperature")
    meter_kind = case["meter"]
    if meter_kind in ("daily00", "daily06"):
        mt = [a for a, _ in days]
        mv = [10.0 + (k % 5) for k in range(len(mt))]
    elif meter_kind == "hourly":
        mt = list(range(days[0][0], days[-1][1], 60))
        mv = [1.0 + (k % 3) for k in range(len(mt))]
    elif meter_kind == "billing":
        mt = [days[0][0], days[30][0], days[-1][1]]
        mv = [300.0, 330.0, np.nan]
    elif meter_kind == "none":
        # temperature-only reporting data: no meter at all; the days are the local calendar days of the zone the object is built for
        if case["entry"] == "from_series":
            import zoneinfo

            return ("series_none", temp, zoneinfo.ZoneInfo(zone)), days, times, values
        # frame without a usage column: the feed as it comes (it starts wherever the feed starts - at 18:00 or 19:00 local for a UTC feed)
        return ("frame", temp.tz_convert(zone).to_frame("temperature")), days, times, values
    else:
        raise ValueError(meter_kind)
    for k in case.get("meter_gaps", []):
        # a meter day without a usable reading (NaN): the day keeps its place on the METER's lattice and its temperature is still the
        # mean of its own readings
        if 0 < k < len(mv) - 1:
            mv[k] = np.nan
    for a, n, val in case.get("meter_runs", []):
        # an outage of an HOURLY meter: n readings from position a are NaN (val None) or zero (electricity: not a reading)
        for k in range(a, min(a + n, len(mv))):
            mv[k] = np.nan if val is None else float(val)
    meter = pd.Series(mv, index=to_index(mt, zone), name="value")
    if case["entry"] == "from_series":
        return ("series", meter, temp), days, times, values
    # frame: feed converted to the meter zone, rows from the first meter timestamp to the end of the last meter day
    t_loc = temp.tz_convert(zone)
    # frame_lead_hours: the weather rows begin some hours BEFORE the first meter day (a UTC-day download joined to a local-midnight meter)
    lo, hi = to_index([days[0][0] - 60 * case.get("frame_lead_hours", 0)], zone)[0], to_index([days[-1][1]], zone)[0]
    t_loc = t_loc[(t_loc.index >= lo) & (t_loc.index < hi)]
    if meter_kind == "billing":
        meter = meter.iloc[:-1]  # frame_lastday convention: final row = last day of the last period, observed NaN there
    frame = pd.DataFrame({"observed": meter.reindex(t_loc.index), "temperature": t_loc})
    return ("frame", frame), days, times, values


_PROBES = {}


def probe_class(family, cls):
    from opendsm.eemeter import BillingBaselineData, BillingReportingData, DailyBaselineData, DailyReportingData

    base = {("billing", "baseline"): BillingBaselineData, ("billing", "reporting"): BillingReportingData,
            ("daily", "baseline"): DailyBaselineData, ("daily", "reporting"): DailyReportingData}[(family, cls)]
    if base not in _PROBES:
        class Probe(base):  # records what the class's own _set_data returns; changes nothing
            def _set_data(self, data):
                out = super()._set_data(data)
                self._verif_coverage = out[1]
                return out

        Probe.__name__ = base.__name__
        Probe.__qualname__ = base.__qualname__
        _PROBES[base] = Probe
    return _PROBES[base]


# ------------------------------------------------------------------------------------ oracle


def close(obs, exp):
    exp = float(exp)
    return abs(obs - exp) <= REL * max(1.0, abs(exp))


def run_case(case):
    key0 = {"family": case["family"], "entry": case["entry"], "feed": case["feed"],
            "meter_day": "06:00" if case["meter"] == "daily06" else "midnight"}
    if case.get("cold"):
        key0["feed_values"] = "with_exact_zeros"
    inputs, days, times, values = build_inputs(case)
    ref = tempday.day_stats(times, values, days)
    cls = probe_class(case["family"], case.get("cls", "baseline"))
    try:
        if inputs[0] == "series":
            data = cls.from_series(inputs[1], inputs[2], is_electricity_data=True)
        elif inputs[0] == "series_none":
            data = cls.from_series(None, inputs[1], is_electricity_data=True, tzinfo=inputs[2])
        else:
            data = cls(inputs[1], is_electricity_data=True)
    except Exception as exc:
        if case.get("meter_gaps") and isinstance(exc, ValueError) and "Billing data is not allowed" in str(exc):
            # five readings in the six-day window, two of the four spacings above one day (the gap and the 25-hour day): the class
            # takes the meter for billing data.  Which meters a class accepts is C10's subject; nothing to judge about temperature
            return {"behaviour": ["gapped_meter_refused_as_billing"], "rejected": "gapped six-day meter classified as billing data"}
        return {"behaviour": ["raised", type(exc).__name__],
                "violations": [{"clause": "raised", "key": dict(key0, exc=type(exc).__name__),
                                "detail": f"runs {case.get('runs')}: {type(exc).__name__}: {str(exc)[:300]}"}]}
    df = data.df
    got_t = dict(zip(index_minutes(df.index), df["temperature"].to_numpy(dtype="float64")))
    cov = data._verif_coverage
    got_c = {}
    if cov is not None and {"temperature_not_null", "temperature_null"} <= set(cov.columns):
        for t, a, b in zip(index_minutes(cov.index), cov["temperature_not_null"].to_numpy(dtype="float64"),
                           cov["temperature_null"].to_numpy(dtype="float64")):
            got_c[t] = (a, b)
    head = (f"{case.get('cls', 'baseline')} class, {case['zone']} {case['window']} window, feed {case['feed']} min in {case.get('feed_zone', 'same')}, meter "
            f"{case['meter']}, NaN runs {case.get('runs', [])}: ")
    found = {}  # (clause, edge) -> [first detail, number of days]
    beh = []
    n_partial = 0

    def flag(clause, edge, detail):
        slot = found.setdefault((clause, edge), [detail, 0])
        slot[1] += 1

    for k, (r, (a, b)) in enumerate(zip(ref, days)):
        edge = "last_day" if k == len(days) - 1 else "other"
        date = iv.min_to_wall(a, case["zone"])[0]
        desc = f"meter day {date} ({(b - a) // 60} h): {r['present']} present / {r['absent']} absent readings"
        exp = r["expected"]
        got = got_t.get(a, np.nan)
        if r["absent"]:
            n_partial += 1
        if exp is None:
            ok = np.isnan(got)
            clause = "insufficient_day_not_missing"
            want = "missing (half or fewer present)"
        elif np.isnan(got):
            ok, clause, want = False, "sufficient_day_missing", repr(float(exp))
        else:
            ok, clause, want = close(got, exp), "day_mean", repr(float(exp))
        tag = ("m" if exp is None else "v") + ("" if ok else "!")
        if not ok:
            flag(clause, edge, desc + f"; temperature expected {want}, got {float(got)!r}")
        c = got_c.get(a)
        if c is None or np.isnan(c[0]) or np.isnan(c[1]):
            if r["present"] > 0:  # a day without any present reading may have no counts at all (see ASSUMPTIONS)
                flag("counts_missing", edge, desc + f"; the coverage frame has no counts for this day ({c})")
                tag += "c?"
        else:
            if c[0] != r["present"]:
                flag("count_present", edge, desc + f"; temperature_not_null = {float(c[0])!r}")
                tag += "p!"
            if c[1] != r["absent"]:
                flag("count_absent", edge, desc + f"; temperature_null = {float(c[1])!r}")
                tag += "a!"
        beh.append(tag)
    viol = []
    for (clause, edge), (detail, n) in found.items():
        key = dict(key0) if edge is None else dict(key0, edge=edge)
        viol.append({"clause": clause, "key": key,
                     "detail": head + detail + (f" (and {n - 1} more meter day(s) of this case)" if n > 1 else "")})
    if case["family"] == "billing":
        beh = beh[27:36] + [sum(1 for x in beh if "!" in x or "?" in x)]
    return {"behaviour": beh, "violations": viol, "nontrivial": n_partial > 0 or not case.get("runs"),
            "stats": {"days_compared": len(days), "days_with_missing_readings": n_partial}}


# ------------------------------------------------------------------------------------ enumeration


def run_sets(n, step, d, lattice=1):
    """<= d NaN runs: lengths LENGTHS_H hours (in readings), starts at every `lattice`-th reading of the window."""
    per_h = 60 // step
    singles = [(s, l * per_h) for l in LENGTHS_H for s in range(0, n, lattice) if s + l * per_h <= n]
    if d == 0:
        return [[]]
    if d == 1:
        return [[list(r)] for r in singles]
    out = []
    for a, b in itertools.combinations(sorted(singles), 2):
        if a[0] + a[1] < b[0]:
            out.append([list(a), list(b)])
    return out


def cases(tier):
    out = []
    quick = tier == "quick"
    meter_zones = ["America/Chicago"] if quick else ["America/Chicago", "Europe/London", "Australia/Sydney"]

    def add(base, d, lattice=1):
        n = window_readings(base)
        for runs in run_sets(n, base["feed"], d, lattice):
            out.append(dict(base, runs=runs))

    # ---- a meter day without a reading (hourly feed): every interior day, both daily meters / entries (two missing days in the
    # 6-day window make the class take the meter for billing data: an acceptance matter, C10)
    for z in meter_zones:
        for w in ("spring", "autumn"):
            for meter in ("daily00", "daily06"):
                for entry in ("from_series", "frame"):
                    for gaps in [[k] for k in range(1, N_DAYS - 1)]:
                        out.append({"family": "daily", "cls": "baseline", "entry": entry, "feed": 60, "feed_zone": "same", "meter": meter,
                                    "zone": z, "window": w, "dst_pos": N_DAYS // 2, "runs": [], "meter_gaps": gaps})
    # ---- frames whose weather rows start 6 / 30 hours before the first meter day, with and without an absent meter day: the days stay on
    # the meter's lattice (every meter day keeps its stamp and the mean of its own readings)
    for z in meter_zones:
        for w in ("spring", "autumn"):
            for lead in (6, 30):
                for feed in (60, 30):
                    for gaps in [[]] + [[k] for k in range(1, N_DAYS - 1)]:
                        out.append({"family": "daily", "cls": "baseline", "entry": "frame", "feed": feed, "feed_zone": "same", "meter": "daily00",
                                    "zone": z, "window": w, "dst_pos": N_DAYS // 2, "runs": [], "meter_gaps": gaps, "frame_lead_hours": lead})
    # ---- one-day and two-day data objects (single-day reporting, day-by-day scoring): the day keeps its own stamp and the mean of its own
    # readings, through every entry point, with and without a meter, also when that day is the day of the clock change
    for z in meter_zones:
        for n_days in (1, 2):
            for pos in (0, 2):
                for feed in (60, 30):
                    for cls in ("baseline", "reporting"):
                        for meter, entry in (("daily00", "from_series"), ("daily00", "frame"), ("hourly", "from_series"), ("none", "from_series"), ("none", "frame")):
                            if meter == "none" and cls == "baseline":
                                continue
                            for runs in ([], [[0, 6 * 60 // feed]], [[0, 13 * 60 // feed]]):
                                out.append({"family": "daily", "cls": cls, "entry": entry, "feed": feed, "feed_zone": "same", "meter": meter,
                                            "zone": z, "window": "spring", "dst_pos": pos, "runs": runs, "n_days": n_days})
    # ---- an hourly meter that is down for half a day or more (hourly feed): runs of 11/12/13/24/30 readings at every 6th hour of the
    # interior days, as NaN and as zero; every day keeps its row and the mean of its OWN temperature readings
    for z in meter_zones:
        for w in ("spring", "autumn"):
            for entry in ("from_series", "frame"):
                for n in (11, 12, 13, 24, 30):
                    for a in range(24, 24 * (N_DAYS - 1) - n, 6):
                        for val in (None, 0.0):
                            out.append({"family": "daily", "cls": "baseline", "entry": entry, "feed": 60, "feed_zone": "same", "meter": "hourly",
                                        "zone": z, "window": w, "dst_pos": N_DAYS // 2, "runs": [], "meter_runs": [[a, n, val]]})
    # ---- d = 0: every feed zone, every position of the DST day in the window, every meter / entry / class
    for z in meter_zones:
        for w in ("spring", "autumn"):
            for pos in range(N_DAYS):
                for feed in (60, 30):
                    for fz in ("same", "UTC", "+1h", "-5h", "Asia/Kolkata"):
                        if fz == "Asia/Kolkata" and feed == 60:
                            continue
                        for meter in ("daily00", "daily06", "hourly"):
                            for entry in ("from_series", "frame"):
                                if entry == "frame" and fz != "same":
                                    continue
                                for cls in ("baseline", "reporting"):
                                    out.append({"family": "daily", "cls": cls, "entry": entry, "feed": feed, "feed_zone": fz,
                                                "meter": meter, "zone": z, "window": w, "dst_pos": pos, "runs": []})
            for feed in (60, 30):
                for entry in ("from_series", "frame"):
                    for cls in ("baseline", "reporting"):
                        out.append({"family": "billing", "cls": cls, "entry": entry, "feed": feed, "feed_zone": "same",
                                    "meter": "billing", "zone": z, "window": w, "dst_pos": 2, "runs": []})
    # ---- temperature-only reporting data (no meter at all): the days are local calendar days whatever instant the feed starts at
    for z in meter_zones:
        for w in ("spring", "autumn"):
            for feed in (60, 30):
                for fz in ("same", "UTC", "+1h", "-5h") + (("Asia/Kolkata",) if feed == 30 else ()):
                    for entry in ("from_series", "frame"):
                        base = {"family": "daily", "cls": "reporting", "entry": entry, "feed": feed, "feed_zone": fz, "meter": "none",
                                "zone": z, "window": w, "dst_pos": 2}
                        out.append(dict(base, runs=[]))
                        if fz in ("same", "UTC") and entry == "from_series" and feed == 60:
                            add(base, 1, lattice=6)
    # ---- a cold feed with readings of exactly 0 F: undeviated, and with one run ending so that a day sits at its 50 % threshold
    for z in meter_zones[:1]:
        for feed in (60, 30):
            for meter, family in (("daily00", "daily"), ("daily06", "daily"), ("hourly", "daily"), ("billing", "billing")):
                for entry in ("from_series", "frame"):
                    for cls in ("baseline", "reporting"):
                        base = {"family": family, "cls": cls, "entry": entry, "feed": feed, "feed_zone": "same", "meter": meter,
                                "zone": z, "window": "spring", "dst_pos": 2, "cold": True}
                        out.append(dict(base, runs=[]))
                        if cls == "baseline" and entry == "from_series" and meter in ("daily00", "billing"):
                            add(base, 1, lattice=(6 if quick else 1) * 60 // feed)
    # ---- d = 1
    for z in meter_zones:
        for w in ("spring", "autumn"):
            for feed in (60, 30):
                for meter in ("daily00", "daily06", "hourly"):
                    for entry in ("from_series", "frame"):
                        if quick and not (w == "spring" and (entry == "from_series" or meter == "daily00")) \
                                and not (w == "autumn" and entry == "from_series" and meter == "daily00"):
                            continue
                        if not quick and z != "America/Chicago" and entry == "frame":
                            continue  # the frame entry differs from from_series only by the trimming; one DST zone is enough
                        add({"family": "daily", "cls": "baseline", "entry": entry, "feed": feed, "feed_zone": "same",
                             "meter": meter, "zone": z, "window": w, "dst_pos": 2}, 1)
                # feed zones: representation / start instant only -> 6-hour lattice
                if w == "spring" or not quick:
                    for fz in ("UTC", "+1h", "-5h", "Asia/Kolkata"):
                        if fz == "Asia/Kolkata" and feed == 60:
                            continue
                        add({"family": "daily", "cls": "baseline", "entry": "from_series", "feed": feed, "feed_zone": fz,
                             "meter": "daily00", "zone": z, "window": w, "dst_pos": 2}, 1, lattice=6 * 60 // feed)
                # reporting class slice: 3-hour lattice
                if w == "spring" or not quick:
                    add({"family": "daily", "cls": "reporting", "entry": "from_series", "feed": feed, "feed_zone": "same",
                         "meter": "daily00", "zone": z, "window": w, "dst_pos": 2}, 1, lattice=3 * 60 // feed)
                # billing classes
                if z == "America/Chicago" and (w == "spring" or not quick):
                    for entry in ("from_series", "frame"):
                        add({"family": "billing", "cls": "baseline", "entry": entry, "feed": feed, "feed_zone": "same",
                             "meter": "billing", "zone": z, "window": w, "dst_pos": 2}, 1,
                            lattice=(1 if feed == 60 else 8) if quick else (1 if feed == 60 else 2))
                    add({"family": "billing", "cls": "reporting", "entry": "from_series", "feed": feed, "feed_zone": "same",
                         "meter": "billing", "zone": z, "window": w, "dst_pos": 2}, 1, lattice=12 * 60 // feed)
    # ---- d = 2 (thorough): two runs, 4-hour lattice (hourly feed) / 6-hour lattice (half-hourly feed)
    if not quick:
        for w in ("spring", "autumn"):
            for feed in (60, 30):
                for meter in ("daily00", "daily06"):
                    if meter == "daily06" and (feed == 30 or w == "autumn"):
                        continue
                    add({"family": "daily", "cls": "baseline", "entry": "from_series", "feed": feed, "feed_zone": "same",
                         "meter": meter, "zone": "America/Chicago", "window": w, "dst_pos": 2}, 2,
                        lattice=4 if feed == 60 else 12)
        add({"family": "billing", "cls": "baseline", "entry": "from_series", "feed": 60, "feed_zone": "same",
             "meter": "billing", "zone": "America/Chicago", "window": "spring", "dst_pos": 2}, 2, lattice=6)
    return out


# ------------------------------------------------------------------------------------ driver


def run(tier, seed):
    cs = cases(tier)
    with poolmod.Pool() as pool:
        ex = explore.explore(pool, "feeds x meters x entry points x NaN runs", MOD, "run_case", cs, seed=seed)
    cov = explore.merge_coverage(
        [ex],
        rule="one case = (class family, class, entry point, feed interval, feed zone, meter kind, meter zone, DST window, "
        "position of the DST day, <= d NaN runs); behaviour = per-meter-day vector of (value|missing expected, ok?, count "
        "mismatches); a case is non-trivial when at least one meter day has a missing reading (or it is a gap-free base case)",
    )
    cov["days_compared"] = ex.stats.get("days_compared", 0)
    cov["days_with_missing_readings"] = ex.stats.get("days_with_missing_readings", 0)
    return {"level": LEVEL, "coverage": cov, "violations": ex.violations, "assumptions": ASSUMPTIONS}


def replay(rep):
    vs = []
    for k in range(2):
        r = run_case(rep["case"])
        vs = [v for v in r.get("violations", []) if v["clause"] == rep["clause"] and v["key"] == rep.get("key", v["key"])]
        print(f"run {k}: behaviour={r.get('behaviour')} violations={len(r.get('violations', []))}, of clause {rep['clause']} with the recorded key: {len(vs)}")
        for v in vs[:3]:
            print("  ", v["key"], v["detail"])
    return 1 if vs else 0
