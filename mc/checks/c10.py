"""C10 — sufficiency verdicts are exactly the published criteria.

Exhaustive enumeration of a union of finite products (see `cases`): data class x role x fuel x
span x number of missing days (on both sides of every threshold) x what is missing x placement
x value defect x entry point x temperature feed x zone.  Every case builds a synthetic input,
constructs the real data class, and compares the *criteria* named by `data.disqualification`
with the `sufficiency` reference evaluated on the input alone (integers / Fractions).
"""
import datetime
import math

import numpy as np
import pandas as pd

from .. import explore, pool as poolmod
from ..refmodels import sufficiency as ref

PROP = "C10"
LEVEL = "exploration"
MOD = "mc.checks.c10"

ASSUMPTIONS = [
    "span = number of local calendar days from the first to the last day of data, both inclusive (billing: days covered by "
    "the read periods); the first and the last day are always complete, so 'first row' and 'first valid row' coincide",
    "day counting follows the statement: a timestamp's period runs up to the next timestamp, so the last daily row has no "
    "period and at most N-1 of N days are countable; the denominator is the span N; thresholds are strict '<' on exact "
    "fractions (daily class with a daily temperature feed is decided strictly on this reading, as pinned in DESIGN C10)",
    "missing data is encoded as NaN on a complete index, whole local days at a time (hourly class: all hours of the day); "
    "absent rows and partially missing days are not enumerated near thresholds because the statement does not say how "
    "hours make up a valid day (month family of the hourly class uses hour-granular gaps for the per-month criteria only)",
    "ambiguity bands (both verdicts accepted, counted in coverage.bands): "
    "hourly temperature feed under a daily/billing meter (day grid vs hours of the feed); billing closing read (period sum N "
    "vs daily grid N-1); off-cycle period counted as valid or as dropped; zones with DST, daily / billing rows (+-1/8 day on the counts of valid days: days counted vs real day lengths; the hourly class is "
    "decided on exact hours / 24; "
    "the span itself is a number of calendar days and is decided exactly in every zone, also when it starts in one clock phase and "
    "ends in the other); "
    "months pooled by month number vs separate (year, month) when a span revisits a month",
    "month coverage is relative to the days (hours) of that month that lie inside the span",
    "reporting data: span and negative-usage criteria are baseline-only; for supplied reporting usage two complete readings "
    "are accepted (usage criteria do not apply / apply) and the observed set must match one of them; temperature-only "
    "reporting data must not be disqualified for usage or for 'no data'",
    "no complete row at all (a column entirely missing): the span is undefined, so only 'nothing valid' verdicts are "
    "required (the empty column's coverage criteria; 'no data' only when both columns are empty); the constructor must "
    "not raise",
    "warning-only conditions (extreme value > median + 6 IQR in a baseline, tz named UTC, a billing period outside 25..35 "
    "days, daily pre-aggregated temperature) must appear in data.warnings and never among the disqualifications; their "
    "absence is never checked; extreme values are not demanded of reporting data",
    "billing classes receive billing-cycle reads only (monthly calendars of 28..32-day periods, or ~61-day periods in the "
    "bi-monthly gap family); sub-daily meter data is never fed to the daily class (gap smearing belongs to C08)",
    "a billing read whose value is NaN is a period boundary with unknown usage (the statement's rule: a timestamp's period "
    "runs up to the next timestamp): its days lack valid usage, the neighbouring periods keep theirs (family 'billing NaN "
    "reads', keyed separately; the resulting loss/smearing of the neighbouring read is C08's subject)",
    "billing from_series: the temperature series extends through the closing read's timestamp (otherwise from_series trims "
    "the closing read as misaligned)",
    "classes under test: opendsm.eemeter Daily/Billing/Hourly x Baseline/Reporting data classes (the legacy CalTRACK hourly "
    "data classes use a different, warnings-only sufficiency routine and are not part of the property's anchors)",
]

ZONE_FIXED = "Etc/GMT+6"
START = "2021-01-01"
SPANS = [250, 328, 329, 330, 364, 365, 366, 367, 420]
CLASSES = ["daily", "billing", "hourly"]
ROLES = ["baseline", "reporting"]


def m_values(n):
    f, c = n // 10, math.ceil(n / 10)
    return sorted({0, f - 1, f, f + 1, c + 1})


# ----------------------------------------------------------------------------------------------
# gap placement (day indices 1..N-2; first and last day always complete)
# ----------------------------------------------------------------------------------------------
def month_block(start, n, length):
    """index range of the first calendar month lying entirely inside days 1..N-2 that has >= length days"""
    d0 = pd.Timestamp(start)
    days = pd.date_range(d0, periods=n, freq="D")
    ym = days.year * 12 + days.month
    for key in sorted(set(ym)):
        pos = np.flatnonzero(ym == key)
        full = days[pos[0]].day == 1 and (days[pos[-1]] + pd.Timedelta(days=1)).day == 1
        if full and pos[0] >= 1 and pos[-1] <= n - 2 and len(pos) >= length:
            return int(pos[0]), int(pos[-1])
    return None


def gap_days(n, m, place, start=START):
    if m == 0:
        return []
    if place == "interior":
        s = n // 3
        out = list(range(s, s + m))
    elif place == "two":
        a, b = (m + 1) // 2, m // 2
        s1, s2 = n // 5, (3 * n) // 5
        out = list(range(s1, s1 + a)) + list(range(s2, s2 + b))
    elif place == "kth":
        k = (n - 2) // m
        out = [1 + i * k for i in range(m)]
    elif place == "month":
        blk = month_block(start, n, m)
        if blk is None:
            return None
        out = list(range(blk[0], blk[0] + m))
    else:
        raise ValueError(place)
    assert len(set(out)) == m and min(out) >= 1 and max(out) <= n - 2, (n, m, place)
    return out


def split_gaps(case):
    """-> (usage gap days, temperature gap days) or None when the placement is not realisable"""
    g = gap_days(case["N"], case["m"], case.get("place", "interior"), case.get("start", START))
    if g is None:
        return None
    what = case.get("what", "none")
    if what == "none" or not g:
        return [], []
    if what == "usage":
        return g, []
    if what == "temp":
        return [], g
    if what == "same":
        return g, g
    if what == "disjoint":
        if case.get("place") == "kth":
            return g[0::2], g[1::2]
        h = (len(g) + 1) // 2
        return g[:h], g[h:]
    raise ValueError(what)


# ----------------------------------------------------------------------------------------------
# synthetic input
# ----------------------------------------------------------------------------------------------
def _localize(naive, zone):
    if zone == "tzutc":
        return naive.tz_localize("UTC").tz_convert(datetime.timezone.utc)
    # zones whose clock changes AT local midnight: the day starts at its first existing instant
    return naive.tz_localize(zone, nonexistent="shift_forward", ambiguous=True)


def day_index(start, n, zone):
    return _localize(pd.date_range(pd.Timestamp(start), periods=n, freq="D"), zone)


def hour_index(start, n_days, zone):
    """every hour of n_days whole local days (contiguous on the real clock)"""
    a = _localize(pd.DatetimeIndex([pd.Timestamp(start)]), zone)[0]
    b = _localize(pd.DatetimeIndex([pd.Timestamp(start) + pd.Timedelta(days=n_days)]), zone)[0]
    idx = pd.date_range(a.tz_convert("UTC"), b.tz_convert("UTC"), freq="h", inclusive="left")
    return idx.tz_convert(a.tz)


def daily_usage_values(n):
    i = np.arange(n)
    return 20.0 + 5.0 * np.sin(2 * np.pi * i / 365.0) + ((i * 37) % 11) / 11.0


def daily_temp_values(n):
    i = np.arange(n)
    return 55.0 + 20.0 * np.sin(2 * np.pi * (i - 100) / 365.0) + ((i * 53) % 7) / 7.0


def billing_lens(n, offcycle=False, bimonthly=False):
    if bimonthly == "short_pair":
        # bi-monthly calendar with two adjacent 35-day periods at positions 2 and 3
        body = n - 70
        base, r = divmod(body, 5)
        lens = [base + (1 if i < r else 0) for i in range(5)]
        return lens[:2] + [35, 35] + lens[2:]
    if bimonthly:
        k = max(2, round(n / 61))
        base, r = divmod(n, k)
        return [base + (1 if i < r else 0) for i in range(k)]
    body = n - 10 if offcycle else n
    k = round(body / 30)
    base, r = divmod(body, k)
    lens = [base + (1 if i < r else 0) for i in range(k)]
    if offcycle:
        lens.insert(3, 10)
    assert sum(lens) == n
    return lens


def _pick_day(n, ug, tg):
    bad = set(ug) | set(tg)
    p = n // 2
    while p in bad:
        p += 1
    assert 1 <= p <= n - 2
    return p


def build(case):
    """-> dict(meter, temp, ghi, closing, kind, feed, zone, ...) of pandas objects, or None if not realisable."""
    kind, n = case["cls"], case["N"]
    zone = "UTC" if case.get("defect") == "utc" else case.get("zone", ZONE_FIXED)
    start = case.get("start", START)
    feed = "h" if kind == "hourly" else case.get("feed", "D")
    defect = case.get("defect", "none")
    if "gaps" in case:  # explicit gaps (month / nodata families)
        ug, tg = case["gaps"].get("usage", []), case["gaps"].get("temp", [])
    else:
        sg = split_gaps(case)
        if sg is None:
            return None
        ug, tg = sg
    gg = case.get("gaps", {}).get("ghi", tg) if case.get("ghi") else None
    hours = case.get("gap_hours")  # hourly class only: {"usage"|"temp"|"ghi": [hour indices]}
    days = day_index(start, n, zone)
    uvals = daily_usage_values(n)
    tvals = daily_temp_values(n)
    closing = None
    # ---------------- meter
    if kind == "daily":
        v = uvals.copy()
        if defect in ("negative", "spike"):
            p = _pick_day(n, ug, tg)
            med, q1, q3 = np.median(uvals), np.quantile(uvals, 0.25), np.quantile(uvals, 0.75)
            v[p] = -5.0 if defect == "negative" else med + 10 * (q3 - q1)
        if defect == "zeros":  # gas only: a zero reading is a measured value, not a missing one (e.g. no gas use in summer)
            v[n // 3: n // 3 + max(2, n // 6)] = 0.0
        v[ug] = np.nan
        meter = pd.Series(v, index=days, name="observed")
    elif kind == "billing":
        lens = billing_lens(n, offcycle=(defect == "offcycle"), bimonthly={"bimonthly": True, "bimonthly_short_pair": "short_pair"}.get(case.get("regime"), False))
        starts = np.concatenate([[0], np.cumsum(lens)])
        reads = np.array([uvals[a:b].sum() for a, b in zip(starts[:-1], starts[1:])])
        rates = reads / np.array(lens)
        if defect in ("negative", "spike"):
            j = int(np.searchsorted(starts, n // 2, side="right") - 1)
            med, q1, q3 = np.median(rates), np.quantile(rates, 0.25), np.quantile(rates, 0.75)
            reads[j] = -100.0 if defect == "negative" else lens[j] * (med + 10 * (q3 - q1))
        for j in case.get("nan_reads", []):
            reads[j] = np.nan
        assert not ug, "billing usage gaps are expressed as nan_reads"
        closing_ts = _localize(pd.DatetimeIndex([pd.Timestamp(start) + pd.Timedelta(days=n)]), zone)[0]
        closing = (closing_ts.year, closing_ts.month, closing_ts.day)
        meter = pd.Series(np.append(reads, np.nan), index=days[starts[:-1]].append(pd.DatetimeIndex([closing_ts])),
                          name="observed")
    else:
        hidx = hour_index(start, n, zone)
        local = hidx.tz_localize(None)
        dnum = (local.normalize() - pd.Timestamp(start)).days.to_numpy()
        hr = local.hour.to_numpy()
        k = np.arange(len(hidx))
        v = 1.0 + 0.3 * np.sin(2 * np.pi * hr / 24.0) + 0.2 * np.sin(2 * np.pi * dnum / 365.0) + ((k * 37) % 11) / 55.0
        if defect in ("negative", "spike"):
            p = _pick_day(n, ug, tg)
            pos = int(np.flatnonzero((dnum == p) & (hr == 12))[0])
            med, q1, q3 = np.median(v), np.quantile(v, 0.25), np.quantile(v, 0.75)
            v[pos] = -0.5 if defect == "negative" else med + 10 * (q3 - q1)
        if defect == "zeros":
            v[(dnum >= n // 3) & (dnum < n // 3 + max(2, n // 6))] = 0.0
        v[np.isin(dnum, ug)] = np.nan
        if hours and hours.get("usage"):
            v[hours["usage"]] = np.nan
        meter = pd.Series(v, index=hidx, name="observed")
    # ---------------- temperature (+ ghi)
    ghi = None
    if feed == "D":
        t = tvals.copy()
        t[tg] = np.nan
        tidx = days
        if kind == "billing" and case.get("entry") == "series":
            tidx = day_index(start, n + 1, zone)
            t = np.append(t, tvals[-1])
        temp = pd.Series(t, index=tidx, name="temperature")
    else:
        hidx = meter.index if kind == "hourly" else hour_index(start, n, zone)
        local = hidx.tz_localize(None)
        dnum = (local.normalize() - pd.Timestamp(start)).days.to_numpy()
        hr = local.hour.to_numpy()
        t = tvals[dnum] + 5.0 * np.sin(2 * np.pi * (hr - 9) / 24.0)
        t[np.isin(dnum, tg)] = np.nan
        if hours and hours.get("temp"):
            t[hours["temp"]] = np.nan
        if kind == "billing" and case.get("entry") == "series":
            extra = _localize(pd.DatetimeIndex([pd.Timestamp(start) + pd.Timedelta(days=n)]), zone)
            hidx_t = hidx.append(extra)
            t = np.append(t, t[-1] if not np.isnan(t[-1]) else 50.0)
        else:
            hidx_t = hidx
        temp = pd.Series(t, index=hidx_t, name="temperature")
        if case.get("ghi"):
            g = 1.0 + 600.0 * np.clip(np.sin(np.pi * (hr - 6) / 12.0), 0, None)
            g[np.isin(dnum, gg)] = np.nan
            if hours and hours.get("ghi"):
                g[hours["ghi"]] = np.nan
            ghi = pd.Series(g, index=hidx, name="ghi")
    col = case.get("column")  # nodata family: empty a whole column
    if col in ("usage", "both"):
        meter = meter * np.nan
    if col in ("temp", "both"):
        temp = temp * np.nan
    return {"meter": meter, "temp": temp, "ghi": ghi, "closing": closing, "kind": kind, "feed": feed, "zone": zone}


def rows_of(series):
    idx = series.index
    vals = series.to_numpy(dtype="float64")
    y, mo, d, h = idx.year.to_numpy(), idx.month.to_numpy(), idx.day.to_numpy(), idx.hour.to_numpy()
    return [((int(y[i]), int(mo[i]), int(d[i]), int(h[i])), None if np.isnan(vals[i]) else float(vals[i]))
            for i in range(len(idx))]


def data_class(kind, role):
    import opendsm.eemeter as em

    return getattr(em, {"daily": "Daily", "billing": "Billing", "hourly": "Hourly"}[kind]
                   + {"baseline": "Baseline", "reporting": "Reporting"}[role] + "Data")


def construct(case, inp):
    cls = data_class(case["cls"], case["role"])
    electric = case.get("fuel", "electric") == "electric"
    kind, entry = case["cls"], case.get("entry", "frame")
    meter, temp, ghi = inp["meter"], inp["temp"], inp["ghi"]
    form = case.get("form")
    if entry == "series":
        if form == "series_none":
            return cls.from_series(None, temp, is_electricity_data=electric)
        return cls.from_series(meter, temp, is_electricity_data=electric)
    # frame entry
    if kind == "hourly":
        df = pd.DataFrame({"observed": meter, "temperature": temp})
        if ghi is not None:
            df["ghi"] = ghi
    elif kind == "daily":
        df = pd.DataFrame({"temperature": temp})
        df["observed"] = meter.reindex(df.index)
        df = df[["observed", "temperature"]]
    else:
        df = pd.DataFrame({"temperature": temp})
        df["observed"] = meter.iloc[:-1].reindex(df.index)  # final frame row = last day of the last period
        df = df[["observed", "temperature"]]
    extra = case.get("extra_column")
    if extra:
        # a column that is no criterion at all (a bookkeeping / sensor column the caller's frame carries)
        k = {"complete": 0, "nan_first_40_days": 40, "nan_first_180_days": 180, "all_nan": len(df)}[extra]
        rows = k if extra == "all_nan" else k * (24 if kind == "hourly" else 1)
        col = np.full(len(df), 50.0)
        col[:rows] = np.nan
        df["humidity"] = col
    if form == "no_column":
        df = df.drop(columns=["observed"])
    elif form == "nan_column":
        df["observed"] = np.nan
    elif form == "dtcol":
        df = df.reset_index(names="datetime")
    if case.get("absent_rows"):
        # the gaps are given as ABSENT rows: days on which neither usage nor temperature exists are not in the frame at all
        df = df[~df[[c for c in ("observed", "temperature") if c in df.columns]].isna().all(axis=1)]
    return cls(df, is_electricity_data=electric)


# ----------------------------------------------------------------------------------------------
# one case
# ----------------------------------------------------------------------------------------------
def _key(case, **kw):
    """coarse grouping key: one root cause should fall into a handful of groups"""
    fam = case["fam"]
    if fam == "utcform":  # two root causes: tz spelled other than 'UTC'; datetime column instead of index
        k = {"fam": fam, "form": "dtcol" if case.get("form") == "dtcol" else "tz_spelling"}
    elif fam == "nodata":
        k = {"fam": fam}
    elif fam == "bgap":
        k = {"cls": case["cls"], "fam": fam}  # one root cause: NaN reads are dropped before periods are formed
        kw.pop("criterion", None)
    elif fam == "absent":
        k = {"cls": case["cls"], "role": case["role"], "fam": fam}
    elif fam == "midnight_edge":
        k = {"cls": case["cls"], "fam": fam}
    else:
        k = {"cls": case["cls"], "role": case["role"], "fam": fam if fam == "tonly" else "main"}
    k.update(kw)
    return k


def run_case(case):
    inp = build(case)
    if inp is None:
        return {"rejected": "placement_not_realisable"}
    kind, role = case["cls"], case["role"]
    electric = case.get("fuel", "electric") == "electric"
    no_usage = case.get("form") in ("no_column", "nan_column", "series_none")
    usage_rows = None if no_usage else rows_of(inp["meter"])
    if kind == "billing" and usage_rows is not None:
        usage_rows = usage_rows[:-1]  # the closing read carries no usage of its own
    zone = inp["zone"]
    expected = ref.evaluate(
        kind, role, electric, usage_rows, rows_of(inp["temp"]),
        ghi_rows=rows_of(inp["ghi"]) if inp["ghi"] is not None else None,
        closing=inp["closing"], temp_feed=inp["feed"],
        dst=zone not in ("UTC", "tzutc", "Etc/UTC", ZONE_FIXED, "Asia/Kolkata"),
        utc=zone in ("UTC", "tzutc", "Etc/UTC"),
    )
    viol = []
    try:
        data = construct(case, inp)
    except Exception as exc:  # noqa: BLE001 - any exception on well-formed input is the observation
        viol.append({"clause": "constructor_raised", "key": _key(case, exc=type(exc).__name__),
                     "detail": f"{type(exc).__name__}: {str(exc)[:200]}; expected criteria "
                               f"{_fmt(expected['readings'])} info={expected['info']}"})
        return {"behaviour": {"exc": type(exc).__name__}, "violations": viol, "stats": {"raised": 1}}
    dq = [ref.LIB_NAMES.get(w.qualified_name, "UNKNOWN:" + w.qualified_name) for w in data.disqualification]
    wn = [ref.LIB_NAMES.get(w.qualified_name, "UNKNOWN:" + w.qualified_name) for w in data.warnings]
    observed = set(dq)
    stats = {}
    for c in observed - set(ref.CRITERIA) - set(ref.WARN_ONLY):
        viol.append({"clause": "unknown_disqualification", "key": _key(case, name=c),
                     "detail": f"disqualification {c} is not one of the published criteria"})
    for c in sorted(observed & set(ref.WARN_ONLY)):
        viol.append({"clause": "warning_only_condition_disqualifies", "key": _key(case, cond=c),
                     "detail": f"{c} is listed in data.disqualification {sorted(observed)} (warnings {sorted(set(wn))}); "
                               f"the statement makes it a warning"})
    for c, req in expected["warn_required"].items():
        if req and c not in wn and c not in observed:
            viol.append({"clause": "warning_missing", "key": _key(case, cond=c),
                         "detail": f"condition {c} is present in the input but data.warnings = {sorted(set(wn))}"})
    ok, ri, mism = ref.conforms(expected["readings"], observed)
    for c, exp, got in mism:
        viol.append({
            "clause": "missing_disqualification" if exp else "spurious_disqualification",
            "key": _key(case, criterion=c),
            "detail": f"criterion {c}: input {'violates' if exp else 'satisfies'} it, class reports "
                      f"{sorted(observed & set(ref.CRITERIA))}; expected {_fmt(expected['readings'])}; "
                      f"counts {expected['info']} bands={expected['bands']}",
        })
    r0 = expected["readings"][0]
    for c in ref.CRITERIA:
        v = r0[c]
        stats[f"exp_{c}_{'open' if v is None else 'viol' if v else 'ok'}"] = 1
        if c in observed:
            stats[f"obs_{c}"] = 1
    for b in expected["bands"]:
        stats["band_" + b] = 1
    if any(b != "dst_zone_margin" for b in expected["bands"]):  # at least one verdict left open
        stats["cases_with_band"] = 1
    for c, req in expected["warn_required"].items():
        if req:
            stats["warn_required_" + c] = 1
    return {"behaviour": {"dq": sorted(observed), "warn": sorted(set(wn))}, "violations": viol, "stats": stats}


def _fmt(readings):
    out = []
    for r in readings:
        req = sorted(c for c in ref.CRITERIA if r[c] is True)
        opn = sorted(c for c in ref.CRITERIA if r[c] is None)
        out.append(f"{{required {req}" + (f", either {opn}" if opn else "") + "}")
    return " or ".join(out)


# ----------------------------------------------------------------------------------------------
# the enumerated space
# ----------------------------------------------------------------------------------------------
def entry_feed_pairs(kind, tier):
    if kind == "hourly":
        return [("frame", "h")]
    if tier == "quick":
        return [("frame", "D"), ("series", "h")]
    return [("frame", "D"), ("frame", "h"), ("series", "D"), ("series", "h")]


def whats(kind):
    return ["temp"] if kind == "billing" else ["usage", "temp", "same", "disjoint"]


def grid_cases(tier):
    out = []
    places = ["interior", "kth"] if tier == "quick" else ["interior", "month", "kth", "two"]
    fuels = ["electric"] if tier == "quick" else ["electric", "gas"]
    for kind in CLASSES:
        ghis = [False, True] if (kind == "hourly" and tier == "thorough") else [False]
        for role in ROLES:
            for fuel in fuels:
                for entry, feed in entry_feed_pairs(kind, tier):
                    for ghi in ghis:
                        for n in SPANS:
                            for m in m_values(n):
                                combos = [("none", "interior")] if m == 0 else [
                                    (w, p) for w in whats(kind) for p in places
                                    if p != "month" or month_block(START, n, m) is not None]  # block must fit one month
                                for what, place in combos:
                                    c = {"fam": "grid", "cls": kind, "role": role, "fuel": fuel, "entry": entry, "feed": feed,
                                         "N": n, "m": m, "what": what, "place": place}
                                    if ghi:
                                        c["ghi"] = True
                                    out.append(c)
    return out


def value_cases(tier):
    out = []
    for kind in CLASSES:
        defects = ["negative", "spike", "utc"] + (["offcycle"] if kind == "billing" else [])
        spans = [329, 365, 366] if tier == "quick" else SPANS
        for role in ROLES:
            for fuel in ("electric", "gas"):
                for defect in defects + (["zeros"] if (fuel == "gas" and kind != "billing") else []):
                    for entry, feed in entry_feed_pairs(kind, tier):
                        for n in spans:
                            f = n // 10
                            ms = [0, f - 1, f] if tier == "quick" else m_values(n)
                            for m in ms:
                                if m == 0:
                                    ws = ["none"]
                                elif tier == "quick":
                                    ws = ["temp" if kind == "billing" else "same"]
                                else:
                                    ws = whats(kind)
                                for what in ws:
                                    out.append({"fam": "value", "cls": kind, "role": role, "fuel": fuel, "entry": entry,
                                                "feed": feed, "N": n, "m": m, "what": what, "place": "interior",
                                                "defect": defect})
    return out


def absent_cases(tier):
    """daily class, frame entry, daily feed: the same interior blocks of missing days, given as absent rows instead of NaN rows
    (a day that is not in the frame has neither usage nor temperature)"""
    out = []
    for role in ROLES:
        for n in (330, 365):
            f = n // 10
            for m in (f - 3, f + 3, 60):
                for place in ("interior", "month"):
                    out.append({"fam": "absent", "cls": "daily", "role": role, "fuel": "electric", "entry": "frame", "feed": "D", "N": n, "m": m,
                                "what": "same", "place": place, "zone": ZONE_FIXED, "absent_rows": True})
    return out


def midnight_edge_cases(tier):
    """zones whose clock changes at local midnight, with the day that has no 00:00 as the FIRST or the LAST day of the data
    (stamped 01:00, as localising that date gives)"""
    out = []
    for zone, start, n in (("America/Santiago", "2021-09-05", 365), ("America/Santiago", "2021-09-05", 340),
                           ("America/Havana", "2021-03-14", 365), ("America/Havana", "2021-03-13", 365), ("America/Santiago", "2020-09-06", 364)):
        for kind in CLASSES:
            for role in ROLES:
                for entry, feed in entry_feed_pairs(kind, "quick"):
                    out.append({"fam": "midnight_edge", "cls": kind, "role": role, "fuel": "electric", "entry": entry, "feed": feed,
                                "N": n, "m": 0, "what": "none", "place": "interior", "zone": zone, "start": start})
    return out


def dst_cases(tier):
    out = []
    zones = ["America/Chicago"] if tier == "quick" else ["America/Chicago", "Australia/Sydney"]
    for zone in zones:
        for kind in CLASSES:
            for role in ROLES:
                for entry, feed in entry_feed_pairs(kind, "quick"):
                    for n in SPANS:
                        f = n // 10
                        for m in (0, f - 3, f + 3):
                            for what in (["none"] if m == 0 else (["temp"] if kind == "billing" else ["usage", "temp", "same"])):
                                out.append({"fam": "dst", "cls": kind, "role": role, "fuel": "electric", "entry": entry,
                                            "feed": feed, "N": n, "m": m, "what": what, "place": "interior", "zone": zone})
    # spans at the length limits that start in one clock phase and end in the other (the elapsed time is an hour short
    # of / beyond a whole number of days): 2020-12-01 and 2020-11-02 standard -> daylight, 2021-03-14 starts on the
    # spring-forward day itself, 2021-03-20 daylight -> standard
    for start in ("2020-12-01", "2020-11-02", "2021-03-14", "2021-03-20", "2021-11-07"):
        for kind in CLASSES:
            for role in ROLES:
                for entry, feed in entry_feed_pairs(kind, "quick"):
                    for n in (328, 329, 365, 366):
                        out.append({"fam": "dst", "cls": kind, "role": role, "fuel": "electric", "entry": entry, "feed": feed,
                                    "N": n, "m": 0, "what": "none", "place": "interior", "zone": "America/Chicago", "start": start})
    # zones whose clock changes at local midnight (a day without a 00:00 / with two): well-formed input must be accepted
    for zone in ["America/Santiago", "America/Havana"] if tier == "quick" else ["America/Santiago", "America/Havana", "Asia/Beirut", "Africa/Cairo"]:
        for kind in CLASSES:
            for role in ROLES:
                for entry, feed in entry_feed_pairs(kind, "quick"):
                    f = 365 // 10
                    for m in (0, f - 3, f + 3):
                        out.append({"fam": "dst", "cls": kind, "role": role, "fuel": "electric", "entry": entry, "feed": feed,
                                    "N": 365, "m": m, "what": "none" if m == 0 else "temp", "place": "interior", "zone": zone})
    return out


MONTHS = {"feb28": (31, 28), "mar31": (59, 31), "apr30": (90, 30)}  # first day index (from 2021-01-01), length


def _month_positions(first, length, k, pos):
    if pos == "start":
        return list(range(first, first + k))
    if pos == "end":
        return list(range(first + length - k, first + length))
    step = length // k
    return [first + 1 + i * step for i in range(k)]


def month_cases(tier):
    out = []
    for kind in CLASSES:
        for role in ROLES:
            for entry, feed in entry_feed_pairs(kind, tier):
                wl = {"daily": ["temp", "usage"], "billing": ["temp"], "hourly": ["temp", "usage", "ghi"]}[kind]
                for mon, (first, length) in MONTHS.items():
                    for what in wl:
                        for k in (2, 3, 4):
                            for pos in ("start", "end", "spread"):
                                c = {"fam": "month", "cls": kind, "role": role, "fuel": "electric", "entry": entry, "feed": feed,
                                     "N": 365, "m": k, "month": mon, "pos": pos, "what": what,
                                     "gaps": {what: _month_positions(first, length, k, pos)}}
                                if kind == "hourly":
                                    c["ghi"] = True
                                    c["gaps"].setdefault("ghi", [])
                                out.append(c)
                        if kind == "hourly":
                            # hour-granular: the largest number of missing hours that keeps 90 % and one more
                            tot = 24 * length
                            keep = tot - math.ceil(tot * 9 / 10)
                            for h in (keep, keep + 1):
                                for pos in ("start", "end"):
                                    a = 24 * first if pos == "start" else 24 * (first + length) - h
                                    out.append({"fam": "month_hours", "cls": kind, "role": role, "fuel": "electric",
                                                "entry": entry, "feed": feed, "N": 365, "m": 0, "month": mon, "pos": pos,
                                                "what": what, "hours": h, "ghi": True, "gaps": {"ghi": []},
                                                "gap_hours": {what: list(range(a, a + h))}})
    if tier == "thorough":
        # a span that revisits a month (2021-03-15 .. 2022-03-14): gaps in the first, 17-day part of March
        for kind in CLASSES:
            for role in ROLES:
                for entry, feed in entry_feed_pairs(kind, "quick"):
                    for k in (1, 2, 3, 4, 5):
                        c = {"fam": "month_wrap", "cls": kind, "role": role, "fuel": "electric", "entry": entry, "feed": feed,
                             "N": 365, "m": k, "start": "2021-03-15", "what": "temp", "gaps": {"temp": list(range(1, 1 + k))}}
                        out.append(c)
    return out


def nodata_cases(tier):
    out = []
    for kind in CLASSES:
        for role in ROLES:
            for entry, feed in entry_feed_pairs(kind, "quick"):
                for col in ("both", "usage", "temp"):
                    if role == "reporting" and col == "usage":
                        continue  # = temperature-only reporting data, enumerated in its own family
                    for fuel in ("electric", "gas"):
                        out.append({"fam": "nodata", "cls": kind, "role": role, "fuel": fuel, "entry": entry, "feed": feed,
                                    "N": 365, "m": 0, "what": "none", "column": col})
    return out


def tonly_cases(tier):
    """temperature-only reporting data (meter data is optional for the reporting classes)"""
    out = []
    for kind in CLASSES:
        forms = ["no_column", "nan_column"] + (["series_none"] if kind != "hourly" else [])
        for form in forms:
            feeds = ["h"] if kind == "hourly" else ["D", "h"]
            for feed in feeds:
                for n in (30, 365, 420):
                    f = n // 10
                    for m in (0, f + 2):
                        out.append({"fam": "tonly", "cls": kind, "role": "reporting", "fuel": "electric",
                                    "entry": "series" if form == "series_none" else "frame", "feed": feed, "form": form,
                                    "N": n, "m": m, "what": "none" if m == 0 else "temp", "place": "interior"})
    return out


def bgap_cases(tier):
    """billing reads whose value is missing (NaN) in the interior of the calendar"""
    out = []
    for role in ROLES:
        for regime, sets in (("monthly", ([4], [4, 8])), ("bimonthly", ([2], [1, 3])), ("bimonthly_short_pair", ([3],))):
            for nan_reads in sets:
                for n in (329, 365):
                    for entry, feed in entry_feed_pairs("billing", "quick"):
                        out.append({"fam": "bgap", "cls": "billing", "role": role, "fuel": "electric", "entry": entry,
                                    "feed": feed, "N": n, "m": 0, "what": "none", "regime": regime,
                                    "nan_reads": list(nan_reads)})
    return out


def utcform_cases(tier):
    out = []
    for kind in CLASSES:
        for role in ROLES:
            feed = "h" if kind == "hourly" else "D"
            for zone, form in (("Etc/UTC", None), ("tzutc", None), ("UTC", "dtcol"), (ZONE_FIXED, "dtcol")):
                c = {"fam": "utcform", "cls": kind, "role": role, "fuel": "electric", "entry": "frame", "feed": feed,
                     "N": 365, "m": 0, "what": "none", "zone": zone}
                if form:
                    c["form"] = form
                out.append(c)
    return out


def dstday_cases(tier):
    """the day of the clock change is among the missing days: 35 / 36 / 37 of 365 days missing (three per month, two in February), so the
    share of valid days sits within a day of the 90 % limit and an hour more or less must not tip it"""
    import datetime as _dt

    out = []
    for zone, (dm, dd) in (("America/Chicago", (11, 7)), ("Europe/Berlin", (10, 31)), ("America/Chicago", (3, 14))):
        base = []
        for mon in range(1, 13):
            ds_ = [5, 15] if mon == 2 else [5, 15, 25]
            if mon == dm:
                ds_[-1 if dd > 20 else 0] = dd
            base += [(_dt.date(2021, mon, d) - _dt.date(2021, 1, 1)).days for d in ds_]
        extra = [(_dt.date(2021, 7, 10) - _dt.date(2021, 1, 1)).days, (_dt.date(2021, 8, 10) - _dt.date(2021, 1, 1)).days]
        for kind in ("daily", "hourly"):
            for role in ROLES:
                for entry, feed in entry_feed_pairs(kind, "quick"):
                    for what in (["usage", "temp"] if role == "baseline" else ["temp"]):
                        for k in (0, 1, 2):
                            gaps = sorted(base + extra[:k])
                            c = {"fam": "dstday", "cls": kind, "role": role, "fuel": "electric", "entry": entry, "feed": feed, "N": 365,
                                 "m": len(gaps), "what": what, "zone": zone, "dst_day": f"{dm:02d}-{dd:02d}", "gaps": {what: gaps}}
                            out.append(c)
    return out


def extracol_cases(tier):
    """frames that carry a column no criterion reads, with missing values in it: the verdict is that of the meter and the weather"""
    out = []
    for kind in CLASSES:
        for role in ROLES:
            for n in (365, 400) if role == "baseline" else (30, 365):
                for extra in ("complete", "nan_first_40_days", "nan_first_180_days", "all_nan"):
                    if role == "reporting" and n == 30 and extra != "all_nan" and extra != "complete":
                        continue
                    out.append({"fam": "extracol", "cls": kind, "role": role, "fuel": "electric", "entry": "frame",
                                "feed": "h" if kind == "hourly" else "D", "N": n, "m": 0, "what": "none", "extra_column": extra})
    return out


FAMILIES = [("thresholds grid", grid_cases), ("unrelated column with missing values", extracol_cases),
            ("clock-change day among the missing days", dstday_cases), ("value defects", value_cases), ("DST zones", dst_cases),
            ("per-month coverage", month_cases), ("gaps as absent rows", absent_cases), ("no-midnight day at the edge of the data", midnight_edge_cases), ("empty columns", nodata_cases),
            ("temperature-only reporting", tonly_cases), ("billing NaN reads", bgap_cases),
            ("UTC spellings / datetime column", utcform_cases)]


def run(tier, seed):
    exps = []
    with poolmod.Pool() as pool:
        for name, gen in FAMILIES:
            exps.append(explore.explore(pool, name, MOD, "run_case", gen(tier), seed=seed))
    stats = {}
    for e in exps:
        for k, v in e.stats.items():
            stats[k] = stats.get(k, 0) + v
    decisions = {c: {"violated": stats.get(f"exp_{c}_viol", 0), "satisfied": stats.get(f"exp_{c}_ok", 0),
                     "either_accepted": stats.get(f"exp_{c}_open", 0), "reported_by_class": stats.get(f"obs_{c}", 0)}
                 for c in ref.CRITERIA}
    cov = explore.merge_coverage(
        exps,
        rule="one case = one synthetic input (class, role, fuel, span, missing-day count/kind/placement, value defect, entry "
        "point, temperature feed, zone) -> one construction of the real data class; behaviour = (set of criteria named by "
        "data.disqualification, set of warning conditions) or the exception type; every case is non-trivial; `decisions` "
        "counts, per criterion, the cases the reference decided either way (first reading) and the cases left open",
    )
    cov["decisions"] = decisions
    cov["ambiguous_band"] = {k[5:]: v for k, v in stats.items() if k.startswith("band_")}
    cov["cases_with_ambiguous_band"] = stats.get("cases_with_band", 0)
    cov["warning_conditions_injected"] = {k[14:]: v for k, v in stats.items() if k.startswith("warn_required_")}
    cov["constructor_raised"] = stats.get("raised", 0)
    viols = [v for e in exps for v in e.violations]
    return {"level": LEVEL, "coverage": cov, "violations": viols, "assumptions": ASSUMPTIONS}


def replay(rep):
    from .. import env

    env.quiet_library()
    vs = []
    for k in range(2):
        r = run_case(rep["case"])
        vs = [v for v in r.get("violations", []) if v["clause"] == rep["clause"]
              and all(v["key"].get(a) == b for a, b in rep.get("key", {}).items())]
        print(f"run {k}: behaviour={r.get('behaviour')} violations={len(r.get('violations', []))} "
              f"matching clause {rep['clause']}: {len(vs)}")
        for v in vs[:3]:
            print("  ", v["key"], v["detail"])
    return 1 if vs else 0
