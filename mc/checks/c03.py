"""C03 — fitting is reproducible: same data and settings give the same model.

 S  explicit-state BFS over histories of library use, each history replayed in a FRESH interpreter
    (mc.c03_worker); a state is the process-global fingerprint (module-level containers, mutable defaults,
    pydantic field defaults, numpy's global RNG, sklearn config, numba signatures, BLAS/OMP env); every fit
    anywhere in any history must serialise to the document obtained by that fit alone in a fresh process
 T  schedules: 2-3 real threads, each running a short program of fits, under ALL interleavings of the calls
    (baton scheduler, one public call = one atomic step), plus one free-running execution per program set
 P  1/4/16 concurrent worker processes sharing a cold and a warm numba cache directory
 E  BLAS/OMP thread-count environment variants
"""
import itertools
import json
import os
import shutil
import subprocess
import sys
import tempfile
import time
from concurrent.futures import ThreadPoolExecutor

from .. import env, findings, pool as poolmod

PROP = "C03"
LEVEL = "model_checking"

ASSUMPTIONS = [
    "the hourly model is given an explicit seed (the statement conditions on it); an unseeded hourly fit is part of the alphabet "
    "only as a perturbation and its own result is not compared",
    "a state is the Python-level process-global fingerprint; C-level static state inside nlopt/BLAS/numba is observed only through "
    "the fitted documents",
    "thread interleavings are enumerated at the granularity of public calls (each call atomic under a baton); interleaving inside a "
    "fit (~1e7 bytecodes) is out of exhaustive reach - one free-running execution per program set is added and reported separately",
    "'identical' = equal sha256 of to_json() and bit-identical predictions on a fixed reporting set",
    "the harness pins PYTHONHASHSEED=0 for its own reproducibility; part E therefore re-runs a fit of every family under other "
    "string-hash seeds (fresh processes differ in it by default) against the same references",
]

CHECKED_PREFIX = ("fit:", "use:", "refit:")
LATE = []  # (history, threads, models whose document/prediction changed between their fit and the end of the history, models kept)


def run_history(hist, threads=None, env_over=None, cache_dir=None, timeout=1500):
    e = dict(os.environ)
    e.pop("_MC_ENV_DONE", None)
    e["PYTHONHASHSEED"] = "0"
    if cache_dir:
        e["VERIF_NUMBA_CACHE"] = cache_dir
    if env_over:
        for k, v in env_over.items():
            if v is None:
                e.pop(k, None)
            else:
                e[k] = v
        e["VERIF_KEEP_THREAD_ENV"] = "1"
    cmd = [sys.executable, "-m", "mc.c03_worker", json.dumps(hist)]
    if threads is not None:
        cmd += ["--threads", json.dumps(threads)]
    r = subprocess.run(cmd, cwd=env.VERIF_DIR, env=e, capture_output=True, text=True, timeout=timeout)
    for line in r.stdout.splitlines():
        if line.startswith("C03RESULT "):
            res = json.loads(line[len("C03RESULT "):])
            LATE.append((hist, threads, res.get("late", []), res.get("kept", 0)))
            return res
    raise poolmod.HarnessError(f"worker for {hist} {threads} gave no result (exit {r.returncode}): {r.stderr[-1500:]}")


def alphabet(tier):
    a = ["fit:daily:A", "fit:hourly:A", "fit:billing:A", "fit:daily:B", "fit:hourly:B", "use:hourly:A", "fit_unseeded:hourly",
         "settings:custom", "abuse:settings_lists", "np:seed0", "np:rand", "import:hourly_first",
         "fit:hourly_late:A", "fit:hourly_seed0:A", "fit:daily_spiky:A", "fit_devalpha:daily",
         "refit:hourly:B", "refit:daily:B", "refit:billing:A", "refit:hourly_adaptive:B"]
    if tier == "thorough":
        a += ["fit:daily_legacy:A", "fit:hourly_solar:A", "use:daily:A", "np:seed1", "fit:caltrack:A"]
    return a


def run(tier, seed):
    t0 = time.time()
    viol = []
    workers = poolmod.n_workers()
    alpha = alphabet(tier)
    checked = [a for a in alpha if a.startswith(CHECKED_PREFIX)]
    # fits whose reproducibility is also checked under other string-hash seeds (every family; fresh processes differ in it by default)
    HASH_HISTORIES = [["fit:daily:A", "fit:billing:A", "fit:daily_legacy:A"], ["fit:hourly:A", "fit:hourly_solar:A"], ["fit:caltrack:A"]]
    # developer profiles that select a randomised optimiser: twice in one process, and in fresh processes
    RAND_HISTORIES = [["fit:daily_crs2:A", "fit:daily_crs2:A", "fit:daily_stogo:A"], ["fit:daily_esch:A", "fit:daily_esch:A"]] + ([["fit:daily_esch:A", "fit:daily_stogo:A", "fit:daily_esch:A"]] if tier == "thorough" else [])
    # a seeded hourly model whose temporal clusters are scored with the (non-default) silhouette metric, after the caller has used numpy's
    # global generator in different ways
    RAND_HISTORIES += [["np:rand", "fit:hourly_silhouette:A"], ["np:seed1", "np:rand", "fit:hourly_silhouette:A", "fit:hourly_silhouette:A"]]
    # meters of a fleet that cover the SAME instants (an extract cut on UTC boundaries) in different zones, fitted one after the other
    ZONE_HISTORIES = [["fit:caltrack_pacific:A", "fit:caltrack_eastern:A"]] + ([["fit:caltrack_eastern:A", "fit:caltrack_pacific:A", "fit:caltrack_eastern:A"]] if tier == "thorough" else [])
    ref_ops = sorted(set(("fit:" + a.split(":", 1)[1] if a.startswith(("use:", "refit:")) else a).replace("fit:hourly_late:", "fit:hourly:")
                         for a in checked) | {op for h in HASH_HISTORIES + RAND_HISTORIES + ZONE_HISTORIES for op in h if op.startswith(CHECKED_PREFIX)})
    stats = {"processes": 0, "fits_compared": 0}

    def ref_of(op):
        op = "fit:" + op.split(":", 1)[1] if op.startswith(("use:", "refit:")) else op
        return op.replace("fit:hourly_late:", "fit:hourly:")  # built early, fitted late: same data, settings and seed

    # ---- references: each fit alone in a fresh process, twice
    with ThreadPoolExecutor(max_workers=workers) as tp:
        twice = {"fit:daily:A", "fit:hourly:A", "fit:billing:A", "fit:daily_crs2:A", "fit:daily_stogo:A"} if tier == "quick" else set(ref_ops)
        futs = {(op, k): tp.submit(run_history, [op]) for op in ref_ops for k in range(2 if op in twice else 1)}
        refs = {}
        for (op, k), f in futs.items():
            res = f.result()
            stats["processes"] += 1
            r0 = res["ops"][0]
            if "raised" in r0:
                raise poolmod.HarnessError(f"reference fit {op} raised: {r0['raised']}")
            if k == 0:
                refs[op] = (r0["doc"], r0["pred"])
            elif (r0["doc"], r0["pred"]) != refs.get(op, (r0["doc"], r0["pred"])):
                viol.append({"clause": "fresh_processes_differ", "key": {"op": op.split(":")[1]},
                             "detail": f"{op} in two fresh processes: {refs[op]} vs {(r0['doc'], r0['pred'])}"})
    print(f"  references: {len(refs)} fits, two fresh processes each, {time.time() - t0:.0f}s", flush=True)

    def judge(op, res, context, where):
        if not op.startswith(CHECKED_PREFIX):
            if "raised" in res:
                viol.append({"clause": "operation_raised", "key": {"op": op, "context": context}, "detail": f"{where}: {res['raised']}"})
            return
        stats["fits_compared"] += 1
        if "raised" in res:
            viol.append({"clause": "fit_raised", "key": {"op": op.split(":")[1], "context": context}, "detail": f"{where}: {res['raised']}"})
            return
        want = refs[ref_of(op)]
        if (res["doc"], res["pred"]) != want:
            what = "document" if res["doc"] != want[0] else "predictions"
            viol.append({"clause": "fit_not_reproducible", "key": {"family": op.split(":")[1], "context": context, "differs": what},
                         "detail": f"{where}: {op} gives doc={res['doc']} pred={res['pred']}; alone in a fresh process: doc={want[0]} pred={want[1]}"})

    # ---- S: BFS over histories, state = global fingerprint
    depth = 2 if tier == "quick" else 3
    seen = {}
    edges = 0
    frontier = [[]]
    root = run_history([])
    stats["processes"] += 1
    seen[tuple(root["states"][-1])] = []
    level = 0
    histories_run = 0
    changed_globals = {}
    while frontier and level < depth:
        jobs = [(h, op) for h in frontier for op in alpha]
        core_fits = ["fit:daily:A", "fit:hourly:A", "fit:billing:A"]
        if (tier == "quick" and level == 1) or (tier == "thorough" and level == 2):
            # last level: only the core fits are appended (the oracle only judges fits); the restriction is reported in the
            # evidence (last_level_alphabet) - the levels below it use the complete alphabet
            jobs = [(h, op) for h in frontier for op in core_fits]
        nxt = []
        with ThreadPoolExecutor(max_workers=workers) as tp:
            futs = [(h, op, tp.submit(run_history, h + [op])) for h, op in jobs]
            for h, op, f in futs:
                res = f.result()
                histories_run += 1
                stats["processes"] += 1
                edges += 1
                for i, (o, r) in enumerate(zip(h + [op], res["ops"])):
                    if i == len(h):  # earlier positions were judged when their own history ran
                        judge(o, r, "history", f"after {h}" if h else "first operation of a fresh process")
                        if r.get("changed_globals"):
                            changed_globals.setdefault(o, set()).update(r["changed_globals"])
                key = tuple(res["states"][-1])
                if key not in seen:
                    seen[key] = h + [op]
                    nxt.append(h + [op])
        frontier = nxt
        level += 1
        print(f"  S level {level}: {len(jobs)} histories, {len(seen)} states, {len(frontier)} new, {time.time() - t0:.0f}s", flush=True)
    fixpoint = not frontier
    # ---- T: thread schedules
    progsets = [[["fit:daily:A"], ["fit:hourly:A"]], [["fit:daily:A", "fit:daily:B"], ["fit:hourly:A", "fit:daily:A"]]]
    if tier == "thorough":
        progsets += [[["fit:daily:A"], ["fit:daily:A"], ["fit:hourly:A"]], [["fit:hourly:A", "fit:hourly:B"], ["fit:hourly:B", "fit:hourly:A"]],
                     [["fit:billing:A", "fit:daily:A"], ["fit:daily:A", "fit:billing:A"], ["fit:hourly:A", "fit:billing:A"]]]
    sched_jobs = []
    for progs in progsets:
        slots = [t for t, p in enumerate(progs) for _ in p]
        for sched in sorted(set(itertools.permutations(slots))):
            sched_jobs.append((progs, list(sched)))
        sched_jobs.append((progs, "free"))
    n_sched = 0
    with ThreadPoolExecutor(max_workers=workers) as tp:
        futs = [(progs, sched, tp.submit(run_history, [], {"programs": progs, "schedule": sched})) for progs, sched in sched_jobs]
        for progs, sched, f in futs:
            res = f.result()
            stats["processes"] += 1
            n_sched += 1
            for t, prog in enumerate(progs):
                for i, op in enumerate(prog):
                    judge(op, res["thread_results"][t][i], "free_running_threads" if sched == "free" else "thread_schedule",
                          f"programs {progs} schedule {sched} thread {t}")
    print(f"  T: {n_sched} schedules, {time.time() - t0:.0f}s", flush=True)
    # ---- P: concurrent processes sharing a numba cache (cold, then warm)
    pool_sizes = [8] if tier == "quick" else [1, 2, 4, 8, 16]
    n_pool = 0
    base = os.path.join(env.VERIF_DIR, ".cache", "c03")
    os.makedirs(base, exist_ok=True)
    for n in pool_sizes:
        cache = tempfile.mkdtemp(prefix=f"numba-{n}-", dir=base)
        try:
            for phase in ("cold", "warm"):
                ops = [["fit:daily:A"], ["fit:hourly:A"], ["fit:daily:B", "fit:daily:A"], ["fit:billing:A", "fit:daily:A"]]
                if phase == "cold":
                    # first, ALONE on the empty cache: a developer-mode fit compiles the kernels, then default fits follow in the same
                    # process; afterwards every other process of the batch loads that cache
                    res = run_history(["fit_devalpha:daily", "fit:daily_spiky:A", "fit:daily:A"], None, None, cache)
                    stats["processes"] += 1
                    n_pool += 1
                    for op, r in zip(["fit_devalpha:daily", "fit:daily_spiky:A", "fit:daily:A"], res["ops"]):
                        judge(op, r, "developer_fit_first_on_cold_cache", f"cold cache, history starting with a developer-mode fit")
                    ops.append(["fit:daily_spiky:A"])
                jobs = [ops[i % len(ops)] for i in range(n)]
                with ThreadPoolExecutor(max_workers=n) as tp:
                    futs = [(h, tp.submit(run_history, h, None, None, cache)) for h in jobs]
                    for h, f in futs:
                        res = f.result()
                        stats["processes"] += 1
                        n_pool += 1
                        for op, r in zip(h, res["ops"]):
                            judge(op, r, f"concurrent_processes_{phase}_cache", f"{n} concurrent processes, history {h}")
        finally:
            shutil.rmtree(cache, ignore_errors=True)
    print(f"  P: {n_pool} pooled processes, {time.time() - t0:.0f}s", flush=True)
    # ---- E: thread-count environment
    n_env = 0
    variants = [{"OMP_NUM_THREADS": None, "MKL_NUM_THREADS": None, "OPENBLAS_NUM_THREADS": None, "NUMBA_NUM_THREADS": None},
                {"OMP_NUM_THREADS": "16", "MKL_NUM_THREADS": "16", "OPENBLAS_NUM_THREADS": "16", "NUMBA_NUM_THREADS": "16"}]
    with ThreadPoolExecutor(max_workers=4) as tp:
        futs = [(v, h, tp.submit(run_history, h, None, v)) for v in variants for h in (["fit:daily:A", "fit:billing:A"], ["fit:hourly:A"])]
        # the CalTRACK hourly family solves its weighted least squares through LAPACK/BLAS: a few BLAS threads (2; thorough: 4, 16, unset)
        two = {k: "2" for k in variants[0]}
        ct_variants = [two] if tier == "quick" else [two, {k: "4" for k in variants[0]}] + variants
        futs += [(v, ["fit:caltrack:A"], tp.submit(run_history, ["fit:caltrack:A"], None, v, None, 3000)) for v in ct_variants]
        # ... and, in a process with two BLAS threads, the same fit after fits of the other families: it must equal the fit made alone
        # in such a process (whatever that is), i.e. an earlier fit must not change how many threads the later one computes with
        f_alone2 = tp.submit(run_history, ["fit:caltrack:A"], None, two, None, 3000)
        f_after2 = tp.submit(run_history, ["fit:hourly:A", "fit:daily:A", "fit:caltrack:A"], None, two, None, 3000)
        for v, h, f in futs:
            res = f.result()
            stats["processes"] += 1
            n_env += 1
            for op, r in zip(h, res["ops"]):
                judge(op, r, "thread_count_environment", f"env {v} history {h}")
        ra, rb = f_alone2.result()["ops"][0], f_after2.result()["ops"][-1]
        stats["processes"] += 2
        n_env += 2
        stats["fits_compared"] += 1
        if "raised" in ra or "raised" in rb:
            viol.append({"clause": "fit_raised", "key": {"op": "caltrack", "context": "two_blas_threads"}, "detail": f"{ra.get('raised')} / {rb.get('raised')}"})
        elif (ra["doc"], ra["pred"]) != (rb["doc"], rb["pred"]):
            viol.append({"clause": "fit_not_reproducible", "key": {"family": "caltrack", "context": "after_other_fits_in_a_process_with_two_blas_threads",
                                                                   "differs": "document" if ra["doc"] != rb["doc"] else "predictions"},
                         "detail": f"OMP/OPENBLAS/MKL_NUM_THREADS=2: fit:caltrack:A alone gives doc={ra['doc']} pred={ra['pred']}; after fit:hourly:A, fit:daily:A in the "
                                   f"same process doc={rb['doc']} pred={rb['pred']}"})
        # string-hash seeds: the references run under PYTHONHASHSEED=0; a fresh process normally draws a random one
        hseeds = ["1", "4242"] + (["random", "7", "123456789"] if tier == "thorough" else [])
        futs = [(hs, h, tp.submit(run_history, h, None, {"PYTHONHASHSEED": hs})) for hs in hseeds for h in HASH_HISTORIES]
        futs += [("0", h, tp.submit(run_history, h, None, {"PYTHONHASHSEED": "0"})) for h in RAND_HISTORIES]
        futs += [("zones", h, tp.submit(run_history, h, None, {"PYTHONHASHSEED": "0"}, None, 3000)) for h in ZONE_HISTORIES]
        # the process's own local timezone (the references run under TZ=UTC)
        futs += [("tz:" + z, h, tp.submit(run_history, h, None, {"TZ": z, "VERIF_KEEP_TZ": "1", "PYTHONHASHSEED": "0"}))
                 for z in (("America/Los_Angeles", "Asia/Kolkata") if tier == "quick" else ("America/Los_Angeles", "Asia/Kolkata", "Australia/Sydney", "Pacific/Apia"))
                 for h in HASH_HISTORIES[:2]]
        for hs, h, f in futs:
            res = f.result()
            stats["processes"] += 1
            n_env += 1
            for op, r in zip(h, res["ops"]):
                judge(op, r, "same_instants_other_zone_fitted_before" if h in ZONE_HISTORIES else "randomised_optimiser_profile" if h in RAND_HISTORIES else "process_timezone" if hs.startswith("tz:") else "string_hash_seed",
                      f"{'TZ=' + hs[3:] if hs.startswith('tz:') else 'PYTHONHASHSEED=' + hs} history {h}")
    # ---- every model fitted anywhere above was serialised and used again at the end of its process
    late_models = 0
    for hist, threads, late, kept in LATE:
        late_models += kept
        for l in late:
            viol.append({"clause": "fitted_model_differs_when_read_after_later_operations", "key": {"family": l["fit"].split(":")[0]},
                         "detail": f"history {hist} threads {threads}: the model fitted by {l['fit']} gave (doc, pred) {l['then']} right after its fit "
                                   f"and {l['now']} at the end of the process"})
    cov = {
        "models_read_again_at_end_of_process": late_models,
        "states": max(len(seen), 1), "transitions": max(edges, 1), "traces_validated_against_impl": edges,
        "evaluations": stats["processes"], "distinct_nontrivial": len(seen) + n_sched,
        "rule": "S: a history of operations run in a fresh interpreter; distinct = distinct process-global fingerprints reached; "
                "T: one (program set, interleaving) per process; P: one process of a concurrent batch; E: one process per environment variant",
        "samples": [{"history": v} for v in list(seen.values())[:6]] + [{"programs": progsets[0], "schedule": [0, 1]}],
        "exhaustive": True,
        "fixpoint": fixpoint, "depth": depth, "alphabet": alpha, "last_level_alphabet": ["fit:daily:A", "fit:hourly:A", "fit:billing:A"],
        "histories_run": histories_run,
        "thread_schedules": n_sched, "pooled_processes": n_pool, "environment_variants": n_env,
        "fits_compared_with_reference": stats["fits_compared"], "reference_fits": sorted(refs),
        "globals_changed_by_operation": {k: sorted(v) for k, v in changed_globals.items()},
        "explanation": "explicit-state BFS directly on the implementation: a state is the process-global fingerprint after a history, reached by "
                       "replaying the history in a fresh interpreter; transitions = histories run. The numpy RNG is part of the state, so "
                       "operations that draw from it always reach new states and the search is bounded by depth, not by a fixpoint",
    }
    for v in viol:
        v.setdefault("case", {"detail": v["detail"][:300]})
    return {"level": LEVEL, "coverage": cov, "violations": viol, "assumptions": ASSUMPTIONS}


def replay(rep):
    print("C03 violations are replayed by re-running the history / schedule named in the detail:")
    print(rep.get("detail"))
    return 0
