"""C12 — every fitted daily/billing model is physically admissible and well formed.

Exhaustive over a stated finite grid of generated baselines (shape x regime x noise x outliers x length x climate x
daily/billing x profile): every fit is inspected sub-model by sub-model, and for every fitted component (candidates in
model.fit_components and final ones in model.model) the kept coefficients are re-evaluated at the component's own
baseline temperatures and compared with its fitted values.
"""
import itertools
import math

import numpy as np
import pandas as pd

from .. import datasets as ds, explore, pool as poolmod

PROP = "C12"
LEVEL = "exploration"
MOD = "mc.checks.c12"
ZONE = "America/Chicago"

ASSUMPTIONS = [
    "exhaustive over a stated finite grid of generated baselines, not over 'all datasets': the optimisers are black boxes; the grid "
    "is chosen to force bound hits (flat data), balance-point crossing (narrow dead band, strong noise), regime splits and the "
    "segment_minimum_count edges",
    "'observed temperature range' of a sub-model = [T_min, T_max] of the days of its segment; 'observed usage range' = [min, max] of "
    "their usage",
    "slope conventions of the stored document: hdd_tidd[_smooth]: hdd_beta < 0; tidd_cdd[_smooth]: cdd_beta > 0; hdd_tidd_cdd[_smooth]: "
    "both > 0 (magnitudes)",
    "curve reproduction: |component.eval(component.T) - component.model| <= 1e-9 * max(1, |model|) on every baseline day; with the "
    "guarded hook (OPENDSM_EEMETER_VERIF=1) a mismatch is attributed to crossed balance points in the optimiser's raw vector when that "
    "is its cause",
]

SHAPES = {"heating": dict(hs=1.2, cs=0.0), "cooling": dict(hs=0.0, cs=1.5), "both": dict(hs=1.0, cs=1.3), "flat": dict(hs=0.0, cs=0.0),
          "narrow_band": dict(hs=0.8, cs=0.9, hbp=60.0, cbp=62.0),
          # cooling that only shows on the hottest handful of days (fewer than segment_minimum_count): balance point parks on a bound
          "rare_cooling": dict(hs=1.2, cs=6.0, hbp=55.0, cbp=84.0)}
REGIMES = {"none": {}, "weekend": dict(weekend_factor=1.5), "summer": dict(summer_factor=1.6),
           # a constant load switched on at day 200: residuals with lag-1 autocorrelation near 1 (effective sample size ~ #coefficients)
           "step": dict(step=(200, 35.0))}
NOISES = [0.005, 0.05, 0.2]
OUTLIERS = [0, 3]
LENGTHS = [365, 330]
CLIMATES = ["continental", "mild"]


def grid(tier):
    out = []
    for fam in ("daily", "billing"):
        profiles = ["current", "legacy"] if fam == "daily" else ["billing"]
        for shape, regime, noise, spikes, days, climate in itertools.product(SHAPES, REGIMES, NOISES, OUTLIERS, LENGTHS, CLIMATES):
            for profile in profiles:
                if tier == "quick":
                    # quick: a sub-grid that still contains every value of every factor
                    h = (list(SHAPES).index(shape) + list(REGIMES).index(regime) + NOISES.index(noise) + OUTLIERS.index(spikes)
                         + LENGTHS.index(days) + CLIMATES.index(climate))
                    if h % (4 if fam == "daily" else 2) != 0:
                        continue
                    if profile == "legacy" and noise != 0.05:
                        continue
                out.append({"family": fam, "profile": profile, "shape": shape, "regime": regime, "noise": noise, "spikes": spikes,
                            "days": days, "climate": climate})
    # corner cases of the one-slope final fit: a regime that is active on every day but one
    for fam in ("daily", "billing"):
        for profile in (["current", "legacy"] if fam == "daily" else ["billing"]):
            for edge in ("always_heating_one_warm_day", "always_cooling_one_cold_day"):
                out.append({"family": fam, "profile": profile, "shape": "heating", "regime": "none", "noise": 0.005, "spikes": 0, "days": 365,
                            "climate": "mild", "edge": edge})
    # histories: the model OBJECT has been fitted before, on a baseline that leads to another split structure; the second
    # fit is held to the same clauses (every stored sub-model must belong to the second baseline)
    base = {"noise": 0.005, "spikes": 0, "days": 365, "climate": "continental"}
    pairs = [(("both", "weekend"), ("heating", "none")), (("both", "summer"), ("cooling", "none")),
             (("heating", "none"), ("both", "weekend")), (("both", "weekend"), ("both", "summer"))]
    if tier == "thorough":
        pairs += [(("both", "summer"), ("both", "weekend")), (("flat", "weekend"), ("flat", "summer")),
                  (("rare_cooling", "summer"), ("narrow_band", "none")), (("heating", "step"), ("heating", "weekend"))]
    for fam in ("daily", "billing"):
        for profile in (["current", "legacy"] if fam == "daily" else ["billing"]):
            for j, ((s1, r1), (s2, r2)) in enumerate(pairs):
                if tier == "quick" and profile == "legacy" and j >= 2:
                    continue
                out.append(dict(base, family=fam, profile=profile, shape=s2, regime=r2, climate="mild",
                                before=dict(base, family=fam, profile=profile, shape=s1, regime=r1)))
    return out


def edge_frame(case):
    """hand-built baselines for corner cases of the final fit"""
    idx = ds.local_days("2021-01-01", 365, ZONE)
    t = ds.daily_temperature(idx, "mild", 11).to_numpy()
    rng = np.random.default_rng(21)
    if case["edge"] == "always_heating_one_warm_day":
        # a site that heats on every day of the year (nothing above ~52 F) except for ONE isolated warm day (75 F)
        t = np.minimum(30.0 + (t - t.min()) * (22.0 / (t.max() - t.min())), 52.0)
        t[200] = 75.0
        y = (5.0 + 1.2 * np.clip(60.0 - t, 0, None)) * (1 + 0.01 * rng.uniform(-1, 1, len(t)))
    elif case["edge"] == "always_cooling_one_cold_day":
        t = np.maximum(70.0 + (t - t.min()) * (22.0 / (t.max() - t.min())), 70.0)
        t[20] = 45.0
        y = (5.0 + 1.5 * np.clip(t - 62.0, 0, None)) * (1 + 0.01 * rng.uniform(-1, 1, len(t)))
    else:
        raise ValueError(case["edge"])
    return pd.DataFrame({"observed": y, "temperature": t}, index=idx)


def build(case):
    import opendsm.eemeter as em

    kw = dict(SHAPES[case["shape"]])
    kw.update(REGIMES[case["regime"]])
    seed = 1 + list(SHAPES).index(case["shape"]) * 7 + NOISES.index(case["noise"])
    if case.get("edge"):
        fr = edge_frame(case)
    else:
        fr = ds.daily_frame(start="2021-01-01", days=case["days"], tz=ZONE, climate=case["climate"], wseed=seed, seed=seed,
                            noise=case["noise"], spikes=case["spikes"], **kw)
    if case["family"] == "daily":
        data = em.DailyBaselineData(fr, is_electricity_data=True)
        model = em.DailyModel(model="legacy") if case["profile"] == "legacy" else em.DailyModel()
    else:
        data = em.BillingBaselineData.from_series(ds.billing_reads(fr["observed"]), fr["temperature"], is_electricity_data=True)
        model = em.BillingModel()
    return data, model


def finite(x):
    return x is not None and isinstance(x, (int, float)) and math.isfinite(x)


def check_submodel(name, sub, seg, settings, key):
    """admissibility clauses for one stored sub-model; seg = DataFrame of the days it was fitted on"""
    v = []
    c, tc = sub["coefficients"], sub["temperature_constraints"]
    mt = c["model_type"]
    k = dict(key, model_type=mt)
    need = {"tidd": [], "hdd_tidd": ["hdd_bp", "hdd_beta"], "hdd_tidd_smooth": ["hdd_bp", "hdd_beta", "hdd_k"],
            "tidd_cdd": ["cdd_bp", "cdd_beta"], "tidd_cdd_smooth": ["cdd_bp", "cdd_beta", "cdd_k"],
            "hdd_tidd_cdd": ["hdd_bp", "hdd_beta", "cdd_bp", "cdd_beta"],
            "hdd_tidd_cdd_smooth": ["hdd_bp", "hdd_beta", "hdd_k", "cdd_bp", "cdd_beta", "cdd_k"]}[mt]
    present = [f for f in ("hdd_bp", "hdd_beta", "hdd_k", "cdd_bp", "cdd_beta", "cdd_k") if c.get(f) is not None]
    if sorted(present) != sorted(need):
        v.append(("type_disagrees_with_coefficients", f"{name}: {mt} carries {present}"))
        return v, k
    for f in need + ["intercept"]:
        if not finite(c[f]):
            v.append(("non_finite_coefficient", f"{name}: {f}={c[f]!r}"))
            return v, k
    T = seg["temperature"].to_numpy(float)
    y = seg["observed"].to_numpy(float)
    Tmin, Tmax = float(T.min()), float(T.max())
    n = settings.segment_minimum_count
    ref_tc = {"T_min": Tmin, "T_max": Tmax, "T_min_seg": float(np.sort(T)[n]), "T_max_seg": float(np.sort(T)[-n])}
    for f, want in ref_tc.items():
        if tc.get(f) != want:
            v.append(("temperature_limits_not_of_fitted_days", f"{name}: {f}={tc.get(f)!r}, days fitted on give {want!r} (n={len(T)})"))
    for f in ("hdd_bp", "cdd_bp"):
        if f in need and not (Tmin <= c[f] <= Tmax):
            v.append(("balance_point_outside_observed_range", f"{name}: {f}={c[f]!r} outside [{Tmin}, {Tmax}]"))
    if "hdd_bp" in need and "cdd_bp" in need and c["hdd_bp"] > c["cdd_bp"]:
        v.append(("balance_points_crossed", f"{name}: hdd_bp={c['hdd_bp']!r} > cdd_bp={c['cdd_bp']!r}"))
    if mt.startswith("hdd_tidd_cdd"):
        signs = [("hdd_beta", c["hdd_beta"] > 0), ("cdd_beta", c["cdd_beta"] > 0)]
    elif mt.startswith("hdd_tidd"):
        signs = [("hdd_beta", c["hdd_beta"] < 0)]
    elif mt.startswith("tidd_cdd"):
        signs = [("cdd_beta", c["cdd_beta"] > 0)]
    else:
        signs = []
    for f, ok in signs:
        if c[f] == 0:
            v.append(("declared_slope_is_zero", f"{name}: {f}=0 in a {mt} model"))
        elif not ok:
            v.append(("slope_sign_gives_negative_load", f"{name}: {f}={c[f]!r} in a {mt} model"))
    for f in ("hdd_k", "cdd_k"):
        if f in need and c[f] < 0:
            v.append(("negative_smoothing", f"{name}: {f}={c[f]!r}"))
    if not (float(y.min()) <= c["intercept"] <= float(y.max())):
        v.append(("base_load_outside_observed_usage", f"{name}: intercept={c['intercept']!r} outside [{y.min()!r}, {y.max()!r}]"))
    if not (finite(sub["f_unc"]) and sub["f_unc"] >= 0):
        v.append(("uncertainty_not_finite_nonnegative", f"{name}: f_unc={sub['f_unc']!r}"))
    return v, k


def check_component(where, name, comp, key):
    v = []
    try:
        model = comp.eval(np.asarray(comp.T, dtype=float))[0]
    except Exception as exc:
        return [("component_eval_raises", f"{where}[{name}]: {type(exc).__name__}: {exc}")]
    fitted = np.asarray(comp.model, dtype=float)
    err = np.abs(model - fitted)
    tol = 1e-9 * np.maximum(1.0, np.abs(fitted))
    if (err > tol).any():
        j = int(np.argmax(err - tol))
        raw = getattr(comp, "_verif_raw_x", None)
        ids = getattr(comp, "_verif_raw_coef_id", None)
        cause = "unknown"
        if raw is not None and ids is not None:
            g = dict(zip(ids, raw.tolist()))
            if "hdd_bp" in g and "cdd_bp" in g and g["cdd_bp"] < g["hdd_bp"]:
                # the optimiser's vector has its balance points reversed: the objective smooths before full_model swaps them,
                # the read-back path swaps first (finding H of the property text)
                cause = "raw_balance_points_crossed"
            elif "hdd_k" in g and ((g["cdd_bp"] >= comp.T_max and g.get("cdd_beta") != 0 and g.get("cdd_k", 0) != 0)
                                   or (g["hdd_bp"] <= comp.T_min and g.get("hdd_beta") != 0 and g.get("hdd_k", 0) != 0)):
                # a smoothed branch whose balance point sits on the range limit: active when scored (smoothing reaches inwards),
                # dropped by fix_full_model_x when the coefficients are kept
                cause = "branch_dropped_balance_point_on_range_limit"
            elif "hdd_k" in g and ((g.get("hdd_beta") == 0 and g.get("hdd_k", 0) != 0) or (g.get("cdd_beta") == 0 and g.get("cdd_k", 0) != 0)):
                # a branch with zero slope still carries a smoothing fraction: the objective lets it take part in the
                # normalisation of the two fractions, the read-back path zeroes it first
                cause = "smoothing_fraction_of_zero_slope_branch"
            elif "hdd_bp" in g and "hdd_k" not in g and comp.model_key == "c_hdd_tidd" and (
                    (g.get("hdd_beta") == 0 and g["cdd_bp"] < comp.T_min_seg) or (g.get("cdd_beta") == 0 and g["hdd_bp"] > comp.T_max_seg)):
                # same clamp, reached from an unsmoothed two-slope vector whose one slope is zero
                cause = "balance_point_clamped_to_segment_limit"
            elif "hdd_k" in g and comp.model_key == "c_hdd_tidd" and (
                    (g.get("hdd_beta") == 0 and g.get("cdd_beta") != 0 and not (comp.T_min_seg <= g["cdd_bp"] <= comp.T_max_seg))
                    or (g.get("cdd_beta") == 0 and g.get("hdd_beta") != 0 and not (comp.T_min_seg <= g["hdd_bp"] <= comp.T_max_seg))):
                # the same clamp, reached from a (smoothed) two-slope vector that reduces to one slope: the live branch's balance point
                # lies outside the segment limits where the optimiser scored it and is stored on the limit
                cause = "balance_point_clamped_to_segment_limit"
            elif "c_hdd_bp" in g and not (comp.T_min_seg <= g["c_hdd_bp"] <= comp.T_max_seg):
                # one-sided model whose balance point lies outside the segment limits: scored where the optimiser put it,
                # stored clamped to the limit
                cause = "balance_point_clamped_to_segment_limit"
        v.append(("kept_coefficients_do_not_reproduce_fitted_values",
                  f"{where}[{name}] ({comp.model_key}): {int((err > tol).sum())} of {len(err)} days differ, worst T={comp.T[j]!r}: eval {model[j]!r} "
                  f"vs fitted {fitted[j]!r}; kept x={np.asarray(comp.x).tolist()} raw x={None if raw is None else raw.tolist()} cause={cause}", cause))
    return v


def run_case(case):
    data, model = build(case)
    key0 = {"family": case["family"], "profile": case["profile"]}
    first_split = None
    if case.get("before"):
        key0["history"] = "object_fitted_before"
        try:
            model.fit(build(case["before"])[0], ignore_disqualification=True)
            first_split = model.best_combination
        except Exception as exc:
            return {"rejected": f"first fit of the history raises {type(exc).__name__}"}
    try:
        model.fit(data, ignore_disqualification=True)
    except Exception as exc:
        return {"behaviour": ["fit_raises", type(exc).__name__],
                "violations": [{"clause": "fit_raises", "key": dict(key0, exc=type(exc).__name__),
                                "detail": f"{case}: {type(exc).__name__}: {str(exc)[:200]}"}]}
    viol = []
    doc = model.to_dict()
    df = model.df_meter  # the model's own prepared baseline frame (season / day_of_week per its settings)
    n_sub = 0
    types = []
    for name, sub in doc["submodels"].items():
        seg = model._meter_segment(name, df)
        vs, k = check_submodel(name, sub, seg, model.settings, key0)
        n_sub += 1
        types.append(sub["coefficients"]["model_type"])
        for clause, detail in vs:
            viol.append({"clause": clause, "key": k, "detail": f"{detail} | baseline {case}"})
    n_comp = 0
    for where, comps in (("fit_components", model.fit_components), ("model", model.model)):
        for name, comp in comps.items():
            n_comp += 1
            for item in check_component(where, name, comp, key0):
                clause, detail = item[0], item[1]
                k = dict(key0, where=where)
                if len(item) > 2:
                    k["cause"] = item[2]
                viol.append({"clause": clause, "key": k, "detail": f"{detail} | baseline {case}"})
    if case.get("before"):
        # the stored sub-models are those of the split chosen for THIS baseline
        want = sorted(model.best_combination.split("__"))
        if sorted(doc["submodels"]) != want:
            viol.append({"clause": "stored_submodels_not_those_of_chosen_split", "key": key0,
                         "detail": f"document holds {sorted(doc['submodels'])}, chosen split {model.best_combination} | first fit chose "
                                   f"{first_split} | baseline {case}"})
    return {"behaviour": [model.best_combination, first_split, sorted(types), len(viol)], "violations": viol,
            "stats": {"fits": 1, "submodels": n_sub, "components_re_evaluated": n_comp}}


def run(tier, seed):
    cs = grid(tier)
    with poolmod.Pool() as pool:
        ex = explore.explore(pool, "baseline grid x profiles", MOD, "run_case", cs, seed=seed, chunk=1)
    cov = explore.merge_coverage(
        [ex],
        rule="one case = one generated baseline (shape, regime, noise, outliers, length, climate, daily|billing) fitted under one profile; "
        "plus histories in which the model object was fitted before on a baseline with another split structure; "
        "behaviour = (chosen split, split of the earlier fit if any, model types of its sub-models, #clauses failed)",
    )
    for k in ("fits", "submodels", "components_re_evaluated"):
        cov[k] = ex.stats.get(k, 0)
    cov["grid"] = {"shapes": list(SHAPES), "regimes": list(REGIMES), "noise": NOISES, "outliers": OUTLIERS, "lengths": LENGTHS, "climates": CLIMATES}
    return {"level": LEVEL, "coverage": cov, "violations": ex.violations, "assumptions": ASSUMPTIONS}


def replay(rep):
    vs = []
    for k in range(2):
        r = run_case(rep["case"])
        vs = [v for v in r.get("violations", []) if v["clause"] == rep["clause"]]
        print(f"run {k}: behaviour={r.get('behaviour')} violations={sorted(set(v['clause'] for v in r.get('violations', [])))}")
        for v in vs[:3]:
            print("  ", v["detail"][:700])
    return 1 if vs else 0
