"""C13 — each day is predicted by exactly one sub-model: that of its season and day type.

Three exhaustive product spaces on real DailyModel objects:
 A  candidate generation: all 16 allow-flag combinations x Gaussian reduction {off,on} x data-support patterns x
    season maps x weekday maps -> DailyModel._combinations() on the model's own prepared baseline frame
 B  routing: every candidate split layout the library itself can produce, loaded as a document whose components are
    marker models (component j predicts the constant j), x season/weekday maps x every date of 2023 and 2024
 C  selection: real fits on a fixed set of baselines; the criterion of every candidate is recomputed
"""
import itertools

import numpy as np
import pandas as pd

from .. import dailydocs as dd, datasets as ds, explore, pool as poolmod

PROP = "C13"
LEVEL = "exploration"
MOD = "mc.checks.c13"

ASSUMPTIONS = [
    "a candidate is a string of components '<fw|wd|we>-<seasons>' joined by '__'; fw covers both day types",
    "'forbidden by the settings' = a component isolating a single season whose allow_separate_<season> flag is off, or any "
    "wd/we component when allow_separate_weekday_weekend is off; the Gaussian reduction may only remove candidates",
    "'the data cannot support' = (strict) a component without any baseline day, and (library thresholds, keyed separately) "
    "a component isolating a season with < 30 baseline days or covering < 8 weekend days, or with no more baseline days than the "
    "profile's segment_minimum_count (such a component cannot be fitted at all)",
    "the statement does not say which admissible splits must be offered, only that the unsplit model always is",
    "selection: the chosen split must attain the minimum of the library's own criterion function over model.combinations "
    "(ties: first); the criterion values are recomputed through the model's criterion method after the fit",
]

SEASON_MAPS = {
    "default": {},
    "southern": dict(january="summer", february="summer", march="shoulder", april="shoulder", may="shoulder", june="winter",
                     july="winter", august="winter", september="winter", october="shoulder", november="summer", december="summer"),
    "two_season": dict(march="winter", april="winter", may="summer", october="summer"),
    "all_summer": {m: "summer" for m in ["january", "february", "march", "april", "may", "june", "july", "august", "september",
                                          "october", "november", "december"]},
}
WEEKDAY_MAPS = {
    "default": {},
    "fri_sat": dict(friday="weekend", saturday="weekend", sunday="weekday"),
    "no_weekend": dict(saturday="weekday", sunday="weekday"),
    "all_weekend": {d: "weekend" for d in ["monday", "tuesday", "wednesday", "thursday", "friday", "saturday", "sunday"]},
}
FLAGS = ["allow_separate_summer", "allow_separate_shoulder", "allow_separate_winter", "allow_separate_weekday_weekend"]
SUPPORT = ["full", "summer20", "shoulder20", "winter20", "weekend6", "summer_weekend3", "no_winter", "half_year"]
SEASON_ABBR = {"su": "summer", "sh": "shoulder", "wi": "winter"}
MONTHS = ["january", "february", "march", "april", "may", "june", "july", "august", "september", "october", "november", "december"]
DAYS = ["monday", "tuesday", "wednesday", "thursday", "friday", "saturday", "sunday"]


def season_of(month, smap):
    base = dict(january="winter", february="winter", march="shoulder", april="shoulder", may="shoulder", june="summer",
                july="summer", august="summer", september="summer", october="shoulder", november="winter", december="winter")
    base.update(SEASON_MAPS[smap])
    return base[MONTHS[month - 1]]


def daytype_of(dow, wmap):
    base = dict(monday="weekday", tuesday="weekday", wednesday="weekday", thursday="weekday", friday="weekday",
                saturday="weekend", sunday="weekend")
    base.update(WEEKDAY_MAPS[wmap])
    return base[DAYS[dow]]


def parse(combo):
    """-> list of (day_prefix, frozenset(seasons)) ; raises ValueError on malformed strings"""
    out = []
    for comp in combo.split("__"):
        pre, _, seas = comp.partition("-")
        if pre not in ("fw", "wd", "we") or not seas:
            raise ValueError(comp)
        ss = seas.split("_")
        if any(s not in SEASON_ABBR for s in ss) or len(set(ss)) != len(ss):
            raise ValueError(comp)
        out.append((pre, frozenset(ss)))
    return out


def cover_errors(combo):
    """exact-cover test over the 3 x 2 cells"""
    try:
        comps = parse(combo)
    except ValueError as e:
        return f"malformed component {e}"
    count = {(s, d): 0 for s in SEASON_ABBR for d in ("wd", "we")}
    for pre, ss in comps:
        for s in ss:
            for d in (("wd", "we") if pre == "fw" else (pre,)):
                count[(s, d)] += 1
    bad = {k: v for k, v in count.items() if v != 1}
    return f"cells covered != once: {bad}" if bad else None


def support_frame(pattern, zone="UTC"):
    df = ds.daily_frame(start="2021-01-01", days=365, tz=zone, climate="continental", wseed=3, noise=0.05, seed=3,
                        weekend_factor=1.3, summer_factor=1.2)
    idx = df.index
    keep = np.ones(len(df), bool)
    season = np.array([season_of(m, "default") for m in idx.month])
    weekend = idx.dayofweek >= 5

    def limit(mask, n):
        pos = np.flatnonzero(mask)
        keep[pos[n:]] = False

    if pattern == "summer20":
        limit(season == "summer", 20)
    elif pattern == "shoulder20":
        limit(season == "shoulder", 20)
    elif pattern == "winter20":
        limit(season == "winter", 20)
    elif pattern == "weekend6":
        limit(weekend, 6)
    elif pattern == "summer_weekend3":
        limit(weekend & (season == "summer"), 3)
    elif pattern in ("winter_weekend9", "winter_weekend10", "winter_weekend11"):
        limit(weekend & (season == "winter"), int(pattern[len("winter_weekend"):]))
    elif pattern == "no_winter":
        keep[season == "winter"] = False
    elif pattern == "half_year":
        keep[idx.month > 6] = False
    return df[keep]


def make_settings(flags, gaussian, smap, wmap):
    s = {"developer_mode": True, "silent_developer_mode": True,
         "split_selection": dict({f: bool(v) for f, v in zip(FLAGS, flags)}, reduce_splits_by_gaussian=bool(gaussian))}
    if SEASON_MAPS[smap]:
        s["season"] = dict(SEASON_MAPS[smap])
    if WEEKDAY_MAPS[wmap]:
        s["weekday_weekend"] = dict(WEEKDAY_MAPS[wmap])
    return s


# ------------------------------------------------------------------ A: candidate generation
def cases_A(tier):
    out = []
    supports = SUPPORT if tier == "thorough" else ["full", "summer20", "winter20", "weekend6", "summer_weekend3", "no_winter"]
    for sup, smap, wmap in itertools.product(supports, SEASON_MAPS, WEEKDAY_MAPS):
        out.append({"part": "A", "support": sup, "smap": smap, "wmap": wmap})
    # a (season, day type) cell with just about as many days as the base models set aside at either end of the temperature range
    # (segment_minimum_count: 6 in the current profile, 10 in the legacy one): a component on that cell cannot be fitted
    for sup in ("winter_weekend9", "winter_weekend10", "winter_weekend11"):
        for profile in ("current", "legacy"):
            out.append({"part": "A", "support": sup, "smap": next(iter(SEASON_MAPS)), "wmap": next(iter(WEEKDAY_MAPS)), "profile": profile})
    return out


def run_A(case):
    import opendsm.eemeter as em

    frame = support_frame(case["support"])
    viol, beh, n = [], [], 0
    base_cands = {}
    for gaussian in ((0,) if case.get("profile") == "legacy" else (0, 1)):  # the legacy profile has no Gaussian reduction
        for flags in itertools.product([0, 1], repeat=4):
            if case.get("profile") == "legacy":
                m = em.DailyModel(model="legacy", settings=make_settings(flags, gaussian, case["smap"], case["wmap"]))
            else:
                m = em.DailyModel(settings=make_settings(flags, gaussian, case["smap"], case["wmap"]))
            m.df_meter, _ = m._initialize_data(frame.copy())
            try:
                cands = m._combinations()
            except Exception as exc:
                viol.append({"clause": "combinations_raised", "key": {"exc": type(exc).__name__, "support": case["support"]},
                             "detail": f"{type(exc).__name__}: {exc} flags={flags} gaussian={gaussian}"})
                continue
            n += 1
            key = {"gaussian": gaussian}
            meter = m.df_meter
            seas_days = {a: int((meter["season"].values == full).sum()) for a, full in SEASON_ABBR.items()}
            we_days = [d + 1 for d in range(7) if daytype_of(d, case["wmap"]) == "weekend"]
            wd_days = [d + 1 for d in range(7) if daytype_of(d, case["wmap"]) == "weekday"]
            # the model's own season/day assignment must follow its settings
            exp_season = np.array([season_of(mm, case["smap"]) for mm in meter.index.month])
            if not np.array_equal(meter["season"].to_numpy(), exp_season):
                viol.append({"clause": "season_map_ignored", "key": key, "detail": f"season column does not follow map {case['smap']}"})
            if len(set(cands)) != len(cands):
                viol.append({"clause": "duplicate_candidates", "key": key, "detail": str(cands)})
            if "fw-su_sh_wi" not in cands:
                viol.append({"clause": "unsplit_missing", "key": key, "detail": f"flags={flags} candidates={cands}"})
            seen_partitions = set()
            for c in cands:
                err = cover_errors(c)
                if err:
                    viol.append({"clause": "not_a_partition", "key": key, "detail": f"{c}: {err} (flags={flags})"})
                    continue
                comps = parse(c)
                canon = frozenset(comps)
                if canon in seen_partitions:
                    viol.append({"clause": "same_partition_twice", "key": key, "detail": f"{c} repeats a partition (flags={flags})"})
                seen_partitions.add(canon)
                if c == "fw-su_sh_wi":
                    continue
                for pre, ss in comps:
                    if pre in ("wd", "we") and not flags[3]:
                        viol.append({"clause": "forbidden_daytype_split", "key": key, "detail": f"{c} with flags={flags}"})
                    if len(ss) == 1:
                        a = next(iter(ss))
                        if not flags[["su", "sh", "wi"].index(a)]:
                            viol.append({"clause": "forbidden_season_split", "key": key, "detail": f"{c} isolates {a}, flags={flags}"})
                        if seas_days[a] < 30:
                            viol.append({"clause": "unsupported_season_split", "key": key,
                                         "detail": f"{c} isolates {a} with {seas_days[a]} baseline days (support={case['support']})"})
                    days = {"fw": wd_days + we_days, "wd": wd_days, "we": we_days}[pre]
                    ndays = int((meter["season"].isin([SEASON_ABBR[a] for a in ss]) & meter["day_of_week"].isin(days)).sum())
                    if 0 < ndays <= m.settings.segment_minimum_count:
                        viol.append({"clause": "component_cannot_be_fitted", "key": dict(key, profile=case.get("profile", "current")),
                                     "detail": f"{c}: component {pre}-{'_'.join(sorted(ss))} has {ndays} baseline days, the base models set aside "
                                               f"segment_minimum_count={m.settings.segment_minimum_count} days at either end of its temperature range"})
                    if ndays == 0:
                        viol.append({"clause": "component_without_data", "key": key,
                                     "detail": f"{c}: component {pre}-{'_'.join(sorted(ss))} has no baseline day"})
                    nwe = int((meter["season"].isin([SEASON_ABBR[a] for a in ss]) & meter["day_of_week"].isin(we_days)).sum())
                    if nwe < 8:
                        viol.append({"clause": "unsupported_weekend_count", "key": key,
                                     "detail": f"{c}: component {pre}-{'_'.join(sorted(ss))} spans {nwe} weekend days (< 8)"})
            if gaussian == 0:
                base_cands[flags] = set(cands)
            elif flags in base_cands and not set(cands) <= base_cands[flags]:
                viol.append({"clause": "gaussian_adds_candidates", "key": key,
                             "detail": f"flags={flags}: {sorted(set(cands) - base_cands[flags])}"})
            beh.append(len(cands))
    return {"behaviour": beh, "violations": viol, "stats": {"combination_calls": n}}


# ------------------------------------------------------------------ B: routing
def all_layouts():
    """every candidate layout the library generates with all flags on, no Gaussian reduction, full data support"""
    import opendsm.eemeter as em

    m = em.DailyModel(settings=make_settings((1, 1, 1, 1), 0, "default", "default"))
    m.df_meter, _ = m._initialize_data(support_frame("full").copy())
    return m._combinations()


def cases_B(tier):
    out = []
    layouts = all_layouts()
    n = len(layouts)
    sel = range(n) if tier == "thorough" else sorted(set(list(range(0, n, 4)) + [0, 1, n - 1]))
    for i in sel:
        for smap, wmap in itertools.product(SEASON_MAPS, WEEKDAY_MAPS):
            for zone in ("America/Chicago", "Australia/Sydney"):  # west and east of UTC: the calendar is the LOCAL one
                out.append({"part": "B", "layout": layouts[i], "smap": smap, "wmap": wmap, "zone": zone})
    return out


def run_B(case):
    import opendsm.eemeter as em

    comps = case["layout"].split("__")
    subs = {c: dd.submodel(dd.coeffs("tidd", intercept=float(j + 1))) for j, c in enumerate(comps)}
    s = dd.settings_dump("current")
    s_over = make_settings((1, 1, 1, 1), 1, case["smap"], case["wmap"])
    s_over.pop("split_selection")
    s_over.pop("developer_mode")
    s_over.pop("silent_developer_mode")
    from opendsm.eemeter.models.daily.utilities.settings import DailySettings

    s = DailySettings(**s_over).model_dump()
    viol = []
    zone = case.get("zone", "America/Chicago")
    m = em.DailyModel.from_dict(dd.document(subs, s, tz=zone))
    # other model objects, with other maps, come into being between this model's construction and its use (a batch): a model routes
    # with ITS OWN maps whatever was built afterwards
    em.DailyModel()
    em.BillingModel()
    em.DailyModel(settings={"weekday_weekend": {"monday": "weekend", "saturday": "weekday"}, "season": {"july": "winter"}})
    idx = ds.local_days("2023-01-01", 731, zone)
    data = em.DailyReportingData(pd.DataFrame({"temperature": 50.0 + (np.arange(731) % 30)}, index=idx), is_electricity_data=True)
    p = m.predict(data)
    key = {"part": "routing"}
    parsed = parse(case["layout"])
    if len(p) != 731 or not p.index.equals(idx):
        viol.append({"clause": "row_count", "key": key, "detail": f"{len(p)} rows for 731 dates (a date routed to several or no component)"})
        return {"behaviour": [len(p)], "violations": viol}
    exp = []
    for t in idx:
        s_ = {v: k for k, v in SEASON_ABBR.items()}[season_of(t.month, case["smap"])]
        d_ = "we" if daytype_of(t.dayofweek, case["wmap"]) == "weekend" else "wd"
        owners = [j for j, (pre, ss) in enumerate(parsed) if s_ in ss and pre in ("fw", d_)]
        exp.append(owners)
    bad = 0
    first = None
    split = p["model_split"].tolist()
    pred = p["predicted"].to_numpy(float)
    for t, owners, sp, pr in zip(idx, exp, split, pred):
        ok = len(owners) == 1 and sp == comps[owners[0]] and pr == float(owners[0] + 1)
        if not ok:
            bad += 1
            first = first or f"{t.date()}: model_split={sp!r} predicted={pr!r}, expected component {[comps[o] for o in owners]}"
    if bad:
        viol.append({"clause": "wrong_submodel", "key": key, "detail": f"{bad} of 731 dates; first {first} (layout {case['layout']}, maps {case['smap']}/{case['wmap']})"})
    used = sorted(set(split))
    # the same object then predicts two more frames of the SAME period, each with one day lacking its temperature - not the same day
    # (two weather sources): every remaining day still goes to the component of its own cell
    for gap in (66, 67 + 56):
        T = 50.0 + (np.arange(731) % 30)
        T[gap] = np.nan
        pg = m.predict(em.DailyReportingData(pd.DataFrame({"temperature": T}, index=idx), is_electricity_data=True))
        badg = 0
        firstg = None
        if not pg.index.equals(idx):
            viol.append({"clause": "row_count", "key": dict(key, history="second_frame_of_the_same_period"), "detail": f"{len(pg)} rows for 731 dates"})
            continue
        for j, (t, owners, sp, pr) in enumerate(zip(idx, exp, pg["model_split"].tolist(), pg["predicted"].to_numpy(float))):
            if j == gap:
                continue
            if not (len(owners) == 1 and sp == comps[owners[0]] and pr == float(owners[0] + 1)):
                badg += 1
                firstg = firstg or f"{t.date()}: model_split={sp!r} predicted={pr!r}, expected component {[comps[o] for o in owners]}"
        if badg:
            viol.append({"clause": "wrong_submodel", "key": dict(key, history="second_frame_of_the_same_period"),
                         "detail": f"{badg} of 730 dates after the object had predicted the same period with another gap; first {firstg} (layout {case['layout']})"})
    return {"behaviour": [len(comps), len(used)], "violations": viol, "stats": {"dates": 731 * 3}}


# ------------------------------------------------------------------ C: selection on real fits
FITS = [
    dict(name="plain", usage=dict(noise=0.05, seed=1)),
    dict(name="weekend_regime", usage=dict(noise=0.03, seed=2, weekend_factor=1.6)),
    dict(name="summer_regime", usage=dict(noise=0.03, seed=3, summer_factor=1.7)),
    dict(name="both_regimes", usage=dict(noise=0.03, seed=4, weekend_factor=0.6, summer_factor=1.5)),
    dict(name="noisy", usage=dict(noise=0.2, seed=5)),
    dict(name="short330", usage=dict(noise=0.05, seed=6, weekend_factor=1.4), days=330),
    dict(name="berlin_weekend", usage=dict(noise=0.03, seed=2, weekend_factor=1.6), zone="Europe/Berlin"),
    # a meter that one split reproduces EXACTLY: 30 on weekdays, 20 on weekends, whatever the weather (zero weighted error)
    dict(name="exact_two_levels", usage="two_levels"),
]


def cases_C(tier):
    fits = FITS if tier == "thorough" else FITS[:4] + FITS[-2:]
    out = [{"part": "C", "fit": f["name"], "profile": "current"} for f in fits]
    if tier == "thorough":
        out += [{"part": "C", "fit": f["name"], "profile": "dev_all_splits"} for f in FITS[:4]]
    # every selection criterion the settings accept (developer option split_selection.criteria)
    for crit in CRITERIA:
        for f in (FITS[:4] if tier == "thorough" else FITS[1:2]):
            if crit != "bic":
                out.append({"part": "C", "fit": f["name"], "profile": "crit:" + crit})
    # one OBJECT fitted on a first meter and then on a second one selects, for the second, what a fresh object selects
    pairs = [("plain", "noisy"), ("noisy", "weekend_regime"), ("both_regimes", "plain"), ("summer_regime", "noisy")]
    for a, b in (pairs if tier == "thorough" else pairs[:3]):
        out.append({"part": "C", "fit": b, "profile": "current", "first": a})
    return out


CRITERIA = ["rmse", "rmse_adj", "r_squared", "r_squared_adj", "aic", "aicc", "caic", "bic", "sabic", "fpe"]


def run_C(case):
    import opendsm.eemeter as em

    spec = next(f for f in FITS if f["name"] == case["fit"])
    if spec["usage"] == "two_levels":
        df = ds.daily_frame(start="2021-01-01", days=365, tz="America/Chicago", climate="continental", wseed=7, noise=0.0, seed=1)
        df["observed"] = np.where(df.index.dayofweek >= 5, 20.0, 30.0)
    else:
        df = ds.daily_frame(start="2021-01-01", days=spec.get("days", 365), tz=spec.get("zone", "America/Chicago"), climate="continental", wseed=7,
                            **spec["usage"])
    settings = None
    if case["profile"] == "dev_all_splits":
        settings = make_settings((1, 1, 1, 1), 0, "default", "default")
    if case["profile"].startswith("crit:"):
        settings = {"developer_mode": True, "silent_developer_mode": True, "split_selection": {"criteria": case["profile"][5:]}}
    m = em.DailyModel(settings=settings)
    if case.get("first"):
        spec1 = next(f for f in FITS if f["name"] == case["first"])
        df1 = ds.daily_frame(start="2021-01-01", days=spec1.get("days", 365), tz=spec1.get("zone", "America/Chicago"), climate="continental",
                             wseed=7, **spec1["usage"])
        m.fit(em.DailyBaselineData(df1, is_electricity_data=True), ignore_disqualification=True)
    m.fit(em.DailyBaselineData(df, is_electricity_data=True), ignore_disqualification=True)
    viol = []
    if case.get("first"):
        fresh = em.DailyModel(settings=settings).fit(em.DailyBaselineData(df, is_electricity_data=True), ignore_disqualification=True)
        if (m.best_combination, sorted(m.combinations)) != (fresh.best_combination, sorted(fresh.combinations)):
            viol.append({"clause": "refitted_object_selects_unlike_fresh_object", "key": {"part": "selection"},
                         "detail": f"object fitted on {case['first']!r} and then on {case['fit']!r} selects {m.best_combination} out of "
                                   f"{len(m.combinations)} candidates; a fresh object fitted on {case['fit']!r} selects {fresh.best_combination} "
                                   f"out of {len(fresh.combinations)}"})
    key = {"part": "selection", **({"criteria": case["profile"][5:]} if case["profile"].startswith("crit:") else {})}
    crit = [float(m._combination_selection_criteria(c)) for c in m.combinations]
    best = m.combinations[int(np.argmin(crit))]
    if "fw-su_sh_wi" not in m.combinations:
        viol.append({"clause": "unsplit_missing", "key": key, "detail": str(m.combinations)})
    if m.best_combination not in m.combinations:
        viol.append({"clause": "chosen_not_a_candidate", "key": key, "detail": f"{m.best_combination} not in {m.combinations}"})
    elif crit[m.combinations.index(m.best_combination)] > min(crit):
        viol.append({"clause": "not_minimum_criterion", "key": key,
                     "detail": f"chosen {m.best_combination} criterion {crit[m.combinations.index(m.best_combination)]!r} > {best} {min(crit)!r}"})
    elif m.best_combination != best:
        viol.append({"clause": "tie_not_first", "key": key, "detail": f"chosen {m.best_combination}, first minimum {best}"})
    if m.settings.split_selection.criteria.lower() == "bic":
        # the default criterion recomputed from the fitted components alone (N, weighted SSE per component), not through the library's
        # criterion functions: BIC/N = ln(2 pi) + ln(loss/N) + 1 + c0 K ln(N)^d0 / N with loss = wRMSE / wRMSE(unsplit), K = #components;
        # a candidate with zero weighted error has BIC = -inf
        c0, d0 = float(m.settings.split_selection.penalty_multiplier), float(m.settings.split_selection.penalty_power)

        def wrmse(c):
            parts = [m.fit_components[x] for x in c.split("__")]
            return float(np.sqrt(sum(float(q.wSSE) for q in parts) / sum(int(q.N) for q in parts)))

        base = wrmse("fw-su_sh_wi")
        refs = []
        for c in m.combinations:
            N = sum(int(m.fit_components[x].N) for x in c.split("__"))
            loss = wrmse(c) / base if base > 0 else 0.0
            K = len(c.split("__"))
            refs.append(-np.inf if loss <= 0 else float(np.log(2 * np.pi) + np.log(loss / N) + 1 + c0 * K * np.log(N) ** d0 / N))
        got = refs[m.combinations.index(m.best_combination)] if m.best_combination in m.combinations else np.inf
        lo = min(refs)
        if got > lo and not (np.isfinite(lo) and abs(got - lo) <= 1e-9 * max(1.0, abs(lo))):
            viol.append({"clause": "not_minimum_of_reference_bic", "key": key,
                         "detail": f"chosen {m.best_combination} has BIC/N {got!r} by the textbook formula; {m.combinations[int(np.argmin(refs))]} has {lo!r} "
                                   f"(weighted errors {wrmse(m.best_combination)!r} vs {wrmse(m.combinations[int(np.argmin(refs))])!r})"})
    for c in m.combinations:
        err = cover_errors(c)
        if err:
            viol.append({"clause": "not_a_partition", "key": key, "detail": f"{c}: {err}"})
    if sorted(m.params.submodels) != sorted(m.best_combination.split("__")):
        viol.append({"clause": "stored_submodels_differ_from_choice", "key": key,
                     "detail": f"{sorted(m.params.submodels)} vs {m.best_combination}"})
    # every baseline day is predicted by the component of its cell
    p = m.predict(em.DailyBaselineData(df, is_electricity_data=True), ignore_disqualification=True)
    parsed = parse(m.best_combination)
    comps = m.best_combination.split("__")
    bad = 0
    for t, sp in zip(p.index, p["model_split"]):
        s_ = {v: k for k, v in SEASON_ABBR.items()}[season_of(t.month, "default")]
        d_ = "we" if t.dayofweek >= 5 else "wd"
        owners = [comps[j] for j, (pre, ss) in enumerate(parsed) if s_ in ss and pre in ("fw", d_)]
        if owners != [sp]:
            bad += 1
    if bad:
        viol.append({"clause": "wrong_submodel", "key": key, "detail": f"{bad} baseline days routed to a component not owning their cell"})
    return {"behaviour": [m.best_combination, len(m.combinations)], "violations": viol, "stats": {"fits": 1, "candidates": len(crit)}}


def run_case(case):
    return {"A": run_A, "B": run_B, "C": run_C}[case["part"]](case)


def run(tier, seed):
    with poolmod.Pool() as pool:
        exA = explore.explore(pool, "A candidate generation", MOD, "run_case", cases_A(tier), seed=seed, chunk=1)
        exB = explore.explore(pool, "B routing of every date", MOD, "run_case", cases_B(tier), seed=seed)
        exC = explore.explore(pool, "C selection on fits", MOD, "run_case", cases_C(tier), seed=seed, chunk=1)
    cov = explore.merge_coverage(
        [exA, exB, exC],
        rule="A: one case = (data-support pattern, season map, weekday map), inside it all 16 allow-flag combinations x Gaussian "
        "{off,on}; behaviour = vector of candidate counts. B: one case = (split layout, season map, weekday map), all 731 dates of "
        "2023-2024 routed through predict() with marker sub-models; behaviour = (#components, #components used). C: one case = one "
        "real fit; behaviour = (chosen split, #candidates)",
    )
    cov["combination_calls"] = exA.stats.get("combination_calls", 0)
    cov["dates_routed"] = exB.stats.get("dates", 0)
    cov["fits"] = exC.stats.get("fits", 0)
    cov["layouts"] = len(set(c["layout"] for c in cases_B(tier)))
    return {"level": LEVEL, "coverage": cov, "violations": exA.violations + exB.violations + exC.violations,
            "assumptions": ASSUMPTIONS}


def replay(rep):
    vs = []
    for k in range(2):
        r = run_case(rep["case"])
        vs = [v for v in r.get("violations", []) if v["clause"] == rep["clause"]]
        print(f"run {k}: behaviour={r.get('behaviour')} violations={sorted(set(v['clause'] for v in r.get('violations', [])))}")
        for v in vs[:2]:
            print("  ", v["detail"][:500])
    return 1 if vs else 0
