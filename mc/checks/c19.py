"""C19 — billing aggregation of predictions conserves totals.

Deviation-bounded enumeration of reporting datasets (start day, span, zone, with/without usage, up to d missing-
temperature days / missing reads at every lattice position) x document-built billing models x every aggregation
argument; oracle = per-period sums/means/root-sum-squares recomputed from the un-aggregated prediction.
"""
import itertools

import numpy as np
import pandas as pd

from .. import dailydocs as dd, datasets as ds, explore, pool as poolmod

PROP = "C19"
LEVEL = "exploration"
MOD = "mc.checks.c19"

ASSUMPTIONS = [
    "a calendar period is a local calendar month (monthly) or a block of two calendar months counted from the month of the "
    "first reporting day (bimonthly)",
    "the sum of a period without any finite daily value may be reported as 0 or as NaN (the statement does not say); the mean "
    "temperature of such a period must be NaN",
    "valid arguments: None, 'none', 'monthly', 'bimonthly'; other spellings of 'none' (e.g. 'None') are not enumerated; "
    "rejected means: raises (any exception type)",
    "only missing (NaN) temperatures are enumerated here; non-finite ones are C07's subject",
]

ZONES_Q = ["UTC", "America/Chicago"]
ZONES_T = ["UTC", "America/Chicago", "Australia/Sydney"]
STARTS = ["2021-02-01", "2021-02-02", "2021-02-15", "2021-02-28", "2021-10-31"]
SPANS = [20, 45, 95, 130]
INVALID = ["Monthly", "weekly", "", "2MS", "MS", "daily", "bi-monthly", 5]
MODELS = {
    "full": {"fw-su_sh_wi": ("hdd_tidd_cdd", dict(f_unc=1.5))},
    "heat": {"fw-su_sh_wi": ("hdd_tidd", dict(f_unc=0.7))},
    "flat": {"fw-su_sh_wi": ("tidd", dict(f_unc=2.0))},
    "split": {"fw-su": ("tidd_cdd", dict(intercept=11.0, f_unc=1.0)), "fw-sh_wi": ("hdd_tidd_cdd", dict(intercept=13.0, f_unc=3.0))},
}
_CACHE = {}


def _model(name, zone):
    import opendsm.eemeter as em

    k = (name, zone)
    if k not in _CACHE:
        subs = {}
        for key, (shape, kw) in MODELS[name].items():
            kw = dict(kw)
            f = kw.pop("f_unc")
            subs[key] = dd.submodel(dd.coeffs(shape, **kw), f_unc=f)
        s = dd.settings_dump("billing")
        s["developer_mode"] = True
        s["silent_developer_mode"] = True
        _CACHE[k] = em.BillingModel.from_dict(dd.document(subs, s, tz=zone))
    return _CACHE[k]


def deviations(span):
    """Deviation alphabet for a span: NaN-temperature day at lattice positions, NaN read for each 30-day period."""
    days = sorted(set([0, 1, span // 2, span - 2, span - 1] + list(range(26, span, 7))))
    devs = [("T", d) for d in days if 0 <= d < span]
    devs += [("U", j) for j in range((span + 29) // 30)]
    return devs


def cases(tier):
    out = []
    zones = ZONES_Q if tier == "quick" else ZONES_T
    models = ["full", "split"] if tier == "quick" else list(MODELS)
    bound = 1 if tier == "quick" else 2
    east = ["Europe/Berlin"] if tier == "quick" else ["Europe/Berlin", "Asia/Kolkata"]  # east of UTC: undeviated and 1 deviation
    for model, zone, start, span, usage in itertools.product(models, zones + east, STARTS, SPANS, [True, False]):
        devs = deviations(span)
        if not usage:
            devs = [d for d in devs if d[0] == "T"]
        for d in range((bound if zone not in east else (0 if tier == "quick" else 1)) + 1):
            for combo in itertools.combinations(range(len(devs)), d):
                if d == 2 and tier == "thorough" and (model not in ("full", "split") or span == 130):
                    continue
                out.append({"model": model, "zone": zone, "start": start, "span": span, "usage": usage,
                            "devs": [list(devs[i]) for i in combo]})
                if d == 0 and zone == zones[0]:
                    out.append(dict(out[-1], after=True))
                if d == 0 and zone == zones[0] and model == models[0] and start == STARTS[0]:
                    # history: a FITTED model object predicts this very data object with every aggregation, is then fitted again on
                    # another building, and predicts the same data object once more
                    out.append(dict(out[-1], after=False, refit=True))
    return out


def build(case):
    import opendsm.eemeter as em

    span, zone = case["span"], case["zone"]
    idx = ds.local_days(case["start"], span + 1, zone)
    T = 30.0 + 55.0 * (0.5 - 0.5 * np.cos(2 * np.pi * np.arange(span + 1) / 90.0))  # 30..85F
    for kind, d in case["devs"]:
        if kind == "T":
            T[d] = np.nan
    temp = pd.Series(T, index=idx, name="temperature")
    if not case["usage"]:
        return em.BillingReportingData.from_series(None, temp.iloc[:-1], is_electricity_data=True)
    starts = list(range(0, span, 30))
    if span - starts[-1] < 25 and len(starts) > 1:  # keep the last period on-cycle (25..35 days) unless the span itself is short
        starts.pop()
    vals = [1000.0 + 37.0 * j for j in range(len(starts))]
    for kind, j in case["devs"]:
        if kind == "U" and j < len(vals):
            vals[j] = np.nan
    meter = pd.Series(vals + [np.nan], index=idx[starts + [span]], name="observed")
    return em.BillingReportingData.from_series(meter, temp, is_electricity_data=True)


def periods(index, months):
    """label of the calendar period of each local timestamp: month count from the first row's month, // months."""
    m = (index.year * 12 + index.month - 1).to_numpy()
    return (m - m[0]) // months


def _close(a, b, scale):
    if np.isnan(a) and np.isnan(b):
        return True
    return abs(a - b) <= 1e-9 * max(1.0, scale)


def check_agg(daily, agg, months, key, has_obs):
    viol = []
    lab = periods(daily.index, months)
    nper = int(lab.max()) + 1
    if len(agg) != nper:
        viol.append({"clause": "row_count", "key": key, "detail": f"{len(agg)} rows for {nper} calendar periods "
                     f"({daily.index[0]} .. {daily.index[-1]})"})
        return viol
    # row labels: first day of the period's first month, local midnight
    first = daily.index[0]
    for k in range(nper):
        y, m0 = divmod(first.year * 12 + first.month - 1 + k * months, 12)
        exp_label = pd.Timestamp(year=y, month=m0 + 1, day=1, tz=daily.index.tz)
        if agg.index[k] != exp_label:
            viol.append({"clause": "row_label", "key": key, "detail": f"row {k} labelled {agg.index[k]} expected {exp_label}"})
            return viol
    cols = ["predicted", "heating_load", "cooling_load"] + (["observed"] if has_obs else [])
    if has_obs and "observed" not in agg.columns:
        viol.append({"clause": "observed_column_lost", "key": key, "detail": "aggregated frame has no observed column"})
        cols.remove("observed")
    for col in cols:
        v = daily[col].to_numpy(float)
        for k in range(nper):
            sel = (lab == k) & np.isfinite(v)
            got = float(agg[col].iloc[k])
            if sel.any():
                exp = float(v[sel].sum())
                ok = _close(got, exp, abs(exp))
            else:
                exp = "0 or NaN"
                ok = np.isnan(got) or got == 0.0
            if not ok:
                viol.append({"clause": f"period_sum_{col}", "key": key, "detail": f"period {k} ({agg.index[k].date()}): {got!r} expected {exp!r}"})
                break
        tot_d = float(np.nansum(v))
        tot_a = float(np.nansum(agg[col].to_numpy(float)))
        if not _close(tot_a, tot_d, abs(tot_d)):
            viol.append({"clause": f"total_{col}", "key": key, "detail": f"total over the span {tot_a!r} (aggregated) vs {tot_d!r} (daily)"})
    t = daily["temperature"].to_numpy(float)
    u = daily["predicted_unc"].to_numpy(float)
    for k in range(nper):
        sel = (lab == k) & np.isfinite(t)
        got = float(agg["temperature"].iloc[k])
        exp = float(t[sel].mean()) if sel.any() else np.nan
        if not _close(got, exp, abs(exp) if sel.any() else 1.0):
            viol.append({"clause": "period_mean_temperature", "key": key, "detail": f"period {k}: {got!r} expected {exp!r}"})
            break
    for k in range(nper):
        sel = (lab == k) & np.isfinite(u)
        got = float(agg["predicted_unc"].iloc[k])
        if sel.any():
            exp = float(np.sqrt(np.sum(u[sel] ** 2)))
            ok = _close(got, exp, abs(exp))
        else:
            exp = "0 or NaN"
            ok = np.isnan(got) or got == 0.0
        if not ok:
            viol.append({"clause": "period_rss_uncertainty", "key": key, "detail": f"period {k}: {got!r} expected {exp!r}"})
            break
    return viol


def run_case(case):
    model = _model(case["model"], case["zone"])
    try:
        data = build(case)
    except Exception as exc:
        return {"rejected": f"data class raised {type(exc).__name__}: {str(exc)[:60]}"}
    key0 = {"usage": case["usage"]}
    viol = []
    if case.get("refit"):
        import opendsm.eemeter as em

        def baseline(seed, **kw):
            fr = ds.daily_frame(start="2021-01-01", days=365, tz=case["zone"], wseed=seed, seed=seed, noise=0.03, **kw)
            return em.BillingBaselineData.from_series(ds.billing_reads(fr["observed"]), fr["temperature"], is_electricity_data=True)

        model = em.BillingModel().fit(baseline(1), ignore_disqualification=True)
        for a in (None, "monthly", "bimonthly"):
            model.predict(data, aggregation=a, ignore_disqualification=True)
        model.fit(baseline(2, base=90.0, hs=2.5, cs=0.2), ignore_disqualification=True)
        key0["history"] = "object_refitted_between_predictions_of_one_data_object"
        _orig = model.predict
        model.predict = lambda d, aggregation=None, **kw: _orig(d, aggregation=aggregation, ignore_disqualification=True)
    if case.get("after"):
        # history: first ANOTHER kind of reporting set (with / without usage) is predicted with every aggregation by the same model and
        # by a second model object of the class; nothing of that may show in what follows
        other = build(dict(case, usage=not case["usage"], devs=[]))
        second = _model(case["model"], case["zone"])
        import copy as _copy

        for mm in (model, _copy.deepcopy(second)):
            for a in (None, "monthly", "bimonthly"):
                mm.predict(other, aggregation=a)
        key0["history"] = "other_kind_first"
    try:
        daily = model.predict(data, aggregation=None)
    except Exception as exc:
        return {"behaviour": ["raise"], "violations": [{"clause": "predict_raised", "key": dict(key0, agg=None, exc=type(exc).__name__),
                                                       "detail": f"{type(exc).__name__}: {exc}"}]}
    if len(daily) == 0:
        return {"rejected": "the data object holds no rows (single off-cycle period)"}
    has_obs = "observed" in daily.columns
    beh = [len(daily)]
    # 'none' is the documented spelling of no aggregation
    try:
        same = model.predict(data, aggregation="none")
        if not same.equals(daily):
            viol.append({"clause": "none_differs", "key": dict(key0, agg="none"), "detail": "aggregation='none' differs from aggregation=None"})
    except Exception as exc:
        viol.append({"clause": "predict_raised", "key": dict(key0, agg="none", exc=type(exc).__name__), "detail": f"{exc}"})
    for name, months in (("monthly", 1), ("bimonthly", 2)):
        key = dict(key0, agg=name)
        try:
            agg = model.predict(data, aggregation=name)
        except Exception as exc:
            viol.append({"clause": "predict_raised", "key": dict(key, exc=type(exc).__name__), "detail": f"{type(exc).__name__}: {exc}"})
            continue
        viol += check_agg(daily, agg, months, key, has_obs)
        beh.append(len(agg))
    if not case["devs"]:
        for bad in INVALID:
            try:
                model.predict(data, aggregation=bad)
                viol.append({"clause": "invalid_aggregation_accepted", "key": {"arg": repr(bad)}, "detail": f"aggregation={bad!r} did not raise"})
            except Exception:
                pass
    return {"behaviour": beh, "violations": viol, "nontrivial": True, "stats": {"daily_rows": int(len(daily))}}


def run(tier, seed):
    cs = cases(tier)
    with poolmod.Pool() as pool:
        ex = explore.explore(pool, "reporting sets x models x aggregations", MOD, "run_case", cs, seed=seed)
    cov = explore.merge_coverage(
        [ex],
        rule="one case = (billing model document, zone, start day, span, usage?, <=d deviations (NaN-temperature day / NaN read) "
        "at lattice positions); each case predicts with None/'none'/'monthly'/'bimonthly' (and, for d=0, every invalid "
        "argument); behaviour = (daily rows, monthly rows, bimonthly rows)",
    )
    cov["daily_rows"] = ex.stats.get("daily_rows", 0)
    return {"level": LEVEL, "coverage": cov, "violations": ex.violations, "assumptions": ASSUMPTIONS}


def replay(rep):
    vs = []
    for k in range(2):
        r = run_case(rep["case"])
        vs = [v for v in r.get("violations", []) if v["clause"] == rep["clause"]]
        print(f"run {k}: behaviour={r.get('behaviour')} violations={[v['clause'] for v in r.get('violations', [])]}")
        for v in vs[:2]:
            print("  ", v["detail"][:500])
    return 1 if vs else 0
