"""C05 — the counterfactual never depends on reporting-period consumption.

Exhaustive product: fitted models of every family (full-year baselines) x reporting sets x EVERY alteration of the
observed column in a fixed alphabet; paired runs (identity vs alteration) must agree bit for bit on every timestamp
where both produce a prediction, and an alteration must not turn a successful run into an exception.
"""
import numpy as np
import pandas as pd

from .. import datasets as ds, explore, pool as poolmod
from . import c02

PROP = "C05"
LEVEL = "exploration"
MOD = "mc.checks.c05"
ZONE = "America/Chicago"

ASSUMPTIONS = [
    "baselines cover every calendar month and weekday (365 days), as the statement conditions",
    "two runs are compared on the timestamps where BOTH produce a finite prediction (daily/billing leave days without usage "
    "unpredicted by design: C07); for the hourly and CalTRACK families every row is predicted in every run, so all rows are compared",
    "only the 'predicted' column is compared (the CalTRACK wrapper's uncertainty column is a function of observed usage by definition)",
    "billing: the alteration is applied to the billed amounts; a NaN read removes its period's usage",
]

FAMILIES = ["daily", "billing", "hourly", "hourly_solar", "caltrack", "hourly_satgap", "hourly_pv"]
# hourly_pv: net-metered site whose PV starts on day 181 of the baseline (pv_start given for the baseline); the model uses the
# data class's has_pv flag as a categorical feature; the reporting data leave pv_start unset (documented: PV from the first day
# on) and carry net readings whose first export happens on the fourth day
# hourly_satgap: the hourly family fitted on a baseline with a 14-hour outage on every Saturday of February: every (month, weekday)
# combination is present and metered and nothing is disqualified, but those four days fall below min_daily_training_hours
SETS = [("week", "2022-07-04", 7), ("dst_month", "2022-03-01", 31), ("year", "2022-01-01", 365), ("feb", "2022-02-01", 28)]
# thorough: a 35-day set starting in every calendar month (every month boundary, both DST changes)
SETS += [(f"m{m:02d}", f"2022-{m:02d}-10", 35) for m in range(1, 13)]


def alterations(n, family):
    """name -> function(values ndarray) -> ndarray or None (= column absent)"""
    rng = np.random.default_rng(12345)
    perm = rng.permutation(n)
    unit = 24 if family in ("hourly", "hourly_solar", "caltrack", "hourly_satgap", "hourly_pv") else 1
    runs = [1, 6, 24, 48] if unit == 24 else [1, 3, 10]

    def nan_run(length):
        def f(v):
            v = v.copy()
            a = min(n // 3, max(0, n - length - 1))
            v[a:a + length] = np.nan
            return v
        return f

    out = [
        ("identity", lambda v: v.copy()),
        ("x0.5", lambda v: v * 0.5),
        ("x7", lambda v: v * 7.0),
        ("reversed", lambda v: v[::-1].copy()),
        ("shuffled", lambda v: v[perm].copy()),
        ("every_2nd_nan", lambda v: np.where(np.arange(n) % 2 == 0, v, np.nan)),
        ("first_half_nan", lambda v: np.where(np.arange(n) >= n // 2, v, np.nan)),
    ]
    out += [(f"nan_run_{r}", nan_run(r)) for r in runs if r < n]
    if n >= 4:
        # blank stretches at the END of the period (ending inside a day for the hourly families) and at its very first / last value
        out += [("last_quarter_nan", lambda v: np.where(np.arange(n) < n - max(1, n // 4), v, np.nan)),
                ("first_and_last_nan", lambda v: np.where((np.arange(n) == 0) | (np.arange(n) == n - 1), np.nan, v))]
    if n >= 30:
        # exact zeros (for electricity: documented as missing usage) scattered over the period, and on a regular sub-pattern
        out += [("zeros_scattered", lambda v: np.where(np.arange(n) % 23 == 5, 0.0, v)),
                ("zeros_every_3rd_block", lambda v: np.where((np.arange(n) // 6) % 3 == 2, 0.0, v))]
    out += [
        ("all_nan", lambda v: np.full(n, np.nan)),
        ("absent", lambda v: None),
        ("all_zero", lambda v: np.zeros(n)),
        ("negative", lambda v: -v),
        ("constant", lambda v: np.full(n, 3.25)),
    ]
    return out


def _pv_generation(index, first_day=0):
    """kWh exported per hour by a PV array (0 at night), none before day `first_day` of the index"""
    local = index.tz_localize(None)
    hr = local.hour.to_numpy()
    dnum = (local.normalize() - local[0].normalize()).days.to_numpy()
    g = 4.0 * np.clip(np.sin(np.pi * (hr - 6) / 12.0), 0, None)
    g[dnum < first_day] = 0.0
    return g


def build_reporting(family, start, days, values_fn, variant="plain"):
    """reporting data object whose usage is values_fn(base usage); weather identical in every alteration.
    variants: plain | weather_gaps (hourly families: NaN runs in temperature and ghi) | six_am_hourly_feed (daily: meter read
    at 06:00 local, hourly temperature feed, through from_series)"""
    import opendsm.eemeter as em

    fam = "hourly" if family == "hourly_satgap" else family
    if fam == "hourly_pv":
        fr = ds.hourly_frame(start=start, days=days, tz=ZONE, wseed=1, seed=11)
        net = fr["observed"].to_numpy() - _pv_generation(fr.index, first_day=3)  # three overcast days first: no export yet
        v = values_fn(net)
        fr = fr.drop(columns=["observed"]) if v is None else fr.assign(observed=v)
        return em.HourlyReportingData(fr, is_electricity_data=True)
    if variant == "dup_rows":
        return _dup_rows(fam, start, days, values_fn)
    if fam == "daily" and variant == "six_am_hourly_feed":
        idx = (pd.date_range(pd.Timestamp(start) + pd.Timedelta(hours=6), periods=days, freq="D")).tz_localize(ZONE)
        base = 20.0 + 3.0 * np.sin(np.arange(days) / 5.0) + np.arange(days) % 7
        v = values_fn(base)
        hidx = ds.local_hours(start, days + 2, ZONE)
        temp = ds.hourly_temperature(hidx, "continental", 1)
        if v is None:
            return em.DailyReportingData.from_series(None, temp, is_electricity_data=True)
        return em.DailyReportingData.from_series(pd.Series(v, index=idx, name="observed"), temp, is_electricity_data=True)
    if fam == "daily" and variant == "hourly_frame":
        # the daily class handed an HOURLY frame (usage and temperature per hour): it aggregates both to days itself
        fr = ds.hourly_frame(start=start, days=days, tz=ZONE, wseed=1, seed=11)
        v = values_fn(fr["observed"].to_numpy())
        if v is None:
            return em.DailyReportingData(fr[["temperature"]], is_electricity_data=True)
        return em.DailyReportingData(pd.DataFrame({"observed": v, "temperature": fr["temperature"]}, index=fr.index), is_electricity_data=True)
    if fam in ("daily", "billing"):
        fr = ds.daily_frame(start=start, days=days, tz=ZONE, wseed=1, seed=11, noise=0.05)
        if fam == "daily":
            v = values_fn(fr["observed"].to_numpy())
            if v is None:
                return em.DailyReportingData(fr[["temperature"]], is_electricity_data=True)
            return em.DailyReportingData(pd.DataFrame({"observed": v, "temperature": fr["temperature"]}, index=fr.index), is_electricity_data=True)
        idx1 = ds.local_days(start, days + 1, ZONE)
        t = ds.daily_temperature(idx1, "continental", 1)
        if days < 28:
            reads_pos = [0, days]
        else:
            reads_pos = list(range(0, days - 24, 30)) + [days]
        base = np.array([900.0 + 13.0 * j for j in range(len(reads_pos) - 1)])
        v = values_fn(base)
        if v is None:
            return em.BillingReportingData.from_series(None, t, is_electricity_data=True)
        meter = pd.Series(list(v) + [np.nan], index=idx1[reads_pos], name="observed")
        return em.BillingReportingData.from_series(meter, t, is_electricity_data=True)
    solar = fam == "hourly_solar"
    fr = ds.hourly_frame(start=start, days=days, tz=ZONE, wseed=1, seed=11, solar=solar)
    if variant == "weather_gaps":
        n = len(fr)
        for col, starts, length in (("temperature", (n // 5, n // 2), 5), ("ghi", (n // 4, n // 2 + 3, 3 * n // 4), 4)):
            if col in fr.columns:
                for a in starts:
                    fr.iloc[a:a + length, fr.columns.get_loc(col)] = np.nan
    v = values_fn(fr["observed"].to_numpy())
    if v is None:
        fr = fr.drop(columns=["observed"])
    else:
        fr = fr.assign(observed=v)
    if fam == "caltrack":
        from opendsm.eemeter.models.hourly_caltrack import HourlyReportingData as CR

        if variant == "from_series_mixed_zones":
            # the two series arrive in different zones (meter export in UTC, weather in local time) through from_series
            temp = fr["temperature"]
            if v is None:
                return CR.from_series(None, temp, is_electricity_data=True)
            return CR.from_series(fr["observed"].tz_convert("UTC"), temp, is_electricity_data=True)
        if variant == "from_series_weather_in_utc":
            # ... and the other way round: local meter readings, weather feed in UTC
            temp = fr["temperature"].tz_convert("UTC")
            if v is None:
                return CR.from_series(None, temp, is_electricity_data=True)
            return CR.from_series(fr["observed"], temp, is_electricity_data=True)
        return CR(fr, is_electricity_data=True)
    return em.HourlyReportingData(fr, is_electricity_data=True)


def _dup_rows(fam, start, days, values_fn):
    """two overlapping exports concatenated: rows 1/3..1/2 of the frame appear twice, the second copy with re-issued weather
    (+5 F) and the ORIGINAL usage; the alteration is applied to the first copy.  The first row of a timestamp counts."""
    import opendsm.eemeter as em

    if fam == "daily":
        fr = ds.daily_frame(start=start, days=days, tz=ZONE, wseed=1, seed=11, noise=0.05)
    else:
        fr = ds.hourly_frame(start=start, days=days, tz=ZONE, wseed=1, seed=11, solar=fam == "hourly_solar")
    base_obs = fr["observed"].to_numpy().copy()
    v = values_fn(base_obs)
    first = fr.copy()
    if v is None:
        first = first.drop(columns=["observed"])
    else:
        first["observed"] = v
    n = len(fr)
    second = fr.iloc[n // 3: n // 2].copy()
    second["temperature"] = second["temperature"] + 5.0
    if v is None:
        second = second.drop(columns=["observed"])
    frame = pd.concat([first, second])
    if fam == "daily":
        return em.DailyReportingData(frame, is_electricity_data=True)
    return em.HourlyReportingData(frame, is_electricity_data=True)


_FIT = {}


def fitted(family):
    if family == "hourly_pv" and family not in _FIT:
        import opendsm.eemeter as em

        frame = c02.baseline_frame("hourly", 365, seed=0)
        frame["observed"] = frame["observed"].to_numpy() - _pv_generation(frame.index, first_day=180)
        data = em.HourlyBaselineData(frame, is_electricity_data=True, pv_start=str(frame.index[180 * 24].date()))
        _FIT[family] = em.HourlyModel(settings={"seed": 7, "supplemental_categorical_columns": ["has_pv"]}).fit(data, ignore_disqualification=True)
        if "has_pv" not in _FIT[family]._categorical_features:
            raise RuntimeError("driver: the has_pv flag did not become a model feature")
    if family not in _FIT:
        base = "hourly" if family == "hourly_satgap" else family
        frame = c02.baseline_frame(base, 365, seed=0)
        if family == "hourly_satgap":
            idx = frame.index
            sel = (idx.month == 2) & (idx.dayofweek == 5) & (idx.hour >= 5) & (idx.hour < 19)
            frame.loc[sel, "observed"] = np.nan
        data = c02.make_baseline(base, frame)
        if family == "hourly_satgap" and data.disqualification:
            raise RuntimeError(f"driver: the Saturday-outage baseline is disqualified: {[w.qualified_name for w in data.disqualification]}")
        _FIT[family] = c02.fit(base, c02.new_model(base), data)
    return _FIT[family]


def n_values(family, days):
    if family == "daily":
        return days
    if family == "billing":
        return 1 if days < 28 else len(range(0, days - 24, 30))
    return len(ds.local_hours("2022-01-01", days, ZONE)) if False else None


def run_case(case):
    family, (sname, start, days) = case["family"], next(s for s in SETS if s[0] == case["set"])
    variant = case.get("variant", "plain")
    sname = sname if variant == "plain" else f"{sname}/{variant}"
    model = fitted(family)
    if case.get("model") == "loaded":
        # the model as it comes back from storage (it has never seen its baseline's usage in this process)
        if ("loaded", family) not in _FIT:
            _FIT[("loaded", family)] = type(model).from_json(model.to_json())
        model = _FIT[("loaded", family)]
        sname += "/loaded"
    family_pred = "hourly" if family in ("hourly_satgap", "hourly_pv") else family
    viol = []
    key0 = {"family": family}
    if variant in ("from_series_mixed_zones", "from_series_weather_in_utc"):
        key0["variant"] = variant
    # number of usage values
    if family == "daily" and variant == "hourly_frame":
        n = len(ds.local_hours(start, days, ZONE))
    elif family in ("daily",):
        n = days
    elif family in ("hourly_satgap", "hourly_pv"):
        n = len(ds.local_hours(start, days, ZONE))
    elif family == "billing":
        n = 1 if days < 28 else len(range(0, days - 24, 30))
    else:
        n = len(ds.local_hours(start, days, ZONE))
    alts = alterations(n, "hourly" if variant == "hourly_frame" else family)
    ref = None
    beh = []
    compared = 0
    rejected_alts = []
    for name, fn in alts:
        try:
            data = build_reporting(family, start, days, fn, variant)
        except Exception as exc:
            if name == "identity":
                return {"rejected": f"identity data object cannot be built: {type(exc).__name__}"}
            if name in ("absent", "all_nan", "all_zero", "x0.5", "x7", "reversed", "shuffled", "negative", "constant"):
                # omitting or replacing the usage must always be possible
                viol.append({"clause": "data_class_raised_under_alteration", "key": dict(key0, alt=name, exc=type(exc).__name__),
                             "detail": f"{sname}/{name}: {type(exc).__name__}: {str(exc)[:200]}"})
            else:
                # a gap pattern the data class itself refuses (e.g. every second daily value missing is taken for billing data):
                # no prediction is produced, so there is nothing for this property to compare; counted, belongs to C10
                rejected_alts.append(f"{name}: {type(exc).__name__}: {str(exc)[:80]}")
            continue
        try:
            p = c02.predict(family_pred, model, data)
            pred = p["predicted"]
        except Exception as exc:
            if name == "identity":
                return {"behaviour": ["identity_raises", type(exc).__name__],
                        "violations": [{"clause": "identity_run_raises", "key": dict(key0, exc=type(exc).__name__),
                                        "detail": f"{sname}: {type(exc).__name__}: {str(exc)[:200]}"}]}
            viol.append({"clause": "alteration_turns_run_into_exception", "key": dict(key0, alt=name, exc=type(exc).__name__),
                         "detail": f"{sname}/{name}: {type(exc).__name__}: {str(exc)[:200]}"})
            beh.append((name, "raise"))
            continue
        if name == "identity":
            ref = pred
            beh.append((name, int(np.isfinite(pred.to_numpy(float)).sum())))
            if family in ("hourly", "hourly_solar", "caltrack", "hourly_satgap", "hourly_pv") and not np.isfinite(pred.to_numpy(float)).all():
                viol.append({"clause": "hourly_row_unpredicted", "key": key0, "detail": f"{sname}: identity run leaves rows unpredicted"})
            continue
        a, b = ref.align(pred, join="inner")
        both = np.isfinite(a.to_numpy(float)) & np.isfinite(b.to_numpy(float))
        compared += int(both.sum())
        if family in ("hourly", "hourly_solar", "caltrack", "hourly_satgap", "hourly_pv"):
            if len(pred) != len(ref) or not np.isfinite(pred.to_numpy(float)).all():
                viol.append({"clause": "hourly_row_unpredicted", "key": dict(key0, alt=name),
                             "detail": f"{sname}/{name}: {len(pred)} rows, {int((~np.isfinite(pred.to_numpy(float))).sum())} not finite (identity: {len(ref)} rows)"})
        diff = both & (a.to_numpy(float) != b.to_numpy(float))
        if diff.any():
            j = int(np.flatnonzero(diff)[0])
            viol.append({"clause": "prediction_depends_on_observed", "key": dict(key0, alt=name),
                         "detail": f"{sname}/{name}: {int(diff.sum())} of {int(both.sum())} common rows differ; first {a.index[j]}: "
                                   f"{a.iloc[j]!r} (identity) vs {b.iloc[j]!r}"})
        beh.append((name, int(both.sum())))
    return {"behaviour": [family, sname, beh, rejected_alts], "violations": viol,
            "stats": {"rows_compared": compared, "paired_runs": len(alts) - 1 - len(rejected_alts),
                      "alterations_refused_by_data_class": len(rejected_alts)}}


def cases(tier):
    out = []
    for f in FAMILIES:
        for sname, _, _ in SETS:
            if sname.startswith("m") and sname[1:].isdigit():
                if tier == "thorough" and f not in ("hourly_satgap", "hourly_pv"):
                    out.append({"family": f, "set": sname})
                    if sname in ("m03", "m10"):
                        out.append({"family": f, "set": sname, "model": "loaded"})
                continue
            if tier == "quick" and f == "caltrack" and sname == "year":
                continue
            if sname == "feb" and f != "hourly_satgap":
                continue
            if f == "hourly_satgap" and sname not in ("feb", "year"):
                continue
            if f == "hourly_pv" and sname not in ("dst_month", "week"):
                continue
            if f in ("daily", "hourly") and sname == "dst_month":
                out.append({"family": f, "set": sname, "variant": "dup_rows"})
            out.append({"family": f, "set": sname})
            if sname == "week" and f not in ("hourly_satgap", "hourly_pv"):
                out.append({"family": f, "set": sname, "model": "loaded"})
            if f in ("hourly", "hourly_solar") and sname != "year":
                out.append({"family": f, "set": sname, "variant": "weather_gaps"})
            if f == "daily" and sname != "year":
                out.append({"family": f, "set": sname, "variant": "six_am_hourly_feed"})
            if f == "caltrack" and sname == "week":
                out.append({"family": f, "set": sname, "variant": "from_series_mixed_zones"})
                out.append({"family": f, "set": sname, "variant": "from_series_weather_in_utc"})
            if f == "daily" and sname in ("dst_month", "week") or (f == "daily" and sname == "year" and tier == "thorough"):
                out.append({"family": f, "set": sname, "variant": "hourly_frame"})
    # longest first so the pool is busy
    return out


def run(tier, seed):
    cs = cases(tier)
    with poolmod.Pool(workers=min(len(cs), poolmod.n_workers())) as pool:
        ex = explore.explore(pool, "models x reporting sets x alterations", MOD, "run_case", cs, seed=seed, chunk=1)
    cov = explore.merge_coverage(
        [ex],
        rule="one case = (family's fitted model, reporting set); inside it every alteration of the observed column {x0.5, x7, reversed, "
        "shuffled, every 2nd NaN, first half NaN, NaN runs, scattered exact zeros, all NaN, absent, all zero, negative, constant} is run and compared with the "
        "identity run (plus a trailing blank quarter and blank first/last values); behaviour = per alteration the number of commonly predicted rows",
    )
    cov["rows_compared"] = ex.stats.get("rows_compared", 0)
    cov["paired_runs"] = ex.stats.get("paired_runs", 0)
    cov["alterations_refused_by_data_class"] = ex.stats.get("alterations_refused_by_data_class", 0)
    return {"level": LEVEL, "coverage": cov, "violations": ex.violations, "assumptions": ASSUMPTIONS}


def replay(rep):
    vs = []
    for k in range(2):
        r = run_case(rep["case"])
        vs = [v for v in r.get("violations", []) if v["clause"] == rep["clause"]]
        print(f"run {k}: violations={sorted(set(v['clause'] for v in r.get('violations', [])))}")
        for v in vs[:3]:
            print("  ", v["detail"][:600])
    return 1 if vs else 0
