"""C17 - hourly data preparation keeps what was measured and flags what was filled.

Deviation-bounded enumeration: well-formed hourly frames (length x zone/DST
placement x first/last supplied hour x fuel x irradiance x data class x index
unit) and every deviation from them up to a bound (NaN cell, absent row,
duplicated row with a different value in both orders, zero usage, NaN runs,
whole column empty, column with a single value) at every hour of the short frames /
on a lattice of the long ones.  The oracle is computed cell by cell from the INPUT alone:

  index      data.df is gap-free hourly (contiguous in UTC) from the first to the
             last on-the-hour instant of the local days of the first / last
             supplied row
  value      every supplied finite value (first row of a timestamp; zero electric
             usage is not supplied) is bit-identical at its timestamp
  flags      interpolated_<col> is true exactly on cells that were not supplied
             and are now present
  complete   no NaN remains in a column unless the whole column was empty
  first-wins of two rows with one timestamp the first one counts
  total      the constructor does not raise and does not touch the caller's frame
"""
import datetime as _dt
import functools
import traceback
from zoneinfo import ZoneInfo

import numpy as np
import pandas as pd

from .. import explore, pool as poolmod

PROP = "C17"
LEVEL = "exploration"
MOD = "mc.checks.c17"

H = 3_600_000_000_000  # one hour in ns

ASSUMPTIONS = [
    "a 'supplied day' is the local calendar date of any row present in the input (NaN cells do not remove a row); no "
    "enumerated case has a first or last day all of whose rows are NaN in every column, so 'first/last row' and 'first/last "
    "row carrying a value' name the same day (exception: the frames whose columns are ALL empty, where only the rows can "
    "define the days)",
    "'whole local days' = every instant of the input's hourly lattice whose local date lies between the first and last "
    "supplied day: 00:00..23:00 local wherever those wall times exist once; in zones whose DST change is at local midnight the "
    "first existing instant of the day and the second 23:00/00:00 are included (such zones are a separate space, keyed "
    "zone_class=dst_at_midnight)",
    "when the FIRST of two rows with one timestamp has a missing cell (NaN, or zero electric usage) and the second has a "
    "value, both readings are accepted for that cell: filled-and-flagged, or the second row's value unflagged",
    "filled values are not constrained (any non-NaN number); only presence and the flag are checked",
    "when a whole column is empty the flag must still equal 'now present' (NaN left => not flagged); a column is empty when "
    "no row supplies a value in it (for electric usage: only NaN and zeros)",
    "HourlyReportingData without an observed column: nothing is demanded of the generated observed column",
    "frames of 3 local days are enumerated to reach the no-autocorrelation branch of interpolate() although the quantifier "
    "starts at 4 days; their violations carry frame='3d' in the key so they can be judged separately",
    "gas (non-electric) zero usage is a supplied value and must be preserved unflagged",
    "the tz of the returned index is not constrained; instants are compared",
    "inputs are sorted by time, on the hour in local time, float64, with a DatetimeIndex (units ns/us/s); zones with a "
    "sub-hour DST shift (Lord Howe) are not enumerated because on-the-hour local input is not hourly-contiguous there, so "
    "'gap-free hourly' has no agreed meaning",
    "cell values are a distinct ramp per column (value = a + b*slot; the extra row of a duplicate carries +b/2), so a value "
    "taken from another row or from the losing duplicate is recognisable",
]

# ----------------------------------------------------------------------------------------------------------------------
# zones and DST placements
ZONES = {
    # zone: (class, {transition name: local date of the 23/25-hour day})
    "UTC": ("utc", {}),
    "Asia/Kolkata": ("half_hour_offset", {}),
    "America/Chicago": ("dst_whole_hour", {"fwd": "2021-03-14", "back": "2021-11-07"}),
    "Australia/Sydney": ("dst_whole_hour", {"fwd": "2021-10-03", "back": "2021-04-04"}),
    # DST change at local midnight: separate space
    "America/Havana": ("dst_at_midnight", {"fwd": "2021-03-14", "back": "2021-11-07"}),
    "America/Santiago": ("dst_at_midnight", {"fwd": "2021-09-05", "back": "2021-04-03"}),
}
NO_DST_START = "2021-06-10"

# irradiance starts below zero (night-time offsets of a measured pyranometer feed are small negative numbers): supplied values of either sign
A_COEF = {"observed": (100.0, 1.1), "temperature": (30.0, 0.013), "ghi": (-3.0, 0.37)}
COLS3 = ("temperature", "observed", "ghi")
RUNS = (2, 6, 23, 24, 25, 48)


def zone_start(zone, trans, place, ndays):
    """ISO date of the first local day such that the DST day sits first / mid / last in the frame."""
    if trans is None:
        return NO_DST_START
    d = _dt.date.fromisoformat(ZONES[zone][1][trans])
    off = {"first": 0, "mid": ndays // 2, "last": ndays - 1}[place]
    return (d - _dt.timedelta(days=off)).isoformat()


def _local(ns, tz):
    return _dt.datetime.fromtimestamp(ns // 1_000_000_000, tz)


@functools.lru_cache(maxsize=256)
def slots(zone, start, ndays, h0, h1):
    """UTC instants (int64 ns) of the well-formed frame: every on-the-hour instant from the first instant of local day
    `start` with wall hour >= h0 to the last instant of the last local day with wall hour <= h1."""
    tz = ZoneInfo(zone)
    d0 = _dt.date.fromisoformat(start)
    d1 = d0 + _dt.timedelta(days=ndays - 1)
    noon0 = int(_dt.datetime(d0.year, d0.month, d0.day, 12, tzinfo=tz).timestamp()) * 1_000_000_000
    noon1 = int(_dt.datetime(d1.year, d1.month, d1.day, 12, tzinfo=tz).timestamp()) * 1_000_000_000
    out = []
    s = noon0 - 14 * H
    while s <= noon1 + 14 * H:
        loc = _local(s, tz)
        dd = loc.date()
        if d0 <= dd <= d1 and not (dd == d0 and loc.hour < h0) and not (dd == d1 and loc.hour > h1):
            out.append(s)
        s += H
    arr = np.array(out, dtype="int64")
    arr.setflags(write=False)
    return arr


def dst_slots(zone, inst):
    """slot numbers within two hours of a UTC-offset change"""
    tz = ZoneInfo(zone)
    offs = [_local(int(s), tz).utcoffset() for s in inst]
    out = set()
    for i in range(1, len(offs)):
        if offs[i] != offs[i - 1]:
            out.update(range(max(0, i - 3), min(len(offs), i + 3)))
    return sorted(out)


# ----------------------------------------------------------------------------------------------------------------------
# input construction
def input_columns(base):
    cols = ["observed", "temperature"]
    if base["cls"] == "reporting_noobs":
        cols = ["temperature"]
    if base["ghi"]:
        cols.append("ghi")
    return cols


def build_input(case):
    """-> (DataFrame handed to the constructor, row instants int64 ns, {col: row values})"""
    base = case["base"]
    inst = slots(base["zone"], base["start"], base["ndays"], base["h0"], base["h1"])
    n = len(inst)
    cols = input_columns(base)
    k = np.arange(n, dtype="float64")
    orig = {c: A_COEF[c][0] + A_COEF[c][1] * k for c in cols}
    extra = {c: A_COEF[c][0] + A_COEF[c][1] * k + A_COEF[c][1] / 2 for c in cols}
    if base["fuel"] == "gas" and "observed" in orig:
        # a gas meter feed with negative readings (corrections / a register running backwards): supplied finite values like any other
        orig["observed"][5::17] *= -1.0
        extra["observed"][5::17] *= -1.0
    absent = np.zeros(n, bool)
    before = np.zeros(n, bool)
    after = np.zeros(n, bool)
    for dev in case.get("devs", []):
        kind = dev[0]
        if kind == "nan":
            _, c, p = dev
            if c in orig:
                orig[c][p] = np.nan
        elif kind == "zero":
            if "observed" in orig:
                orig["observed"][dev[1]] = 0.0
        elif kind == "run":
            _, c, L, p = dev
            if c in orig:
                orig[c][p : p + L] = np.nan
        elif kind == "absent":
            absent[dev[1]] = True
        elif kind == "dupA":
            after[dev[1]] = True
        elif kind == "dupB":
            before[dev[1]] = True
        elif kind == "empty":
            if dev[1] in orig:
                orig[dev[1]][:] = np.nan
                extra[dev[1]][:] = np.nan
        elif kind == "only":  # the column holds a single value, at slot p
            _, c, p = dev
            if c in orig:
                v = orig[c][p]
                orig[c][:] = np.nan
                extra[c][:] = np.nan
                orig[c][p] = v
        elif kind == "empty0":
            if "observed" in orig:
                orig["observed"][:] = 0.0
                extra["observed"][:] = 0.0
        else:
            raise ValueError(kind)
    # assemble rows: (slot, rank) rank 0 = extra row before, 1 = original, 2 = extra row after
    keep = ~absent
    sl = np.concatenate([np.flatnonzero(before), np.flatnonzero(keep), np.flatnonzero(after)])
    rk = np.concatenate([np.zeros(before.sum(), int), np.ones(keep.sum(), int), np.full(after.sum(), 2)])
    order = np.lexsort((rk, sl))
    sl, rk = sl[order], rk[order]
    if base.get("order") == "extras_last":     # the extra rows arrive below the regular ones (a correction export appended)
        o2 = np.argsort(rk != 1, kind="stable")
        sl, rk = sl[o2], rk[o2]
    elif base.get("order") == "extras_first":  # ... or above them
        o2 = np.argsort(rk == 1, kind="stable")
        sl, rk = sl[o2], rk[o2]
    elif base.get("order") == "reversed":      # newest first
        sl, rk = sl[::-1].copy(), rk[::-1].copy()
    row_inst = inst[sl]
    row_vals = {c: np.where(rk == 1, orig[c][sl], extra[c][sl]) for c in cols}
    idx = pd.DatetimeIndex(row_inst.astype("datetime64[ns]")).tz_localize("UTC")
    unit = base.get("unit", "ns")
    if unit != "ns":
        idx = idx.as_unit(unit)
    idx = idx.tz_convert(base["zone"])
    df = pd.DataFrame({c: row_vals[c].copy() for c in cols}, index=idx)
    if base.get("entry") == "datetime_column":
        # the timestamps arrive in a tz-aware `datetime` column instead of the index (the other documented entry form)
        df = df.reset_index(names="datetime")
    return df, row_inst, row_vals


def _fp(df):
    return (
        tuple(df.columns),
        tuple(str(d) for d in df.dtypes),
        str(df.index.dtype),
        df.index.asi8.tobytes() if isinstance(df.index, pd.DatetimeIndex) else repr(list(df.index[:3])) + str(len(df.index)),
        df.index.name,
        tuple((df[c].astype("int64") if str(df[c].dtype).startswith("datetime64") else df[c]).to_numpy().tobytes() for c in df.columns),
    )


# ----------------------------------------------------------------------------------------------------------------------
# reference: what the frame must look like, from the input alone
def expected_span(row_inst, zone):
    tz = ZoneInfo(zone)
    lo, hi = int(row_inst.min()), int(row_inst.max())
    d_lo, d_hi = _local(lo, tz).date(), _local(hi, tz).date()
    while _local(lo - H, tz).date() == d_lo:
        lo -= H
    while _local(hi + H, tz).date() == d_hi:
        hi += H
    return lo, hi


def reference(row_inst, row_vals, electric, zone):
    lo, hi = expected_span(row_inst, zone)
    n = (hi - lo) // H + 1
    slot = (row_inst - lo) // H
    ref = {}
    for c, v in row_vals.items():
        ok = np.isfinite(v)
        if electric and c == "observed":
            ok &= v != 0
        sup = np.full(n, np.nan)  # value supplied by the first row of the timestamp
        has = np.zeros(n, bool)
        seen = np.zeros(n, bool)
        alt = {}  # slot -> values a later row supplies while the first row supplies none
        loser = {}  # slot -> values of later rows that must NOT win
        for r in range(len(slot)):  # input order
            s = slot[r]
            if not seen[s]:
                seen[s] = True
                if ok[r]:
                    sup[s] = v[r]
                    has[s] = True
            elif ok[r]:
                (loser if has[s] else alt).setdefault(int(s), []).append(float(v[r]))
        ref[c] = {"sup": sup, "has": has, "alt": alt, "loser": loser, "empty": not ok.any()}
    return lo, hi, n, ref


def _bits(a):
    return np.asarray(a, dtype="float64").view("int64")


def _ts(ns, zone):
    return str(pd.Timestamp(int(ns), tz="UTC").tz_convert(zone))


def check_output(out, row_inst, row_vals, electric, zone, key0):
    """-> (violations, behaviour, stats)"""
    viol = []

    def V(clause, detail, **k):
        if clause == "index":  # one root cause whatever the deviation: key on the zone class and the kind of error only
            key = {"zone_class": key0.get("zone_class"), **k}
        else:  # the column is named in the detail, not in the key (one root cause usually hits every column)
            key = dict(key0, **{a: b for a, b in k.items() if a != "col"})
        viol.append({"clause": clause, "key": key, "detail": detail})

    lo, hi, n, ref = reference(row_inst, row_vals, electric, zone)
    E = lo + H * np.arange(n, dtype="int64")
    if not isinstance(out, pd.DataFrame) or not isinstance(out.index, pd.DatetimeIndex) or out.index.tz is None:
        V("index", f"data.df is not a frame with a tz-aware DatetimeIndex: {type(out).__name__}", reason="not_datetime_tz")
        return viol, {"bad": "index-type"}, {}
    O = out.index.as_unit("ns").asi8
    if not np.array_equal(O, E):
        reasons = []
        if len(O) == 0:
            reasons.append("empty")
        else:
            if O[0] != E[0]:
                reasons.append("starts_late" if O[0] > E[0] else "starts_early")
            if O[-1] != E[-1]:
                reasons.append("ends_early" if O[-1] < E[-1] else "ends_late")
            if (np.diff(O) != H).any():
                reasons.append("not_contiguous_hourly")
        V("index", f"index runs {_ts(O[0], zone) if len(O) else None} .. {_ts(O[-1], zone) if len(O) else None} "
          f"({len(O)} rows); expected {_ts(E[0], zone)} .. {_ts(E[-1], zone)} ({n} rows) for input rows "
          f"{_ts(row_inst.min(), zone)} .. {_ts(row_inst.max(), zone)}", reason="+".join(reasons) or "other")
    # align on instants
    k = (O - lo) // H
    good = ((O - lo) % H == 0) & (k >= 0) & (k < n)
    _, first = np.unique(np.where(good, k, -1), return_index=True)
    jpos = np.array([j for j in first if good[j]], dtype=int)  # out row of each matched slot (first occurrence)
    kk = k[jpos]
    beh = {"rows_added": int(len(O) - len(np.unique(row_inst))), "filled": {}, "left": {}}
    stats = {"cells": 0, "supplied_cells": 0, "filled_cells": 0, "dup_cells": 0, "ambiguous_cells": 0}
    for c, r in ref.items():
        fcol = "interpolated_" + c
        if c not in out.columns or fcol not in out.columns:
            V("column_missing", f"data.df lacks {c if c not in out.columns else fcol}", col=c)
            continue
        try:
            ov = out[c].to_numpy(dtype="float64")[jpos]
            fl_raw = out[fcol].to_numpy()[jpos]
            fl = np.array([x is True or x == 1 for x in fl_raw.tolist()], dtype=bool)
            if not all(isinstance(x, (bool, np.bool_)) or x in (0, 1) for x in fl_raw.tolist()):
                raise TypeError(f"flag column holds {set(type(x).__name__ for x in fl_raw.tolist())}")
        except Exception as exc:  # noqa
            V("column_type", f"{c}/{fcol}: {exc}", col=c)
            continue
        sup, has = r["sup"][kk], r["has"][kk]
        amb = np.array([int(s) in r["alt"] for s in kk], dtype=bool)
        present = ~np.isnan(ov)
        stats["cells"] += len(kk)
        stats["supplied_cells"] += int(has.sum())
        stats["dup_cells"] += len(r["loser"])
        stats["ambiguous_cells"] += int(amb.sum())
        # -- supplied values unchanged
        bad = has & (_bits(ov) != _bits(sup))
        for i in np.flatnonzero(bad)[:3]:
            s = int(kk[i])
            if np.isnan(ov[i]):
                cl, why = "value", "lost"
            elif s in r["loser"] and any(_bits([x])[0] == _bits([ov[i]])[0] for x in r["loser"][s]):
                cl, why = "first_wins", "later_row_won"
            else:
                cl, why = "value", "changed"
            V(cl, f"{c} at {_ts(E[s], zone)}: supplied {sup[i]!r}, data.df has {ov[i]!r}"
              + (f" (a later row with the same timestamp carries {r['loser'][s]})" if s in r["loser"] else "")
              + f" [{int(bad.sum())} such cell(s)]", col=c, reason=why)
        # -- no supplied value flagged
        bad = has & fl
        if bad.any():
            i = int(np.flatnonzero(bad)[0])
            V("flag", f"{fcol} is true at {_ts(E[int(kk[i])], zone)} although {sup[i]!r} was supplied there "
              f"[{int(bad.sum())} such cell(s)]", col=c, reason="supplied_flagged")
        # -- cells nobody supplied
        un = ~has & ~amb
        if r["empty"]:
            bad = un & (fl != present)
            if bad.any():
                i = int(np.flatnonzero(bad)[0])
                V("flag", f"{c} was empty in the input; at {_ts(E[int(kk[i])], zone)} value={ov[i]!r} flag={bool(fl[i])} "
                  f"[{int(bad.sum())} such cell(s)]", col=c, reason="empty_column_flag_differs_from_presence")
        else:
            bad = un & ~present
            if bad.any():
                i = int(np.flatnonzero(bad)[0])
                V("complete", f"{c} is still NaN at {_ts(E[int(kk[i])], zone)} although the column holds "
                  f"{int(r['has'].sum())} supplied values [{int(bad.sum())} such cell(s)]", col=c, reason="nan_remains")
                bad2 = bad & fl
                if bad2.any():
                    V("flag", f"{fcol} is true on a cell that is still NaN [{int(bad2.sum())} cell(s)]", col=c,
                      reason="flag_on_missing")
            bad = un & present & ~fl
            if bad.any():
                i = int(np.flatnonzero(bad)[0])
                V("flag", f"{c} at {_ts(E[int(kk[i])], zone)} was not supplied, data.df has {ov[i]!r} but {fcol} is false "
                  f"[{int(bad.sum())} such cell(s)]", col=c, reason="filled_not_flagged")
        # -- first row missing, a later row has a value: two readings
        for i in np.flatnonzero(amb):
            s = int(kk[i])
            as_second = (not fl[i]) and any(_bits([x])[0] == _bits([ov[i]])[0] for x in r["alt"][s])
            as_filled = present[i] and fl[i]
            if not (as_second or as_filled):
                V("first_wins", f"{c} at {_ts(E[s], zone)}: first row has no value, second row has {r['alt'][s]}; data.df has "
                  f"{ov[i]!r} flag={bool(fl[i])} (neither filled-and-flagged nor the second value unflagged)", col=c,
                  reason="first_row_missing")
        filled = int((~has & present).sum())
        stats["filled_cells"] += filled
        beh["filled"][c] = filled
        beh["left"][c] = int((~present).sum())
    return viol, beh, stats


# ----------------------------------------------------------------------------------------------------------------------
def dev_family(devs):
    fam = sorted({d[0] if d[0] not in ("dupA", "dupB") else "dup" for d in devs})
    return "+".join(fam) if fam else "none"


def case_key(case):
    b = case["base"]
    return {"zone_class": ZONES[b["zone"]][0], "frame": "3d" if b["ndays"] < 4 else ">=4d",
            "devs": dev_family(case.get("devs", [])), **({"row_order": b["order"]} if b.get("order") else {})}


def run_case(case):
    from opendsm.eemeter import HourlyBaselineData, HourlyReportingData

    base = case["base"]
    key0 = case_key(case)
    df, row_inst, row_vals = build_input(case)
    if len(df) == 0:
        return {"rejected": "no rows left"}
    electric = base["fuel"] == "electric"
    fp0 = _fp(df)
    cls = HourlyBaselineData if base["cls"] == "baseline" else HourlyReportingData
    viol = []
    try:
        data = cls(df, is_electricity_data=electric)
        out = data.df
        exc = None
    except Exception as e:  # noqa
        tb = traceback.extract_tb(e.__traceback__)
        where = next((f"{f.filename.split('/')[-1]}:{f.name}" for f in reversed(tb) if "opendsm" in f.filename), "?")
        exc = type(e).__name__
        viol.append({"clause": "raises", "key": dict(key0, exc=exc, where=where),
                     "detail": f"{cls.__name__}(...) raised {exc}: {str(e)[:300]} (in {where}); input rows "
                     f"{_ts(row_inst.min(), base['zone'])} .. {_ts(row_inst.max(), base['zone'])}"})
    fp1 = _fp(df)
    if fp1 != fp0:
        names = ("columns", "dtypes", "index dtype", "index values", "index name", "cell values")
        what = [n for n, a, b in zip(names, fp0, fp1) if a != b]
        if fp0[0] == fp1[0] and fp0[5] != fp1[5]:
            what[-1] = "cell values of " + ",".join(c for c, a, b in zip(fp0[0], fp0[5], fp1[5]) if a != b)
        viol.append({"clause": "input_modified", "key": {"cls": base["cls"]},
                     "detail": f"the caller's frame differs after {cls.__name__}(...): {'; '.join(what)}"})
    if exc is not None:
        return {"behaviour": {"exc": exc}, "violations": viol, "nontrivial": True}
    v, beh, stats = check_output(out, row_inst, row_vals, electric, base["zone"], key0)
    viol += v
    nontrivial = bool(stats.get("filled_cells") or stats.get("dup_cells") or stats.get("ambiguous_cells")
                      or any(r for r in beh.get("left", {}).values()))
    return {"behaviour": beh, "violations": viol, "stats": stats, "nontrivial": nontrivial}


# ----------------------------------------------------------------------------------------------------------------------
# enumeration
def mkbase(zone, trans, place, ndays, hours, fuel="electric", ghi=True, cls="baseline", unit="ns"):
    return {"zone": zone, "start": zone_start(zone, trans, place, ndays), "ndays": ndays, "h0": hours[0], "h1": hours[1],
            "fuel": fuel, "ghi": ghi, "cls": cls, "unit": unit}


def nslots(b):
    return len(slots(b["zone"], b["start"], b["ndays"], b["h0"], b["h1"]))


def zone_variants(zones, places=("first", "mid", "last")):
    out = []
    for z in zones:
        tr = ZONES[z][1]
        if not tr:
            out.append((z, None, None))
        for t in tr:
            for p in places:
                out.append((z, t, p))
    return out


def point_kinds(b):
    ks = [("nan", "temperature")]
    if b["cls"] != "reporting_noobs":
        ks += [("nan", "observed")]
    if b["ghi"]:
        ks += [("nan", "ghi")]
    ks += [("absent",), ("dupA",), ("dupB",)]
    if b["cls"] != "reporting_noobs":
        ks += [("zero",)]
    return ks


def run_kinds(b, lengths=RUNS):
    cols = [c for c in COLS3 if c in input_columns(b)]
    return [("run", c, L) for L in lengths for c in cols]


def empty_kinds(b):
    ks = [[("empty", "temperature")]]
    if b["cls"] != "reporting_noobs":
        ks.append([("empty", "observed")])
        if b["fuel"] == "electric":
            ks.append([("empty0",)])
        ks.append([("empty", "temperature"), ("empty", "observed")])
    if b["ghi"]:
        ks.append([("empty", "ghi")])
    return ks


def lattice(b, tier):
    """positions on the long frames: both ends, the neighbourhood of the DST change, and a 6-hour lattice (quick: the
    6-hour lattice on the first and last two days and the DST day, every 30th hour in between)"""
    inst = slots(b["zone"], b["start"], b["ndays"], b["h0"], b["h1"])
    n = len(inst)
    pos = {0, 1, n - 2, n - 1}
    dst = dst_slots(b["zone"], inst)
    pos.update(dst)
    for p in range(0, n, 6):
        if tier == "thorough" or p < 48 or p >= n - 48 or (dst and dst[0] - 12 <= p <= dst[-1] + 12):
            pos.add(p)
    if tier != "thorough":
        pos.update(range(0, n, 30))
    return sorted(pos)


def with_pos(kind, p):
    return list(kind) + [p]


def compatible(d1, d2):
    """drop pairs that are the same input as a smaller case or not meaningful"""
    if d1[-1] != d2[-1]:
        return True
    k1, k2 = d1[0], d2[0]
    if "absent" in (k1, k2):
        return False  # anything on a row that is absent
    if {k1, k2} == {"dupA", "dupB"}:
        return False
    if d1[:-1] == d2[:-1]:
        return False
    if {k1, k2} == {"nan", "zero"} and (d1[1] == "observed" or d2[1] == "observed"):
        return False
    return True


def _points(b, positions=None):
    qs = range(nslots(b)) if positions is None else positions
    return [{"base": b, "devs": [with_pos(kind, q)]} for kind in point_kinds(b) for q in qs]


def _runs(b, positions=None, lengths=RUNS):
    """a run is never clipped by the end of the frame; the run ending on the last row is always included"""
    n = nslots(b)
    out = []
    for kind in run_kinds(b, lengths):
        L = kind[2]
        if L > n:
            continue
        qs = range(n - L + 1) if positions is None else sorted({q for q in positions if q + L <= n} | {n - L})
        out += [{"base": b, "devs": [with_pos(kind, q)]} for q in qs]
    return out


def _pairs(b, pairs):
    """two point deviations at the given (q1 <= q2) position pairs, every compatible pair of kinds"""
    pk = point_kinds(b)
    out = []
    for q1, q2 in pairs:
        for i1, k1 in enumerate(pk):
            for i2, k2 in enumerate(pk):
                if q1 == q2 and i2 <= i1:
                    continue
                d1, d2 = with_pos(k1, q1), with_pos(k2, q2)
                if compatible(d1, d2):
                    out.append({"base": b, "devs": [d1, d2]})
    return out


HOURS = [(0, 23), (6, 17)]
MAIN = ["UTC", "America/Chicago", "Asia/Kolkata", "Australia/Sydney"]
CHI_F, CHI_B = ("America/Chicago", "fwd", "mid"), ("America/Chicago", "back", "mid")
SYD_F, SYD_B = ("Australia/Sydney", "fwd", "mid"), ("Australia/Sydney", "back", "mid")
KOL, UTC = ("Asia/Kolkata", None, None), ("UTC", None, None)
ALT_VARIANTS = [("gas", False, "baseline"), ("electric", True, "reporting"), ("electric", False, "reporting_noobs")]


def cases(tier):
    """-> list of (space name, [cases]); every list is in a deterministic simplest-first order"""
    thorough = tier == "thorough"
    spaces = []

    # A. well-formed frames (full product of the base dimensions) and whole-column-empty frames
    A = []
    lengths = [3, 4, 22, 43] + ([21, 42, 366, 730] if thorough else [730])
    for nd in lengths:
        for (z, t, p) in zone_variants(MAIN):
            for hrs in HOURS + [(23, 0)]:
                if nd >= 366 and not (hrs == (6, 17) and p in (None, "mid")):
                    continue
                for fuel in ("electric", "gas"):
                    for ghi in (True, False):
                        for cls in ("baseline", "reporting", "reporting_noobs"):
                            if cls == "reporting_noobs" and fuel == "gas":
                                continue
                            b = mkbase(z, t, p, nd, hrs, fuel, ghi, cls)
                            A.append({"base": b, "devs": []})
                            if (fuel == "electric" and ghi and cls == "baseline" and nd <= 43) and (nd <= 4 or thorough):
                                for unit in ("us", "s"):
                                    A.append({"base": dict(b, unit=unit), "devs": []})
                            if fuel == "electric" and ghi and nd <= 4:
                                A.append({"base": dict(b, entry="datetime_column"), "devs": []})
                            if (p in (None, "mid") or nd <= 4) and (fuel == "electric" or thorough):
                                for ek in empty_kinds(b):
                                    A.append({"base": b, "devs": [list(k) for k in ek]})
                            if p in (None, "mid") and hrs == (6, 17) and fuel == "electric" and ghi and cls == "baseline" and nd <= 43:
                                n = nslots(b)  # all but one value of a column missing
                                for c in COLS3:
                                    for q in (0, n // 2, n - 1):
                                        A.append({"base": b, "devs": [["only", c, q]]})
    spaces.append(("A well-formed, whole-column-empty and single-value-column frames, full base product", A))

    # B. one point deviation at every hour of the short frames
    B = []
    if thorough:
        for nd in (3, 4):
            for zv in zone_variants(MAIN):
                for hrs in HOURS:
                    B += _points(mkbase(*zv, nd, hrs))
                    if hrs == (6, 17) and zv[2] in (None, "mid"):
                        for fuel, ghi, cls in ALT_VARIANTS:
                            B += _points(mkbase(*zv, nd, hrs, fuel, ghi, cls))
    else:
        for zv in (CHI_F, CHI_B, KOL, UTC, SYD_F, SYD_B):
            for hrs in HOURS:
                B += _points(mkbase(*zv, 4, hrs))
        for zv in (CHI_F, KOL):
            for fuel, ghi, cls in ALT_VARIANTS:
                B += _points(mkbase(*zv, 4, (6, 17), fuel, ghi, cls))
        for zv in (CHI_F, CHI_B, KOL):
            B += _points(mkbase(*zv, 3, (6, 17)))
        for zv in zone_variants(["America/Chicago"], places=("first", "last")):  # the 23/25-hour day first / last
            B += _points(mkbase(*zv, 4, (6, 17)))
    for zv in (CHI_F, UTC):  # single-row first and last day
        B += _points(mkbase(*zv, 4, (23, 0)))
    # rows not in time order: the extra row of a duplicate arrives below / above the regular rows, or the frame is newest-first
    # ("first" is the first in the order supplied)
    for zv in (CHI_F, KOL) if not thorough else (CHI_F, CHI_B, KOL, UTC, SYD_F):
        for order in ("extras_last", "extras_first", "reversed"):
            b = dict(mkbase(*zv, 4, (6, 17)), order=order)
            B += [c for c in _points(b) if c["devs"][0][0] in ("dupA", "dupB") or (order == "reversed" and c["devs"][0][0] == "absent")]
    spaces.append(("B one point deviation at every hour, 3- and 4-day frames", B))

    # C. one NaN run at every hour of the short frames
    C = []
    if thorough:
        for nd in (3, 4):
            for zv in [CHI_F, CHI_B, KOL, UTC, SYD_F, SYD_B] + zone_variants(["America/Chicago"], places=("first", "last")):
                C += _runs(mkbase(*zv, nd, (6, 17)))
            for zv in (CHI_F, KOL):
                C += _runs(mkbase(*zv, nd, (0, 23)))
                C += _runs(mkbase(*zv, nd, (6, 17), "electric", False, "reporting_noobs"))
    else:
        for nd in (3, 4):
            for zv in (CHI_F, CHI_B, KOL):
                C += _runs(mkbase(*zv, nd, (6, 17)))
    spaces.append(("C one NaN run (2,6,23,24,25,48 h) at every hour, 3- and 4-day frames", C))

    # D. one deviation on a lattice of the long frames
    D = []
    if thorough:
        for nd in (22, 43):
            for zv, hrs in [(CHI_F, (6, 17)), (CHI_F, (0, 23)), (CHI_B, (6, 17)), (KOL, (6, 17)), (SYD_F, (6, 17))]:
                b = mkbase(*zv, nd, hrs)
                lat = lattice(b, tier)
                D += _points(b, lat)
                D += _runs(b, [q for q in lat if q % 12 == 0 or q in lat[:2] or q in dst_slots(b["zone"], slots(zv[0], b["start"], nd, *hrs))])
        for nd in (21, 42):
            b = mkbase(*CHI_F, nd, (6, 17))
            D += _points(b, lattice(b, "quick"))
        b = mkbase(*CHI_F, 730, (6, 17))
        n = nslots(b)
        lat = sorted({0, 1, n - 2, n - 1} | set(dst_slots(b["zone"], slots(b["zone"], b["start"], 730, 6, 17))) | set(range(0, n, 24 * 7 + 6)))
        D += _points(b, lat) + _runs(b, lat, (6, 48))
    else:
        for nd in (22, 43):
            b = mkbase(*CHI_F, nd, (6, 17))
            lat = lattice(b, tier)
            D += _points(b, lat)
            D += _runs(b, [q for q in lat if q % 30 == 0 or q < 2 or q in dst_slots(b["zone"], slots(b["zone"], b["start"], nd, 6, 17))])
            b = mkbase(*KOL, nd, (6, 17))
            D += _points(b, [q for q in lattice(b, tier) if q % 30 == 0 or q < 2 or q >= nslots(b) - 2])
    # outages of 5, 8 and 25 days in one column (beyond the reach of the primary fill) at the very start, in the middle and at the
    # very end of the long frames: nothing may remain missing wherever the outage lies
    for zv in ((CHI_F, KOL) if not thorough else (CHI_F, CHI_B, KOL, SYD_F)):
        for nd, lengths in ((22, (120, 192)), (43, (120, 192, 600))):
            b = mkbase(*zv, nd, (6, 17))
            D += _runs(b, [0, nslots(b) // 2], lengths)
    spaces.append(("D one deviation on the lattice of the long frames", D))

    # E. two point deviations on the 4-day frame
    E = []
    b = mkbase(*CHI_F, 4, (6, 17))
    n = nslots(b)
    if thorough:
        pairs = [(q1, q2) for q1 in range(n) for q2 in range(q1, n) if q2 - q1 <= 26 or (q1 % 6 == 0 and q2 % 6 == 0)]
    else:
        pairs = [(q1, q1 + o) for q1 in range(n) for o in (0, 1, 2, 24) if q1 + o < n and (o <= 1 or q1 % 6 == 0)]
    E += _pairs(b, pairs)
    # both deviations among the first three / last three rows (they move the frame's first and last supplied hour)
    for zv, hrss in [(KOL, [(6, 17)]), (CHI_B, [(0, 23), (23, 0)])] + ([(CHI_F, [(23, 0)]), (KOL, [(0, 23)])] if thorough else []):
        for hrs in hrss:
            b = mkbase(*zv, 4, hrs)
            n = nslots(b)
            ends = sorted({0, 1, 2, n - 3, n - 2, n - 1})
            E += _pairs(b, [(ends[a], ends[c]) for a in range(len(ends)) for c in range(a, len(ends))])
    # one whole-column-empty column together with one point deviation on the 6-hour lattice
    for zv in [CHI_F] + ([KOL, CHI_B] if thorough else []):
        b = mkbase(*zv, 4, (6, 17))
        n = nslots(b)
        for ek in empty_kinds(b):
            for kind in point_kinds(b):
                for q in sorted(set(range(0, n, 6)) | {1, n - 1}):
                    E.append({"base": b, "devs": [list(k) for k in ek] + [with_pos(kind, q)]})
    spaces.append(("E two deviations on the 4-day frame", E))

    # F. (thorough) three point deviations inside a 3-hour window at every hour of the shortest frame
    if thorough:
        F = []
        b = mkbase(*CHI_F, 3, (6, 17))
        n = nslots(b)
        pk = [k for k in point_kinds(b) if k != ("nan", "ghi")]
        for q in range(n):
            for o2 in (0, 1, 2):
                for o3 in range(o2, 3):
                    if q + o3 >= n:
                        continue
                    for i1, k1 in enumerate(pk):
                        for i2, k2 in enumerate(pk):
                            for i3, k3 in enumerate(pk):
                                ds = [with_pos(k1, q), with_pos(k2, q + o2), with_pos(k3, q + o3)]
                                if (o2 == 0 and i2 <= i1) or (o3 == o2 and i3 <= i2):
                                    continue
                                if all(compatible(ds[i], ds[j]) for i in range(3) for j in range(i + 1, 3)):
                                    F.append({"base": b, "devs": ds})
        spaces.append(("F three point deviations in a 3-hour window at every hour, 3-day frame", F))

    # G. zones whose DST change is at local midnight (keyed zone_class=dst_at_midnight)
    G = []
    for nd in (3, 4, 22):
        for zv in zone_variants(["America/Havana", "America/Santiago"]):
            for hrs in HOURS:
                for cls in ("baseline", "reporting_noobs"):
                    b = mkbase(*zv, nd, hrs, "electric", True, cls)
                    G.append({"base": b, "devs": []})
                    if nd == 4 and cls == "baseline":
                        n = nslots(b)
                        near = set(dst_slots(zv[0], slots(zv[0], b["start"], nd, *hrs))) | {0, 1, n - 2, n - 1}
                        G += _points(b, None if thorough else sorted(near | (set(range(0, n, 6)) if hrs == (6, 17) else set())))
    spaces.append(("G zones with DST at local midnight", G))
    return spaces


def run(tier, seed):
    import time

    sp = cases(tier)
    exs = []
    deadline = time.time() + (8 * 60 if tier == "quick" else 45 * 60)  # wall-clock cap; a capped run is not exhaustive
    with poolmod.Pool() as pool:
        for name, cs in sp:
            exs.append(explore.explore(pool, name, MOD, "run_case", cs, seed=seed, deadline=deadline))
    cov = explore.merge_coverage(
        exs,
        rule="one case = one construction of HourlyBaselineData / HourlyReportingData on (base frame, list of deviations); a "
        "behaviour is (rows added, cells filled per column, NaN left per column | exception); a case is non-trivial when at "
        "least one cell had to be filled, a duplicate had to be resolved or a column was empty",
    )
    stats = {}
    for e in exs:
        for k, v in e.stats.items():
            stats[k] = stats.get(k, 0) + v
    cov["cells_compared"] = stats
    viols = [v for e in exs for v in e.violations]
    return {"level": LEVEL, "coverage": cov, "violations": viols, "assumptions": ASSUMPTIONS}


def replay(rep):
    vs = []
    for k in range(2):
        r = run_case(rep["case"])
        vs = [v for v in r.get("violations", []) if v["clause"] == rep["clause"]]
        print(f"run {k}: behaviour={r.get('behaviour')} violations={len(r.get('violations', []))}, {len(vs)} of clause {rep['clause']}")
        for v in vs[:4]:
            print("  ", v["key"], v["detail"])
    return 1 if vs else 0
