"""C04 — the disqualification gate is fail-closed and survives storage.

TLA+ model spec/tla/Gate.tla checked by TLC (invariants FailClosed, FitGate, StorePreserves, UnfittedNeverPredicts);
its COMPLETE labelled state graph is dumped and EVERY edge is replayed against the real classes of each model family
with each concrete instance of the abstract baseline kinds: the abstraction of the real object after the call must
equal the edge's target state and the observed outcome class must be the one the model records.
"""
import copy
import os

import numpy as np
import pandas as pd

from .. import datasets as ds, env, explore, pool as poolmod, tlcbridge

PROP = "C04"
LEVEL = "model_checking"
MOD = "mc.checks.c04"
ZONE = "America/Chicago"
OTHER_ZONE = "America/New_York"
SAME_OFFSET_ZONE = "America/Regina"  # UTC-6 all year: same offset as America/Chicago throughout the Feb-Mar reporting data
SPEC_DIR = os.path.join(env.VERIF_DIR, "spec", "tla")

ASSUMPTIONS = [
    "well-formed baseline data = tz-aware index, required columns, non-constant noisy usage; each abstract kind of the model "
    "(ok / dq / poor / dq_poor) is instantiated by several concrete datasets and settings (listed in coverage.concrete_kinds)",
    "abstraction: fitted = model.is_fitted; a disqualification whose qualified_name starts with 'eemeter.model_fit_metrics' is the "
    "poor-fit one, every other is inherited from the baseline; stored = the object came out of from_json(to_json())",
    "when predict has several reasons to refuse at once (unfitted, foreign type, other timezone, disqualified) the statement only "
    "demands that it raises: the model's outcome is then 'SomeException'",
    "'a timezone different from the baseline's' is exercised with America/New_York (different offset) and America/Regina (a different "
    "zone that shares Chicago's UTC offset throughout the own_reporting data, 2022-02-01..03-12) vs America/Chicago; another NAME for the same rules "
    "(US/Central) is not enumerated because the statement does not say whether it is different",
    "the CalTRACK hourly wrapper has no sufficiency gate and is not one of the three gated families",
]

FAMILIES = ["daily", "billing", "hourly"]


# ------------------------------------------------------------------ concrete instances of the abstract kinds
def _daily(days=365, start="2021-01-01", seed=0, **kw):
    return ds.daily_frame(start=start, days=days, tz=ZONE, wseed=seed, seed=seed, noise=kw.pop("noise", 0.05), **kw)


def _hourly(days=365, start="2021-01-01", seed=0, **kw):
    return ds.hourly_frame(start=start, days=days, tz=ZONE, wseed=seed, seed=seed, **kw)


def _poor_daily(fr):
    rng = np.random.default_rng(77)
    fr = fr.copy()
    fr["observed"] = 20.0 * rng.lognormal(0.0, 1.6, len(fr))
    return fr


def _poor_hourly(fr):
    rng = np.random.default_rng(78)
    fr = fr.copy()
    y = np.full(len(fr), 0.05) + 0.0005 * rng.random(len(fr))
    y[rng.choice(len(fr), len(fr) // 100, replace=False)] = 60.0
    fr["observed"] = y
    return fr


def concrete(family, kind):
    """list of (variant name, frame builder, is_electricity, model settings or None)"""
    H = family == "hourly"
    base = _hourly if H else _daily
    poor = _poor_hourly if H else _poor_daily
    thr = ({"seed": 7, "cvrmse_threshold": 1e-6, "pnrmse_threshold": 1e-6} if H
           else {"developer_mode": True, "silent_developer_mode": True, "cvrmse_threshold": 1e-6})
    std = {"seed": 7} if H else None

    def gaps(fr):
        fr = fr.copy()
        n = 50 * (24 if H else 1)
        a = 100 * (24 if H else 1)
        fr.iloc[a:a + n, fr.columns.get_loc("observed")] = np.nan
        return fr

    def month_temp(fr):
        fr = fr.copy()
        sel = (fr.index.month == 6) & (fr.index.day <= 8)
        fr.loc[sel, "temperature"] = np.nan
        return fr

    def negative(fr):
        fr = fr.copy()
        fr.iloc[40, fr.columns.get_loc("observed")] = -5.0
        return fr

    def no_sundays(fr):
        fr = fr.copy()
        fr.loc[fr.index.dayofweek == 6, "observed"] = np.nan
        return fr

    if family == "billing":
        def poor_b(fr):
            # month-level weather-independent noise (day-level noise averages out of a bill)
            rng = np.random.default_rng(79)
            fr = fr.copy()
            f = rng.lognormal(0.0, 2.4, 14)
            fr["observed"] = 20.0 * f[(fr.index.year - fr.index.year[0]) * 12 + fr.index.month - 1]
            return fr

        def neg_month(fr):
            fr = fr.copy()
            fr.loc[fr.index.month == 3, "observed"] = -4.0
            return fr

        def offcycle(fr):
            fr = fr.copy()
            fr.attrs["period_days"] = [31, 28, 31, 10, 20, 31, 30, 31, 31, 30, 31, 30, 31]
            return fr

        poor = poor_b
        gaps = offcycle
        negative = neg_month
    ok = [("ok", lambda: base(), True, std)]
    if H:
        # the largest seed the settings accept (the clustering derives further seeds from it)
        ok.append(("largest_accepted_seed", lambda: base(), True, dict(std or {}, seed=2**32 - 1)))
    if not H:
        # well-formed baselines whose temperature column is not float64: whole degrees stored as integers, float32
        def as_dtype(fr, dt):
            fr = fr.copy()
            fr["temperature"] = fr["temperature"].round().astype(dt)
            return fr
        ok += [("whole_degree_int64_temperature", lambda: as_dtype(base(), "int64"), True, std),
               ("float32_temperature", lambda: as_dtype(base(), "float32"), True, std)]
    dq = [("too_short_300d", lambda: base(days=300), True, std),
          ("too_long_400d", lambda: base(days=400), True, std),
          ("offcycle_10d_read" if family == "billing" else "usage_gaps_50d", lambda: gaps(base()), True, std),
          ("june_temperature_8d_missing", lambda: month_temp(base()), True, std),
          ("negative_gas_reading", lambda: negative(base()), False, std),
          # baselines that lack a whole season / a whole day of the week / almost everything: with the override the fit must still
          # come back (the split candidates have to cope with empty calendar cells)
          ("four_months_no_summer", lambda: base(days=120), True, std),
          ("two_months_60d", lambda: base(days=60), True, std)]
    if family != "billing":
        dq.append(("no_sunday_readings", lambda: no_sundays(base()), True, std))
    if H:
        # a baseline WITH an irradiance column whose only defect is its irradiance coverage (eight June days without GHI): the default
        # model picks its features from the columns, so this disqualification is one it must honour
        def ghi_gap(fr):
            fr = fr.copy()
            fr.loc[(fr.index.month == 6) & (fr.index.day <= 8), "ghi"] = np.nan
            return fr
        dq.append(("june_ghi_8d_missing", lambda: ghi_gap(_hourly(solar=True)), True, std))
    po = [("weather_independent_noise", lambda: poor(base()), True, std),
          ("threshold_1e-6", lambda: base(), True, thr)]
    if H:
        # the alternative fit path of the hourly model (adaptive daily weights), poor fit by threshold
        po.append(("adaptive_weights_threshold_1e-6", lambda: base(), True,
                   dict(thr, elasticnet={"adaptive_weights": True, "adaptive_weight_max_iter": 3, "adaptive_weight_tol": 1e-4})))
    dp = [("too_short_and_threshold", lambda: base(days=300), True, thr),
          ("gaps_and_noise", lambda: gaps(poor(base())), True, std)]
    return {"ok": ok, "dq": dq, "poor": po, "dq_poor": dp}[kind]


def make_baseline(family, frame, elec):
    import opendsm.eemeter as em

    if family == "daily":
        return em.DailyBaselineData(frame, is_electricity_data=elec)
    if family == "billing":
        reads = ds.billing_reads(frame["observed"], period_days=frame.attrs.get("period_days"))
        return em.BillingBaselineData.from_series(reads, frame["temperature"], is_electricity_data=elec)
    return em.HourlyBaselineData(frame, is_electricity_data=elec)


def new_model(family, settings):
    import opendsm.eemeter as em

    cls = {"daily": em.DailyModel, "billing": em.BillingModel, "hourly": em.HourlyModel}[family]
    return cls(settings=settings) if settings else cls()


def predict_input(family, dtype, tz, solar=False):
    import opendsm.eemeter as em

    zone = {"same": ZONE, "other": OTHER_ZONE, "other_same_offset": SAME_OFFSET_ZONE}[tz]
    if dtype == "frame":
        return ds.daily_frame(start="2022-02-01", days=40, tz=zone, wseed=3, seed=3)
    if dtype in ("foreign", "foreign2"):
        # the reporting data classes of the two OTHER families (daily <-> billing is the pair where prediction could mechanically work)
        others = {"daily": ["billing", "hourly"], "billing": ["daily", "hourly"], "hourly": ["daily", "billing"]}[family]
        other = others[0 if dtype == "foreign" else 1]
        if other == "hourly":
            return em.HourlyReportingData(ds.hourly_frame(start="2022-02-01", days=40, tz=zone, wseed=3, seed=3), is_electricity_data=True)
        fr = ds.daily_frame(start="2022-02-01", days=95, tz=zone, wseed=3, seed=3)
        if other == "daily":
            return em.DailyReportingData(fr, is_electricity_data=True)
        return em.BillingReportingData.from_series(ds.billing_reads(fr["observed"]), fr["temperature"], is_electricity_data=True)
    if family == "hourly":
        fr = ds.hourly_frame(start="2022-02-01", days=40 if dtype == "own_reporting" else 365, tz=zone, wseed=3, seed=3, solar=solar)
        return (em.HourlyReportingData if dtype == "own_reporting" else em.HourlyBaselineData)(fr, is_electricity_data=True)
    fr = ds.daily_frame(start="2022-02-01", days=95 if dtype == "own_reporting" else 365, tz=zone, wseed=3, seed=3)
    if family == "daily":
        return (em.DailyReportingData if dtype == "own_reporting" else em.DailyBaselineData)(fr, is_electricity_data=True)
    cls = em.BillingReportingData if dtype == "own_reporting" else em.BillingBaselineData
    return cls.from_series(ds.billing_reads(fr["observed"]), fr["temperature"], is_electricity_data=True)


# ------------------------------------------------------------------ abstraction and replay
def alpha(model, stored):
    dq = getattr(model, "disqualification", None) or []
    kinds = set()
    for w in dq:
        kinds.add("poorfit" if str(w.qualified_name).startswith("eemeter.model_fit_metrics") else "base")
    return {"fitted": bool(getattr(model, "is_fitted", False)), "mdq": frozenset(kinds), "stored": bool(stored)}


def poor_by_statistics(family, m):
    """(True | False | None if within 5 % of a threshold, text): is the fit a poor fit by the model's own published statistics and
    its own thresholds - independent of what the model put into its disqualification list"""
    s = m.settings
    if family == "hourly":
        bm = m.baseline_metrics
        pairs = [(bm.cvrmse_adj, s.cvrmse_threshold), (bm.pnrmse_adj, s.pnrmse_threshold)]
        text = f"cvrmse_adj={bm.cvrmse_adj!r} (threshold {s.cvrmse_threshold}), pnrmse_adj={bm.pnrmse_adj!r} (threshold {s.pnrmse_threshold})"
        if any(v is not None and abs(v - t) <= 0.05 * t for v, t in pairs):
            return None, text
        return not any(v is not None and v < t for v, t in pairs), text
    v, t = float(m.error["CVRMSE"]), float(s.cvrmse_threshold)
    text = f"CVRMSE={v!r} (threshold {t})"
    if abs(v - t) <= 0.05 * t:
        return None, text
    return v > t, text


def core(val):
    return (val["fitted"], val["kind"], val["mdq"], val["stored"])


_GRAPH = {}


def graph():
    if "g" not in _GRAPH:
        _GRAPH["g"] = tlcbridge.run_tlc(SPEC_DIR, "Gate")
    return _GRAPH["g"]


def run_case(case):
    """replay, for one (family, abstract kind, concrete variant), every TLC edge assigned to that kind"""
    from opendsm.eemeter.common.exceptions import DataSufficiencyError, DisqualifiedModelError

    family, kind, vname = case["family"], case["kind"], case["variant"]
    g = case["graph"]
    states, edges = g["states"], g["edges"]
    key0 = {"family": family}
    viol = []
    _, builder, elec, settings = next(c for c in concrete(family, kind) if c[0] == vname) if kind != "unfitted" else (None, None, None, None)
    data_obj = None
    frame_err = None
    if kind != "unfitted":
        try:
            data_obj = make_baseline(family, builder(), elec)
        except Exception as exc:
            frame_err = exc
            viol.append({"clause": "baseline_data_class_raised", "key": dict(key0, variant=vname, exc=type(exc).__name__),
                         "detail": f"{family}/{vname}: {type(exc).__name__}: {str(exc)[:200]}"})
            return {"behaviour": [family, kind, vname, "data_raises"], "violations": viol}
        has_dq = bool(data_obj.disqualification)
        if has_dq != (kind in ("dq", "dq_poor")):
            # the concrete dataset does not realise its abstract kind: a harness/driver problem or a C10 defect, not a C04 verdict
            return {"rejected": f"{family}/{vname}: data object has disqualification={[w.qualified_name for w in data_obj.disqualification]} "
                                f"but was meant to realise kind {kind}"}
    if kind != "unfitted":
        try:
            probe = new_model(family, settings)
            probe.fit(data_obj, ignore_disqualification=True)
            gate_poor = "poorfit" in alpha(probe, False)["mdq"]
            realised_poor, stat = poor_by_statistics(family, probe)
        except Exception as exc:
            viol.append({"clause": "fit_outcome", "key": dict(key0, act="Fit", want="model", got="Other", variant=vname),
                         "detail": f"{family}/{vname}: fit(ignore_disqualification=True) raised {type(exc).__name__}: {str(exc)[:200]}"})
            return {"behaviour": [family, kind, vname, "fit_raises"], "violations": viol}
        if realised_poor is None or realised_poor != (kind in ("poor", "dq_poor")):
            return {"rejected": f"{family}/{vname}: fit {'is' if realised_poor else 'is not (clearly)'} a poor fit ({stat}) but was meant to realise kind {kind}"}
        if gate_poor != realised_poor:
            # the model's own published statistics against its own thresholds say one thing, its disqualification list the other
            viol.append({"clause": "poor_fit_not_disqualified" if realised_poor else "disqualified_without_missing_threshold",
                         "key": dict(key0, variant=vname),
                         "detail": f"{family}/{vname}: {stat}; model.disqualification = {[w.qualified_name for w in probe.disqualification]}"})
            return {"behaviour": [family, kind, vname, "gate_disagrees_with_statistics"], "violations": viol}
    pin_cache = {}

    def pin(dtype, tz):
        if (dtype, tz) not in pin_cache:
            pin_cache[(dtype, tz)] = predict_input(family, dtype, tz, solar="ghi" in vname)
        return pin_cache[(dtype, tz)]

    live = {}   # core state -> real object

    def real_for(c):
        fitted, k, mdq, stored = c
        if c in live:
            return live[c]
        if not fitted:
            obj = new_model(family, settings)
        else:
            m = new_model(family, settings)
            m.fit(data_obj, ignore_disqualification=True)
            obj = type(m).from_json(m.to_json()) if stored else m
        live[c] = obj
        return obj

    exec_cache = {}
    n_edges = n_exec = 0
    outcomes = set()
    # Refit(k, ign): the object keeps its own settings, so which abstract kind a second dataset realises is decided UNDER THOSE SETTINGS
    # (probe fit of a fresh object, statistics against thresholds); datasets: the first data-only realisation of every kind
    refit_data = {}   # realised kind -> data object
    refit_skipped = 0
    if kind != "unfitted" and case.get("refit", True):
        for k2, vn2 in (("ok", "ok"), ("dq", "too_short_300d"), ("poor", "weather_independent_noise"), ("dq_poor", "gaps_and_noise")):
            try:
                _, b2, e2, _ = next(c for c in concrete(family, k2) if c[0] == vn2)
                fr2 = b2()
                if "ghi" in vname and "ghi" not in fr2.columns:
                    # a model fitted (and stored) with an irradiance feature is refitted on data that carry the column: refusing a
                    # baseline without it is that model's documented behaviour, not a gate decision
                    fr2 = fr2.copy()
                    fr2["ghi"] = ds.hourly_ghi(fr2.index, 0)
                d2 = make_baseline(family, fr2, e2)
                pr = new_model(family, settings)
                pr.fit(d2, ignore_disqualification=True)
                poor2, _ = poor_by_statistics(family, pr)
            except Exception:  # a dataset that cannot be prepared under these settings is simply not offered
                continue
            if poor2 is None:
                continue
            rk = {(False, False): "ok", (True, False): "dq", (False, True): "poor", (True, True): "dq_poor"}[(bool(d2.disqualification), poor2)]
            refit_data.setdefault(rk, d2)
    for (src, dst, act, params) in edges:
        sv, dv = states[src], states[dst]
        csrc = core(sv)
        # assignment of the edge to a task
        if sv["fitted"]:
            if sv["kind"] != kind:
                continue
        else:
            if act == "Fit":
                if params[0] != kind:
                    continue
            elif kind != "unfitted":
                continue
        if act == "Refit" and params[0] not in refit_data:
            refit_skipped += 1   # no dataset realises that kind under this variant's settings (replayed with the other variants)
            continue
        n_edges += 1
        ek = (csrc, act, tuple(params))
        if ek not in exec_cache:
            n_exec += 1
            fit_data = None
            if act == "Predict" and params[0] == "fit_data":
                # the model together with the data object it was fitted on, copied as ONE graph so that an identity link between
                # them (a cached reference) survives the snapshot; an unfitted model is handed the data it would be fitted on
                if csrc[0]:
                    obj, fit_data = copy.deepcopy((real_for(csrc), data_obj))
                else:
                    obj, fit_data = new_model(family, settings), (data_obj if data_obj is not None else pin("own_baseline", "same"))
            else:
                obj = copy.deepcopy(real_for(csrc)) if csrc[0] else new_model(family, settings)
            stored_after = csrc[3]
            exc = None
            out = None
            try:
                if act == "Fit":
                    res = obj.fit(data_obj, ignore_disqualification=params[1])
                    out = "model" if (res is obj and getattr(obj, "is_fitted", False)) else "not_a_fitted_model"
                elif act == "Refit":
                    res = obj.fit(refit_data[params[0]], ignore_disqualification=params[1])
                    out = "model" if (res is obj and getattr(obj, "is_fitted", False)) else "not_a_fitted_model"
                    stored_after = False
                elif act == "Predict":
                    res = obj.predict(fit_data if fit_data is not None else pin(params[0], params[1]), ignore_disqualification=params[2])
                    out = "frame" if isinstance(res, pd.DataFrame) and "predicted" in res.columns else "not_a_frame"
                elif act == "Store":
                    obj = type(obj).from_json(obj.to_json())
                    stored_after = True
                    out = "model"
            except DataSufficiencyError as e:
                exc, out = e, "DataSufficiencyError"
                stored_after = csrc[3]
            except DisqualifiedModelError as e:
                exc, out = e, "DisqualifiedModelError"
            except Exception as e:  # noqa
                exc, out = e, "Other:" + type(e).__name__
            exec_cache[ek] = (out, alpha(obj, stored_after), repr(exc)[:200] if exc else None)
        out, a, exc_repr = exec_cache[ek]
        outcomes.add(out)
        want = dv["last"]["out"]
        label = f"{act}({', '.join(map(str, params))})"
        ok_out = (out == want) or (want == "SomeException" and out in ("DataSufficiencyError", "DisqualifiedModelError") or
                                   (want == "SomeException" and out.startswith("Other:")))
        ekey = dict(key0, act=act, want=want, got=out.split(":")[0])
        if not ok_out:
            clause = {"Fit": "fit_outcome", "Refit": "refit_outcome", "Predict": "predict_outcome", "Store": "store_outcome"}[act]
            viol.append({"clause": clause, "key": ekey,
                         "detail": f"{family}/{vname}: from state fitted={csrc[0]} mdq={sorted(csrc[2])} stored={csrc[3]} the call {label} gave "
                                   f"{out} ({exc_repr}); the model allows {want}"})
        want_a = {"fitted": dv["fitted"], "mdq": dv["mdq"], "stored": dv["stored"]}
        if a != want_a and not (act in ("Fit", "Refit") and out != "model" and want != "model"):
            viol.append({"clause": "state_after_call", "key": dict(key0, act=act),
                         "detail": f"{family}/{vname}: after {label} from fitted={csrc[0]} mdq={sorted(csrc[2])} stored={csrc[3]}: real object "
                                   f"abstracts to fitted={a['fitted']} mdq={sorted(a['mdq'])} stored={a['stored']}, model state is "
                                   f"fitted={want_a['fitted']} mdq={sorted(want_a['mdq'])} stored={want_a['stored']}"})
    return {"behaviour": [family, kind, vname, sorted(outcomes)], "violations": viol,
            "stats": {"edges_replayed": n_edges, "real_executions": n_exec, "refit_edges_without_dataset_under_these_settings": refit_skipped}}


def run(tier, seed):
    g = graph()
    lite = {"states": g["states"], "edges": g["edges"]}
    cs = []
    fams = FAMILIES
    for f in fams:
        cs.append({"family": f, "kind": "unfitted", "variant": "-", "graph": lite})
        for kind in ("ok", "dq", "poor", "dq_poor"):
            for c in concrete(f, kind):
                if tier == "quick" and kind in ("dq",) and c[0] in ("too_long_400d", "june_temperature_8d_missing") and f != "daily":
                    continue
                # quick: refit edges with the first realisation of every kind and with the settings-made poor fits
                cs.append({"family": f, "kind": kind, "variant": c[0], "graph": lite,
                           "refit": tier == "thorough" or c[0] == concrete(f, kind)[0][0] or "threshold" in c[0]})
    with poolmod.Pool(workers=min(len(cs), poolmod.n_workers())) as pool:
        ex = explore.explore(pool, "replay of the complete TLC graph", MOD, "run_case", cs, seed=seed, chunk=1)
    # every TLC edge must have been replayed at least once per family
    for s in ex.samples:
        s["case"] = {k: v for k, v in s["case"].items() if k != "graph"}
    for v in ex.violations:
        v["case"] = {k: x for k, x in v["case"].items() if k != "graph"}
    per_family = {}
    cov = explore.merge_coverage(
        [ex],
        rule="one case = (family, abstract baseline kind, concrete dataset/settings realising it): every edge of the TLC state graph whose "
        "source state involves that kind is executed on the real classes (deep copy of the real object standing for the source state); "
        "behaviour = set of observed outcome classes",
        level_extra={
            "states": len(g["states"]), "transitions": len(g["edges"]),
            "traces_validated_against_impl": ex.stats.get("edges_replayed", 0),
            "real_executions": ex.stats.get("real_executions", 0),
            "tlc": g["tlc"], "tlc_invariants": ["FailClosed", "FitGate", "StorePreserves", "UnfittedNeverPredicts"],
            "concrete_kinds": {f: {k: [c[0] for c in concrete(f, k)] for k in ("ok", "dq", "poor", "dq_poor")} for f in fams},
            "explanation": "states/transitions are those of TLC's complete graph of Gate.tla (dumped with -dump dot,actionlabels); "
                           "traces_validated_against_impl counts edge replays summed over families and concrete kinds; edges that differ only in "
                           "the history variable `last` of their source share one real execution (real_executions)",
        },
    )
    return {"level": LEVEL, "coverage": cov, "violations": ex.violations, "assumptions": ASSUMPTIONS}


def replay(rep):
    case = dict(rep["case"], graph={"states": graph()["states"], "edges": graph()["edges"]})
    vs = []
    for k in range(2):
        r = run_case(case)
        vs = [v for v in r.get("violations", []) if v["clause"] == rep["clause"]]
        print(f"run {k}: behaviour={r.get('behaviour')} violations={sorted(set(v['clause'] for v in r.get('violations', [])))}")
        for v in vs[:3]:
            print("  ", v["detail"][:600])
    return 1 if vs else 0
