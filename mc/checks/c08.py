"""C08 — usage is conserved when meter data is resampled to days.

Deviation-bounded exhaustive enumeration, exact-arithmetic oracle
(`refmodels.intervals`: Fractions over integer minutes, zoneinfo calendar).

Spaces
  billing   base read calendars x (<= d periods replaced by each off-nominal length at every
            position) x zone x entry point x temperature feed (daily, hourly; half-hourly at d = 0)
  phase     no deviation; 30-day cycle whose first read is shifted by every 0..29 days, and 30-/61-day
            cycles whose first or closing read falls on each day of [DST date - 3, DST date + 3]
  subdaily  15/30/60-minute readings over 5 local days (DST day in the middle) and daily readings
            over 12 local days (Monday .. Friday of the next week, DST Sunday in the middle)
            x (<= d runs of missing readings of each length at every start on a 1-hour lattice)
            x {NaN, absent rows} x entry point
"""
import datetime as dt
import functools
import itertools
from fractions import Fraction

import numpy as np
import pandas as pd

from .. import explore, pool as poolmod
from ..refmodels import intervals as iv

PROP = "C08"
LEVEL = "exploration"
MOD = "mc.checks.c08"
REL = 1e-9

ASSUMPTIONS = [
    "billing regime is fixed by the base calendar (calendar months, 30-day, 29/32 alternation = monthly; 61-day = "
    "bi-monthly); with <= 2 of 12-13 periods replaced the median period stays inside the regime, so every reasonable "
    "regime detection agrees",
    "period length = number of local calendar days between two reads (reads are aligned to local midnight): a period of "
    "exactly 25 / 35 / 70 calendar days that contains a DST change is 1 hour shorter/longer than that many 24-hour days and "
    "is still a valid 25 / 35 / 70-day period (the library's own comment in clean_billing_data says the same); the oracle is "
    "strict everywhere",
    "entry conventions as documented: from_series - the final NaN read closes the last period; frame_lastday - rows "
    "up to and including the last day of the last period, final row NaN (code comment in from_series: 'dataframe input "
    "assumes final row is part of period'); frame_extra - an extra non-NaN row at the closing read date (class "
    "docstring of BillingBaselineData): its value is a marker and must not appear as usage",
    "constant-rate clause: inside a conserved period every day must carry either its minute-proportional share "
    "(a 23-hour day gets 23/24 of a normal day) or the equal per-day share; both are 'a constant rate'",
    "sub-daily: a NaN reading leaves its nominal interval uncovered (strict).  For *absent rows* the statement does not "
    "say whether the preceding reading still lasts one nominal interval or lasts until the next row, so a case passes "
    "if the whole output matches either reading exactly",
    "sub-daily day grid: output rows must be whole local days apart at one wall-clock time; that time must be local "
    "midnight when the first present reading is at local midnight, otherwise local midnight or the wall time of the "
    "first present reading are both accepted (the oracle then uses the partition the output shows)",
    "the final day = the day containing the last present reading; it is excluded (any value accepted); days before "
    "the first present reading or after the final day must be NaN or absent",
    "values are positive (the electricity rule 'zero means missing' is not part of this property); "
    "comparisons at 1e-9 relative",
    "Reporting classes inherit the resampling code unchanged from the same private base classes as the Baseline "
    "classes; they are enumerated on a thinner d <= 1 slice and violation keys do not carry Baseline/Reporting (the "
    "class is named in the detail)",
]

# ------------------------------------------------------------------------------------ helpers

ZONES_QUICK = ["UTC", "America/Chicago"]
ZONES_ALL = ["UTC", "America/Chicago", "Europe/London", "Australia/Sydney", "Asia/Kolkata"]
DEV_LENGTHS = [1, 10, 24, 25, 35, 36, 45, 70, 71, 90]
THRESHOLD_LENGTHS = [1, 24, 25, 35, 36, 70, 71]


@functools.lru_cache(maxsize=None)
def dst_dates(zone, year=2021):
    """[(date, minutes_in_day)] of local days in `year` that are not 1440 minutes long."""
    out = []
    d = dt.date(year, 1, 1)
    while d.year == year:
        a, b = iv.day_bounds(d, zone)
        if b - a != 1440:
            out.append((d, b - a))
        d = iv.add_days(d, 1)
    return out


def to_index(mins, zone):
    arr = np.asarray(mins, dtype="int64") * 60 * 10**9
    return pd.DatetimeIndex(arr.astype("datetime64[ns]")).tz_localize("UTC").tz_convert(zone)


def index_minutes(index):
    ns = index.tz_convert("UTC").as_unit("ns").asi8
    return [int(x) // (60 * 10**9) if x % (60 * 10**9) == 0 else Fraction(int(x), 60 * 10**9) for x in ns]


def get_class(space, cls):
    from opendsm.eemeter import BillingBaselineData, BillingReportingData, DailyBaselineData, DailyReportingData

    return {("billing", "baseline"): BillingBaselineData, ("billing", "reporting"): BillingReportingData,
            ("daily", "baseline"): DailyBaselineData, ("daily", "reporting"): DailyReportingData}[(space, cls)]


def close(obs, exp):
    exp = float(exp)
    return abs(obs - exp) <= REL * max(1.0, abs(exp))


def observed_by_row(data):
    df = data.df
    if "observed" in df.columns:
        vals = df["observed"].to_numpy(dtype="float64")
    else:
        vals = np.full(len(df), np.nan)
    return index_minutes(df.index), vals


# ------------------------------------------------------------------------------------ billing

CALENDARS = {
    # name: (first read date, nominal period lengths in days, regime)
    "cal_months": (dt.date(2021, 1, 1), [31, 28, 31, 30, 31, 30, 31, 31, 30, 31, 30, 31, 31], "monthly"),
    "cycle30": (dt.date(2021, 1, 5), [30] * 13, "monthly"),
    "alt29_32": (dt.date(2021, 1, 5), [29, 32] * 6 + [29], "monthly"),
    "bimonthly61": (dt.date(2020, 11, 5), [61] * 12, "bimonthly"),
    # cadences at the edges of what still is a monthly cycle (the typical period decides which limits apply)
    "cycle34": (dt.date(2021, 1, 5), [34] * 11, "monthly"),
    "cycle26": (dt.date(2021, 1, 5), [26] * 14, "monthly"),
    # perfectly regular cycles whose frequency pandas infers as a CALENDAR offset (4W-MON, 5W-MON, 8W-MON, BMS) rather than
    # as a number of days; enumerated without deviations (one replaced period makes the index irregular = the calendars above)
    "cycle28w": (dt.date(2021, 1, 4), [28] * 13, "monthly"),
    "cycle35w": (dt.date(2021, 1, 4), [35] * 10, "monthly"),
    "cycle56w": (dt.date(2020, 11, 2), [56] * 8, "bimonthly"),
    "bizmonth": (dt.date(2021, 1, 1), [31, 28, 31, 32, 29, 30, 32, 30, 30, 31, 30, 33], "monthly"),
}
NO_DEVIATIONS = {"cycle28w", "cycle35w", "cycle56w", "bizmonth"}


def billing_calendar(case):
    first, lens, regime = CALENDARS[case["cal"]]
    lens = list(lens)
    for pos, length in case.get("dev", []):
        lens[pos] = length
    if case.get("first"):
        first = dt.date.fromisoformat(case["first"])
    dates = [first]
    for n in lens:
        dates.append(iv.add_days(dates[-1], n))
    amounts = [Fraction(100 + 7 * i) for i in range(len(lens))]
    return dates, amounts, regime


def temperature_feed(zone, t0, t1, feed):
    """Temperature series covering [t0, t1] (minutes): daily at local midnight or hourly."""
    if feed == "daily":
        d0, _ = iv.min_to_wall(t0, zone)
        d1, _ = iv.min_to_wall(t1, zone)
        mins = [iv.wall_to_min(iv.add_days(d0, k), zone) for k in range((d1 - d0).days + 1)]
    else:
        mins = list(range(t0, t1 + 1, 60 if feed == "hourly" else 30))
    vals = [50.0 + (k % 7) for k in range(len(mins))]
    return pd.Series(vals, index=to_index(mins, zone), name="temperature")


def billing_inputs(case):
    zone = case["zone"]
    dates, amounts, regime = billing_calendar(case)
    reads = [iv.wall_to_min(d, zone) for d in dates]
    entry, feed = case["entry"], case["feed"]
    if entry == "from_series":
        meter = pd.Series([float(a) for a in amounts] + [np.nan], index=to_index(reads, zone), name="value")
        temp = temperature_feed(zone, iv.wall_to_min(iv.add_days(dates[0], -2), zone),
                                iv.wall_to_min(iv.add_days(dates[-1], 2), zone), feed)
        return ("series", meter, temp), dates, amounts, regime
    if entry == "frame_lastday":
        last = (iv.wall_to_min(iv.add_days(dates[-1], -1), zone) if feed == "daily"
                else reads[-1] - (60 if feed == "hourly" else 30))
        temp = temperature_feed(zone, reads[0], last, feed)
        obs = pd.Series([float(a) for a in amounts], index=to_index(reads[:-1], zone))
    elif entry == "frame_extra":
        temp = temperature_feed(zone, reads[0], reads[-1], feed)
        obs = pd.Series([float(a) for a in amounts] + [1.0], index=to_index(reads, zone))
    else:
        raise ValueError(entry)
    frame = pd.DataFrame({"observed": obs.reindex(temp.index), "temperature": temp})
    return ("frame", frame), dates, amounts, regime


def build(space, case, inputs):
    cls = get_class(space, case.get("cls", "baseline"))
    if case.get("tzkind") == "pytz":
        # the same instants, the zone given as a pytz object (its tzinfo instances carry a fixed offset each)
        import pytz

        tz = pytz.timezone(case["zone"])
        inputs = tuple(x.tz_convert(tz) if isinstance(x, (pd.Series, pd.DataFrame)) else x for x in inputs)
    if inputs[0] == "series":
        return cls.from_series(inputs[1], inputs[2], is_electricity_data=True)
    return cls(inputs[1], is_electricity_data=True)


def span_tag(period, zone):
    """Does the period contain a short (spring) / long (autumn) day?"""
    tags = []
    for k in range(period["ndays"]):
        a, b = iv.day_bounds(iv.add_days(period["start_date"], k), zone)
        if b - a < 1440:
            tags.append("short_day")
        elif b - a > 1440:
            tags.append("long_day")
    return "+".join(sorted(set(tags))) or "plain"


def run_billing(case):
    zone = case["zone"]
    inputs, dates, amounts, regime = billing_inputs(case)
    key0 = {"space": "billing", "entry": case["entry"]}
    if case["feed"] == "halfhourly":
        key0["feed"] = "halfhourly"
    if case.get("tzkind"):
        key0["tzkind"] = case["tzkind"]
    periods = iv.billing_periods(dates, amounts, zone, regime)
    dev_pos = {p for p, _ in case.get("dev", [])}
    try:
        data = build("billing", case, inputs)
    except Exception as exc:  # the constructor must accept every enumerated calendar
        return {"behaviour": ["raised", type(exc).__name__],
                "violations": [{"clause": "raised", "key": dict(key0, exc=type(exc).__name__),
                                "detail": f"{type(exc).__name__}: {str(exc)[:200]}"}]}
    rows, vals = observed_by_row(data)
    viol = []
    by_date = {}
    grid_ok = True
    for t, v in zip(rows, vals):
        if isinstance(t, Fraction):
            grid_ok = False
            continue
        d, m = iv.min_to_wall(t, zone)
        if m != 0 or d in by_date:
            grid_ok = False
            if not np.isnan(v):
                by_date[("off", t)] = v
            continue
        by_date[d] = v
    if not grid_ok:
        viol.append({"clause": "day_grid", "key": key0,
                     "detail": "output rows are not one per local day at local midnight"})
    used = set()
    beh = []
    for p in periods:
        days = iv.billing_day_shares(p, zone)
        got = [by_date.get(d, np.nan) for d, _, _ in days]
        used.update(d for d, _, _ in days)
        n_nan = int(np.isnan(got).sum())
        total = float(np.nansum(got))
        all_nan = n_nan == len(got)
        conserved = n_nan == 0 and close(total, p["amount"])
        where = "last" if p["i"] == len(periods) - 1 else "next_to_last" if p["i"] == len(periods) - 2 else "earlier"
        kind = {"len": p["ndays"] if p["i"] in dev_pos else "base", "span": span_tag(p, zone), "pos": where}
        desc = (f"{case.get('cls', 'baseline')} class, {case['cal']} dev={case.get('dev', [])} {zone} feed={case['feed']}: period {p['i']} [{p['start_date']} .. {p['end_date']}) {p['ndays']} days ({p['minutes'] / 1440:.4f} x 24 h), "
                f"billed {float(p['amount'])}: {len(got) - n_nan} days carry usage summing to {total!r}, {n_nan} days NaN")
        sum_ok = not all_nan and close(total, p["amount"])
        if p["validity"] == "valid":
            beh.append("kept" if conserved else "dropped!" if all_nan else "squeezed!" if sum_ok else "sum!")
            if all_nan:
                viol.append({"clause": "valid_period_dropped", "key": dict(key0, **kind),
                             "detail": desc + f"; the period is valid for the {regime} regime, expected a sum of {float(p['amount'])}"})
            elif not sum_ok:
                viol.append({"clause": "valid_period_sum", "key": dict(key0, **kind),
                             "detail": desc + f"; expected a sum of {float(p['amount'])}"})
            elif n_nan:
                viol.append({"clause": "valid_period_day_without_usage", "key": dict(key0, **kind),
                             "detail": desc + "; the bill is conserved but not spread over the whole interval (constant rate over "
                                              "its interval): " + ", ".join(str(d) for (d, _, _), g in zip(days, got) if np.isnan(g))[:120]
                                              + " carry nothing"})
        elif p["validity"] == "offcycle":
            beh.append("dropped" if all_nan else "kept!")
            if not all_nan:
                viol.append({"clause": "offcycle_not_dropped", "key": dict(key0, **kind),
                             "detail": desc + f"; off-cycle for the {regime} regime, expected every day NaN"})
        else:
            beh.append("either:" + ("kept" if conserved else "dropped" if all_nan else "BAD!"))
            if not (conserved or all_nan):
                viol.append({"clause": "ambiguous_period_neither_kept_nor_dropped", "key": dict(key0, **kind),
                             "detail": desc + "; expected either conserved over every day or entirely NaN"})
        if conserved:
            by_min = all(close(g, a) for g, (_, a, _) in zip(got, days))
            by_day = all(close(g, b) for g, (_, _, b) in zip(got, days))
            if not (by_min or by_day):
                worst = max(range(len(got)), key=lambda k: abs(got[k] - float(days[k][1])))
                viol.append({"clause": "constant_rate", "key": dict(key0, **kind),
                             "detail": desc + f"; day {days[worst][0]} carries {got[worst]!r}, minute-proportional share "
                                              f"{float(days[worst][1])!r}, per-day share {float(days[worst][2])!r}"})
    stray = [(k, v) for k, v in by_date.items() if k not in used and not np.isnan(v)]
    if stray:
        viol.append({"clause": "usage_outside_periods", "key": key0,
                     "detail": f"{len(stray)} row(s) outside every billing period carry usage, e.g. {stray[0][0]} -> {stray[0][1]!r}; "
                               f"periods cover [{dates[0]} .. {dates[-1]})"})
    nontrivial = True
    return {"behaviour": beh, "violations": viol, "nontrivial": nontrivial,
            "stats": {"periods": len(periods), "rows": len(rows)}}


def billing_cases(tier):
    quick = tier == "quick"
    zones = ZONES_QUICK if quick else ZONES_ALL
    all_combos = [(e, f) for e in ("from_series", "frame_lastday", "frame_extra") for f in ("daily", "hourly")]
    out = []

    def add(cal, dev, z, e, f, c="baseline"):
        out.append({"space": "billing", "cal": cal, "dev": dev, "zone": z, "entry": e, "feed": f, "cls": c})

    def combos_for(z, d, positions, n):
        """(entry, feed) pairs enumerated for this zone and deviation."""
        if d == 0:
            return all_combos
        if not quick:  # zones without DST: the feed and the frame conventions cannot interact with anything
            return all_combos if dst_dates(z) else [("from_series", "daily"), ("frame_extra", "daily")]
        if z == "UTC":  # no DST: the plain arithmetic; every entry point is covered with the DST zone
            return [("from_series", "daily")]
        # the feed's interval only interacts with the ends of the series (trimming, closing read)
        ends = positions[0] in (0, n - 2, n - 1)
        return [("from_series", "daily"), ("frame_lastday", "daily"), ("frame_extra", "daily")] + \
            ([("from_series", "hourly"), ("frame_lastday", "hourly")] if ends else [])

    for d in (0, 1, 2):
        if d == 2 and quick:
            break
        for cal, (_, lens, _) in CALENDARS.items():
            n = len(lens)
            if d and cal in NO_DEVIATIONS:
                continue
            for positions in itertools.combinations(range(n), d):
                for lengths in itertools.product(DEV_LENGTHS, repeat=d):
                    dev = [[p, l] for p, l in zip(positions, lengths)]
                    if d <= 1:
                        for z in zones:
                            for e, f in combos_for(z, d, positions, n):
                                add(cal, dev, z, e, f)
                            if d == 0:  # the feed's interval must not matter: also a half-hourly feed on the base calendars
                                for e in ("from_series", "frame_lastday", "frame_extra"):
                                    add(cal, dev, z, e, "halfhourly")
                        # Reporting classes: same resampling code; thinner slice
                        if d == 0 or not quick or positions[0] in (0, n - 2, n - 1):
                            for z in (["America/Chicago"] if quick else ["America/Chicago", "Australia/Sydney"]):
                                for e in (("from_series", "frame_lastday") if d else ("from_series", "frame_lastday", "frame_extra")):
                                    add(cal, dev, z, e, "daily", "reporting")
                    else:
                        # two deviations (thorough), on the regular monthly and the bi-monthly calendar:
                        #   every pair of positions x every pair of threshold lengths, and
                        #   every pair of lengths on the position pairs that can interact (adjacent periods, or one of them
                        #   first / last); non-adjacent interior periods share no read date and the regime is fixed
                        if cal not in ("cycle30", "bimonthly61"):
                            continue
                        p, q = positions
                        interacting = q - p == 1 or q == n - 1 or p == 0
                        threshold = all(l in THRESHOLD_LENGTHS for l in lengths)
                        if threshold or interacting:
                            add(cal, dev, "America/Chicago", "from_series", "daily")
                        if threshold and q - p == 1:
                            add(cal, dev, "Australia/Sydney", "frame_lastday", "daily")
                            add(cal, dev, "Australia/Sydney", "frame_extra", "daily")
    return out


def phase_cases(tier):
    """No deviation; (a) 30-day cycle shifted by every 0..29 days: every alignment of an interior read with the
    zone's DST dates; (b) 30-day and 61-day cycles placed so that the FIRST read or the CLOSING read falls on every
    day of [DST date - 3, DST date + 3] for both changes of the zone."""
    zones = ZONES_QUICK if tier == "quick" else ZONES_ALL
    combos = [("from_series", "daily"), ("from_series", "hourly"), ("frame_lastday", "daily"), ("frame_lastday", "hourly"),
              ("frame_extra", "daily"), ("frame_extra", "hourly")]
    out = []
    for z in zones:
        firsts = [("cycle30", iv.add_days(CALENDARS["cycle30"][0], ph)) for ph in range(30)]
        for d, _ in dst_dates(z, 2022):
            for cal in ("cycle30", "bimonthly61"):
                span = sum(CALENDARS[cal][1])
                for k in range(-3, 4):
                    firsts.append((cal, iv.add_days(d, k)))            # first read on DST day + k
                    firsts.append((cal, iv.add_days(d, k - span)))     # closing read on DST day + k
        for cal, first in firsts:
            for e, f in (combos if dst_dates(z, 2022) else combos[:1] + combos[2:3]):
                out.append({"space": "billing", "cal": cal, "dev": [], "first": first.isoformat(), "zone": z, "entry": e,
                            "feed": f, "cls": "baseline"})
                if dst_dates(z, 2022) and (tier != "quick" or z == "America/Chicago"):
                    out.append(dict(out[-1], tzkind="pytz"))
    return out


# ------------------------------------------------------------------------------------ sub-daily

DAILY_DAYS = 12  # daily readings: Monday .. Friday of the next week, the DST Sunday is day 6
SUB_DAYS = 5     # sub-daily readings: DST day in the middle


def window(zone, which, ndays):
    """First date of the window (2021): the zone's spring / autumn change is day ndays // 2.
    (Every enumerated zone changes on a Sunday, so the 12-day daily window starts on a Monday and
    holds exactly one weekend; with <= 2 runs of <= 2 days at least 7 of the 11 spacings are one day.)"""
    if which == "plain":
        return dt.date(2021, 3, 8) if ndays == DAILY_DAYS else dt.date(2021, 3, 12)
    ds = dst_dates(zone)
    short = [d for d, m in ds if m < 1440]
    long_ = [d for d, m in ds if m > 1440]
    d = short[0] if which == "spring" else long_[0]
    return iv.add_days(d, -(ndays // 2))


def windows_for(zone):
    return ["spring", "autumn"] if dst_dates(zone) else ["plain"]


def subdaily_series(case):
    zone, f = case["zone"], case["freq"]
    ndays = DAILY_DAYS if f == 1440 else SUB_DAYS
    d0 = window(zone, case["window"], ndays)
    t0, t1 = iv.wall_to_min(d0, zone), iv.wall_to_min(iv.add_days(d0, ndays), zone)
    if f == 1440:
        times = [iv.wall_to_min(iv.add_days(d0, k), zone) for k in range(ndays)]
        ends = times[1:] + [t1]
    else:
        times = list(range(t0, t1, f))
        ends = [t + f for t in times]
    values = [Fraction(1 + (i * 37) % 101) for i in range(len(times))]
    for s, n in case.get("runs", []):
        for i in range(s, s + n):
            values[i] = None
    return zone, f, d0, ndays, times, ends, values, t0, t1


def run_lengths(f):
    if f == 1440:
        return [1, 2]
    per_day = 1440 // f
    half = per_day // 2
    return [1, 2, half - 1, half, half + 1, per_day]


def run_starts(f, n):
    step = max(1, 60 // f) if f != 1440 else 1
    return list(range(0, n, step))


def subdaily_inputs(case, zone, times, values, t0, t1):
    keep = [i for i, v in enumerate(values) if v is not None] if case["gap"] == "absent" else list(range(len(times)))
    idx = to_index([times[i] for i in keep], zone)
    obs = pd.Series([np.nan if values[i] is None else float(values[i]) for i in keep], index=idx, name="value")
    if case["entry"] == "from_series":
        hours = list(range(t0, t1, 60))
        if case.get("tfeed") == "finer":       # temperature rows BETWEEN the meter readings (twice the meter's rate)
            hours = list(range(t0, t1, case["freq"] // 2))
        elif case.get("tfeed") == "half_past":  # an hourly feed stamped at half past the hour
            # (starting before the first meter reading: from_series trims the meter to the span of the feed)
            hours = list(range(t0 - 30, t1 + 60, 60))
        temp = pd.Series([50.0 + (k % 7) for k in range(len(hours))], index=to_index(hours, zone), name="temperature")
        return ("series", obs, temp)
    temp = pd.Series([50.0 + (i % 7) for i in keep], index=idx)
    return ("frame", pd.DataFrame({"observed": obs, "temperature": temp}))


def subdaily_expect(zone, times, ends, values, anchor, reading):
    """{date: expected Fraction | None} for the days from the first present reading's day up to
    (excluding) the final day, plus the (first_day, final_day) dates."""
    pres = [i for i, v in enumerate(values) if v is not None]
    first_day = iv.day_of(times[pres[0]], zone, anchor)
    final_day = iv.day_of(times[pres[-1]], zone, anchor)
    if reading == "nominal":
        segs = [(t, e, v) for t, e, v in zip(times, ends, values)]
    else:
        segs = iv.to_next_segments(times, values)
    dates = [iv.add_days(first_day, k) for k in range((final_day - first_day).days)]
    table = iv.daily_table(segs, dates, zone, anchor)
    return table, first_day, final_day


def compare_subdaily(table, first_day, final_day, by_date):
    viol = []
    beh = []
    for row in table:
        got = by_date.get(row["date"], np.nan)
        exp = row["expected"]
        cov = row["coverage"]
        if cov == 1:
            clause = "full_day_sum"
        elif cov > Fraction(1, 2):
            clause = "partial_day_scaled"
        else:
            clause = "low_coverage_missing"
        ok = np.isnan(got) if exp is None else (not np.isnan(got) and close(got, exp))
        beh.append(clause[0] + ("" if ok else "!"))
        if not ok:
            viol.append((clause, f"day {row['date']}: covered {row['covered']}/{row['minutes']} min (coverage {float(cov):.4f}), "
                                 f"sum of present readings {float(row['usage'])!r}; expected "
                                 f"{'missing' if exp is None else repr(float(exp))}, got {got!r}"))
    for d, v in by_date.items():
        if (d < first_day or d > final_day) and not np.isnan(v):
            viol.append(("usage_outside_data", f"day {d} lies outside the data [{first_day} .. {final_day}] but carries {v!r}"))
    return viol, beh


def run_subdaily(case):
    zone, f, d0, ndays, times, ends, values, t0, t1 = subdaily_series(case)
    gran = "daily" if f == 1440 else "subdaily"
    key0 = {"space": "subdaily", "entry": case["entry"], "gap": case["gap"], "granularity": gran}
    if case.get("tfeed"):
        key0["tfeed"] = case["tfeed"]
    pres = [i for i, v in enumerate(values) if v is not None]
    if len(pres) < 2:
        return {"rejected": "fewer than two present readings"}
    inputs = subdaily_inputs(case, zone, times, values, t0, t1)
    try:
        data = build("daily", case, inputs)
    except Exception as exc:
        return {"behaviour": ["raised", type(exc).__name__],
                "violations": [{"clause": "raised", "key": dict(key0, exc=type(exc).__name__),
                                "detail": f"freq {f} min, runs {case.get('runs')}: {type(exc).__name__}: {str(exc)[:200]}"}]}
    rows, vals = observed_by_row(data)
    # ---- the day grid the output uses
    _, m_first = iv.min_to_wall(times[pres[0]], zone)
    walls = set()
    for t in rows:
        walls.add(None if isinstance(t, Fraction) else iv.min_to_wall(t, zone)[1])
    allowed = {0, m_first}
    anchor = next(iter(walls)) if len(walls) == 1 else None
    by_date = {}
    dup = False
    if anchor is not None:
        for t, v in zip(rows, vals):
            d = iv.min_to_wall(t, zone)[0]
            dup |= d in by_date
            by_date[d] = v
    if anchor is None or anchor not in allowed or dup:
        return {"behaviour": ["grid", sorted(str(w) for w in walls)],
                "violations": [{"clause": "day_grid", "key": key0,
                                "detail": f"freq {f} min, runs {case.get('runs')}: output rows at wall-clock minutes {sorted(str(w) for w in walls)}"
                                          f"{' with duplicate dates' if dup else ''}; accepted {sorted(allowed)}"}]}
    head = f"{case.get('cls', 'baseline')} class, freq {f} min, window from {d0} ({zone}), missing runs {case.get('runs', [])} as {case['gap']}: "
    table, first_day, final_day = subdaily_expect(zone, times, ends, values, anchor, "nominal")
    v_nom, beh = compare_subdaily(table, first_day, final_day, by_date)
    accepted = "nominal"
    viol = v_nom
    if v_nom and case["gap"] == "absent" and f != 1440:
        table2, fd2, ld2 = subdaily_expect(zone, times, ends, values, anchor, "to_next")
        v_next, beh2 = compare_subdaily(table2, fd2, ld2, by_date)
        if not v_next:
            viol, beh, accepted = [], beh2, "to_next"
        else:
            viol = [(c, d + " (the to-next-row reading fails too)") for c, d in v_nom]
    nontrivial = any(r["coverage"] < 1 for r in table) or not case.get("runs")
    return {"behaviour": [accepted, anchor, beh],
            "nontrivial": nontrivial,
            "violations": [{"clause": c, "key": key0, "detail": head + d} for c, d in viol],
            "stats": {"days_compared": len(table), "days_partial": sum(1 for r in table if r["coverage"] < 1)}}


def run_sets(f, n, d, lattice_hours=1):
    lengths = run_lengths(f)
    starts = run_starts(f, n)
    if f != 1440 and lattice_hours > 1:
        starts = [s for s in starts if (s * f) % (60 * lattice_hours) == 0]
    singles = [(s, l) for l in lengths for s in starts if s + l <= n]
    if d == 0:
        return [[]]
    if d == 1:
        return [[list(r)] for r in singles]
    out = []
    for a, b in itertools.combinations(sorted(singles), 2):
        if a[0] + a[1] < b[0]:  # disjoint and not adjacent (adjacent runs are one longer run)
            out.append([list(a), list(b)])
    return out


def subdaily_cases(tier):
    quick = tier == "quick"
    zones = ZONES_QUICK if quick else ZONES_ALL
    out = []

    def combos(f, z, w):
        """(gap, entry, cls, lattice_hours) combinations enumerated with single runs for this (interval, zone, window)."""
        full = [(g, e, "baseline", 1) for g in ("nan", "absent") for e in ("from_series", "frame")]
        if not quick:
            if f in (15, 30) and z not in ("America/Chicago", "Australia/Sydney"):
                return []
            rep = [("nan", e, "reporting", 1) for e in ("from_series", "frame")] if z == "America/Chicago" and f in (60, 1440) else []
            return full + rep
        if f == 1440:
            return full + ([("nan", "from_series", "reporting", 1)] if (z, w) == ("America/Chicago", "spring") else [])
        if z == "UTC":  # no DST day: one combination per interval is enough next to the DST zone
            return [("nan", "from_series", "baseline", 1)] if f == 60 else []
        if f == 60:
            return full + ([("nan", "from_series", "reporting", 3)] if w == "spring" else [])
        if f == 30:
            return [("nan", "from_series", "baseline", 1), ("absent", "from_series", "baseline", 1)] if w == "spring" else []
        return [("nan", "from_series", "baseline", 1), ("nan", "frame", "baseline", 1)] if w == "autumn" else []

    for d in (0, 1, 2):
        if d == 2 and quick:
            break
        for f in (60, 30, 15, 1440):
            for z in zones:
                for w in windows_for(z):
                    base = {"space": "subdaily", "freq": f, "zone": z, "window": w}
                    n = len(subdaily_series(dict(base))[4])
                    if d == 0:
                        for e in ("from_series", "frame"):
                            for c in ("baseline", "reporting"):
                                out.append(dict(base, runs=[], gap="nan", entry=e, cls=c))
                        # temperature feeds whose rows fall between the meter readings (the usage must not notice)
                        # (half past only under the hourly meter: under a 30-minute meter from_series keeps one feed row before the
                        # first reading, which opens a day of its own - an edge of the lenient trim, not a matter of usage)
                        for tf in (("finer", "half_past") if f == 60 else ("finer",) if f == 30 else ()):
                            for c in ("baseline", "reporting"):
                                out.append(dict(base, runs=[], gap="nan", entry="from_series", cls=c, tfeed=tf))
                    elif d == 1:
                        for gap, entry, cls, lat in combos(f, z, w):
                            for runs in run_sets(f, n, 1, lattice_hours=lat):
                                out.append(dict(base, runs=runs, gap=gap, entry=entry, cls=cls))
                        if f == 60 and z == "America/Chicago" and (w == "spring" or not quick):
                            for tf in ("finer", "half_past"):
                                for gap in ("nan", "absent"):
                                    for runs in run_sets(f, n, 1, lattice_hours=3 if quick else 1):
                                        out.append(dict(base, runs=runs, gap=gap, entry="from_series", cls="baseline", tfeed=tf))
                    else:
                        # two runs: hourly (NaN gaps) and daily (both gap kinds) readings, Chicago, 4-hour lattice, via from_series
                        if z != "America/Chicago" or f not in (60, 1440):
                            continue
                        for runs in run_sets(f, n, 2, lattice_hours=4):
                            for gap in (("nan", "absent") if f == 1440 else ("nan",)):
                                out.append(dict(base, runs=runs, gap=gap, entry="from_series", cls="baseline"))
    return out


# ------------------------------------------------------------------------------------ driver

def run_case(case):
    if case["space"] == "billing":
        return run_billing(case)
    return run_subdaily(case)


def run(tier, seed):
    spaces = [
        ("billing calendars x period-length deviations", billing_cases(tier)),
        ("undeviated cycles x every alignment of reads with the DST dates", phase_cases(tier)),
        ("sub-daily / daily readings x runs of missing readings", subdaily_cases(tier)),
    ]
    exps = []
    with poolmod.Pool() as pool:
        for name, cs in spaces:
            exps.append(explore.explore(pool, name, MOD, "run_case", cs, seed=seed))
    cov = explore.merge_coverage(
        exps,
        rule="billing: one case = (base calendar, <= d replaced periods, zone, entry point, temperature feed, class); behaviour = "
        "per-period verdict vector (kept / dropped / either:* / BAD).  sub-daily: one case = (interval, zone, DST window, "
        "<= d missing runs, NaN|absent, entry point, class); behaviour = (reading accepted, day anchor, per-day clause "
        "vector); a sub-daily case is non-trivial when at least one compared day is partially covered (or it is the "
        "gap-free base case)",
    )
    cov["periods_checked"] = sum(e.stats.get("periods", 0) for e in exps)
    cov["days_compared"] = sum(e.stats.get("days_compared", 0) for e in exps)
    cov["partially_covered_days_compared"] = sum(e.stats.get("days_partial", 0) for e in exps)
    viols = [v for e in exps for v in e.violations]
    return {"level": LEVEL, "coverage": cov, "violations": viols, "assumptions": ASSUMPTIONS}


def replay(rep):
    vs = []
    for k in range(2):
        r = run_case(rep["case"])
        vs = [v for v in r.get("violations", []) if v["clause"] == rep["clause"] and v["key"] == rep.get("key", v["key"])]
        print(f"run {k}: behaviour={r.get('behaviour')} violations={len(r.get('violations', []))}, of clause {rep['clause']} with the recorded key: {len(vs)}")
        for v in vs[:3]:
            print("  ", v["key"], v["detail"])
    return 1 if vs else 0
