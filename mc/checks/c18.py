"""C18 — CalTRACK hourly: each hour belongs to its own month; bin features sum to T.

Exhaustive enumeration (no sampling) of six finite spaces, oracle = refmodels.segments
(plain Python, zoneinfo + Fractions), evaluated on the input alone:

 weights    segment_time_series over every hour of 2023 (non-leap) and 2024 (leap) in four zones
            x the four segmentation types x {whole span, each year, each month, each month boundary}
            x drop_zero_weight_segments in {False, True}
 routing    marker models built through the public JSON path (HourlyModel.from_json /
            CalTRACKHourlyModelResults.from_json) whose segment j answers 1000*j + hour_of_week
            (marker A) or a value that identifies segment j's bin tables and occupancy lookup
            (marker B); predict over the same windows tells which segment answered each hour
 bins       compute_temperature_bin_features for all 64 subsets of the candidate endpoints
            x temperature lattice U endpoint neighbourhoods U NaN x three series arrangements
 how        compute_time_features over both years and over every 168-hour window (one per day)
 wls        fit_caltrack_hourly_model_segment on intercept-only designs with every mix of {1, 3, 8} full-weight,
            {0, 1, 3, 8} half-weight and {0, 1, 3, 8} zero-weight rows: fitted level = weighted mean
 occupancy  fit and prediction design matrices over 13 weeks (every hour-of-week x every
            temperature class) x occupancy lookups x bin tables x segmentation types
"""
import itertools
import json
import math
from fractions import Fraction

import numpy as np
import pandas as pd

from .. import explore, pool as poolmod
from ..refmodels import segments as ref

PROP = "C18"
LEVEL = "exploration"
MOD = "mc.checks.c18"

ZONES = ["UTC", "America/Chicago", "Asia/Kolkata", "Australia/Sydney"]
YEARS = [2023, 2024]  # non-leap, leap
CANDIDATES = [30, 45, 55, 65, 75, 90]  # fit_temperature_bins(default_bins=...), asserted against the library in run_case
SEGMENT_TYPES = list(ref.SEGMENT_TYPES)
FIT_TYPES = ["three_month_weighted", "single"]  # the only types CalTRACKHourlyModel accepts for a fitted model
TEMP_CYCLE = [-10.0, 30.0, 37.5, 45.0, 50.0, 55.0, 60.0, 65.0, 70.0, 75.0, 82.5, 90.0, 100.0]  # 13 classes, coprime with 168
LOOKUPS = ["all0", "all1", "alternating", "business", "per_segment"]
BIN_CONFIGS = ["all_all", "all_none", "none_all", "split", "per_segment"]

ASSUMPTIONS = [
    "an hour's 'own month' is the calendar month of the timestamp in the index's own timezone (reference: zoneinfo on epoch seconds)",
    "segments are identified by their documented names ('all'; 'jan'..'dec'; 'dec-jan-feb'..; '...-weighted'): a three-month "
    "segment contains the three named months and is the own segment of its middle month; a column whose name is not of that form "
    "for the requested type is reported (unknown_segment) rather than guessed",
    "weights are compared exactly (1, 1/2, 0); with drop_zero_weight_segments=True the same per-hour pattern is required of the "
    "columns that are returned (an all-zero column that is kept is not a violation)",
    "'when fitting': the weight column of the fit design matrices must equal the statement's weights (design_weight) and the "
    "public segment fitter must honour it: on intercept-only designs the fitted level of an hour-of-week must be the weighted "
    "mean of its rows (rows of weight 0 have no influence, weight 1/2 counts half), relative tolerance 1e-9",
    "prediction routing is decided from the public prediction output only: marker A answers 1000*j + hour_of_week for segment j "
    "with all-zero bin coefficients; marker B answers +/-V_j where V_j identifies segment j's bin-endpoint tables and the sign the "
    "occupancy lookup bit; every expected value is an exactly representable float, comparison is exact; fitted segment types are "
    "the two the model class accepts (three_month_weighted, single)",
    "bin clauses: features sum to T exactly in rational arithmetic, a deviation of at most 2 ulp(T) is accepted; bin 0 may be "
    "negative (it holds everything up to the first endpoint), every other bin lies in [0, width], the last bin is unbounded; a bin "
    "is non-zero only if every earlier bin is exactly full",
    "NaN temperature: the library documents only that the row sum equals the input temperature; accepted = the row contains at "
    "least one NaN and no finite non-zero feature; a finite temperature must give only finite features",
    "design matrices: the total of all occupied+unoccupied bin features of an hour equals its temperature; which family is active "
    "follows the documented meaning of the lookup (occupied features are zero in hours whose lookup flag is 0/False and vice "
    "versa); the active family must equal the reference bin features for that segment's endpoints",
    "the final row of the fit design matrix only closes the last period (eemeter convention: its temperature and hour_of_week "
    "are blanked) and is excluded from the design-matrix clauses",
    "the 'all 168 values occur' sentence is a coverage requirement on the enumeration (the reference takes all 168 values in "
    "every zone and in every week without a clock change); a 168-hour window containing a clock change legitimately misses one value",
]


# ------------------------------------------------------------------ windows / indexes
def window_bounds(zone, w):
    """(start_epoch, end_epoch) of a window descriptor, local wall-clock boundaries."""
    k = w["w"]
    if k == "years":
        return ref.local_epoch(YEARS[0], 1, 1, zone), ref.local_epoch(YEARS[-1] + 1, 1, 1, zone)
    if k == "year":
        return ref.local_epoch(w["y"], 1, 1, zone), ref.local_epoch(w["y"] + 1, 1, 1, zone)
    if k == "month":
        y2, m2 = (w["y"] + 1, 1) if w["m"] == 12 else (w["y"], w["m"] + 1)
        return ref.local_epoch(w["y"], w["m"], 1, zone), ref.local_epoch(y2, m2, 1, zone)
    if k == "boundary":  # last hour of month m-1 and first two hours of month m (y, m name the month that starts)
        e = ref.local_epoch(w["y"], w["m"], 1, zone)
        return e - 3600, e + 7200
    if k == "newyear":
        return ref.local_epoch(2023, 12, 15, zone), ref.local_epoch(2024, 1, 15, zone)
    if k == "utc_year":  # the same instants in every zone (one UTC extraction window localised per meter)
        return ref.local_epoch(w["y"], 1, 1, "UTC"), ref.local_epoch(w["y"] + 1, 1, 1, "UTC")
    raise ValueError(k)


def all_windows():
    out = [{"w": "years"}] + [{"w": "year", "y": y} for y in YEARS]
    out += [{"w": "month", "y": y, "m": m} for y in YEARS for m in range(1, 13)]
    out += [{"w": "boundary", "y": y, "m": m} for y in YEARS for m in range(1, 13) if not (y == YEARS[0] and m == 1)]
    out += [{"w": "boundary", "y": YEARS[-1] + 1, "m": 1}, {"w": "newyear"}]
    return out


def wname(w):
    return w["w"] + ("-%d" % w["y"] if "y" in w else "") + ("-%02d" % w["m"] if "m" in w else "")


def make_index(zone, start, end):
    """Hourly tz-aware index with freq='h' over absolute hours [start, end) + the reference epochs."""
    epochs = ref.hourly_epochs(start, end)
    idx = pd.date_range(pd.Timestamp(start, unit="s", tz="UTC"), periods=len(epochs), freq="h").tz_convert(zone)
    got = idx.tz_convert("UTC").as_unit("s").asi8
    if not np.array_equal(got, np.asarray(epochs, dtype="int64")):
        raise RuntimeError("harness: index does not match the reference epochs")
    return idx, epochs


def cycle_temps(idx, const=None):
    if const is not None:
        return pd.Series(float(const), index=idx, name="temperature")
    return pd.Series([TEMP_CYCLE[i % len(TEMP_CYCLE)] for i in range(len(idx))], index=idx, name="temperature", dtype=float)


def _ts(idx, pos):
    return [str(idx[int(p)]) for p in list(pos)[:3]]


# ------------------------------------------------------------------ part: weights
def case_weights(case):
    from opendsm.eemeter.models.hourly_caltrack.segmentation import segment_time_series

    zone, st, drop = case["zone"], case["segment_type"], case["drop"]
    idx, epochs = make_index(zone, *window_bounds(zone, case["window"]))
    months = np.array([f[1] for f in ref.local_fields(epochs, zone)])
    key = {"part": "weights", "segment_type": st, "drop": drop}
    where = f"zone={zone} window={wname(case['window'])}"
    viol = []
    if case.get("after"):
        # history: the same instants were segmented in ANOTHER zone just before, in this process (nothing may carry over)
        idx1, _ = make_index(case["after"], *window_bounds(case["after"], case["window"]))
        segment_time_series(idx1, st, drop_zero_weight_segments=drop)
        key["history"] = "other_zone_first"
        where += f" after the same instants in {case['after']}"
    seg = segment_time_series(idx, st, drop_zero_weight_segments=drop)
    if not seg.index.equals(idx):
        viol.append({"clause": "weights_index", "key": key, "detail": f"{where}: returned index differs from the input index"})
        return {"behaviour": "bad_index", "violations": viol}
    W = seg.to_numpy(dtype=float)
    cols = [str(c) for c in seg.columns]
    if len(set(cols)) != len(cols):
        viol.append({"clause": "duplicate_segment", "key": key, "detail": f"{where}: columns {cols}"})
    # clause: value per named segment
    for j, name in enumerate(cols):
        table = [ref.expected_weight(st, name, m) for m in range(1, 13)]
        if any(t is None for t in table):
            viol.append({"clause": "unknown_segment", "key": key,
                         "detail": f"{where}: column {name!r} is not a documented segment name of type {st}"})
            continue
        exp = np.array([float(t) for t in table])[months - 1]
        bad = np.flatnonzero(W[:, j] != exp)
        if len(bad):
            bm = sorted(set(months[bad].tolist()))
            i = int(bad[0])
            viol.append({"clause": "weight_value", "key": key,
                         "detail": f"{where}: segment {name!r} gives weight {W[i, j]} to {idx[i]} (month {months[i]}), expected "
                                   f"{float(table[months[i] - 1])}; {len(bad)} hours in months {bm}"})
    # clause: pattern per hour, independent of names
    n1 = (W == 1.0).sum(axis=1)
    nh = (W == 0.5).sum(axis=1)
    n0 = (W == 0.0).sum(axis=1)
    e1, eh = ref.expected_pattern(st)
    bad = np.flatnonzero((n1 != e1) | (nh != eh) | (n1 + nh + n0 != W.shape[1]))
    if len(bad):
        i = int(bad[0])
        row = {c: float(W[i, j]) for j, c in enumerate(cols) if W[i, j] != 0}
        viol.append({"clause": "weight_pattern", "key": key,
                     "detail": f"{where}: {idx[i]} carries {row}; expected exactly {e1} weight(s) of 1 and {eh} of 0.5, 0 elsewhere; "
                               f"{len(bad)} hours in months {sorted(set(months[bad].tolist()))}"})
    pat = {}
    for a, b in zip(n1.tolist(), nh.tolist()):
        pat[f"{a}x1+{b}x0.5"] = pat.get(f"{a}x1+{b}x0.5", 0) + 1
    return {"behaviour": {"columns": len(cols), "patterns": pat}, "violations": viol,
            "stats": {"hours": len(idx), "weights_compared": int(W.size)}}


# ------------------------------------------------------------------ part: routing (marker models)
def _code(fit_type, month):
    return 13 if fit_type == "single" else month


def _subset_from_bits(code, pool):
    return [e for b, e in enumerate(pool) if (code >> b) & 1]


def marker_tables(fit_type):
    """Per segment: name, code j, occupied endpoints, unoccupied endpoints, lookup bits (168)."""
    months = [None] if fit_type == "single" else list(range(1, 13))
    out = []
    for m in months:
        j = _code(fit_type, m)
        out.append({
            "name": ref.own_segment_name(fit_type, m or 1),
            "month": m,
            "j": j,
            "occ": _subset_from_bits(j, CANDIDATES),
            "unocc": _subset_from_bits(63 - j, CANDIDATES),
            "lookup": [bool((j >> (h % 4)) & 1) for h in range(168)],
        })
    return out


def marker_b_value(endpoints, T=100):
    f = ref.bin_features(T, endpoints)
    v = sum(Fraction(3) ** k * x for k, x in enumerate(f))
    assert v.denominator == 1
    return int(v)


def _table_json(cols, index, rows):
    return json.dumps({"columns": cols, "index": index, "data": rows})


def marker_doc(fit_type, marker):
    """A stored CalTRACK hourly model document in the format written by HourlyModel.to_dict()."""
    segs = marker_tables(fit_type)
    names = [s["name"] for s in segs]
    seg_docs = []
    for s in segs:
        if marker == "A":
            occ_eps, unocc_eps = CANDIDATES, CANDIDATES
        else:
            occ_eps, unocc_eps = s["occ"], s["unocc"]
        cols = [f"bin_{k}_occupied" for k in range(len(occ_eps) + 1)] + [f"bin_{k}_unoccupied" for k in range(len(unocc_eps) + 1)]
        params = {}
        for h in range(168):
            params[f"C(hour_of_week)[{h}]"] = float(1000 * s["j"] + h) if marker == "A" else 0.0
        for c in cols:
            k = int(c.split("_")[1])
            params[c] = 0.0 if marker == "A" else (float(3 ** k) if c.endswith("_occupied") else -float(3 ** k))
        seg_docs.append({"segment_name": s["name"], "formula": "meter_value ~ C(hour_of_week) - 1 + " + " + ".join(cols),
                         "warnings": [], "model_params": params})
    if marker == "A":
        lookup_rows = [[bool((h + c) % 2) for c in range(len(segs))] for h in range(168)]
        occ_rows = [[True] * len(segs) for _ in CANDIDATES]
        unocc_rows = occ_rows
    else:
        lookup_rows = [[s["lookup"][h] for s in segs] for h in range(168)]
        occ_rows = [[e in s["occ"] for s in segs] for e in CANDIDATES]
        unocc_rows = [[e in s["unocc"] for s in segs] for e in CANDIDATES]
    unc = {"mean_baseline_usage": 1.0, "n": 700, "n_prime": 600.0, "MSE": 0.01}
    return {
        "status": "SUCCEEDED", "method_name": "caltrack_hourly", "warnings": [], "metadata": {}, "settings": {},
        "totals_metrics": None, "avgs_metrics": None,
        "model": {
            "segment_models": seg_docs,
            "segment_type": fit_type,
            "occupancy_lookup": _table_json(names, list(range(168)), lookup_rows),
            "occupied_temperature_bins": _table_json(names, CANDIDATES, occ_rows),
            "unoccupied_temperature_bins": _table_json(names, CANDIDATES, unocc_rows),
            "unc_vars": {"all": unc} if fit_type == "single" else {str(m): unc for m in range(1, 13)},
        },
    }


def marker_expected(fit_type, marker, month, how):
    """Value the own-month segment answers for an hour of `month` with hour-of-week `how`."""
    segs = marker_tables(fit_type)
    s = segs[0] if fit_type == "single" else segs[month - 1]
    if marker == "A":
        return float(1000 * s["j"] + how)
    if s["lookup"][how]:
        return float(marker_b_value(s["occ"]))
    return -float(marker_b_value(s["unocc"]))


def marker_b_sanity():
    for ft in FIT_TYPES:
        vals = []
        for s in marker_tables(ft):
            vals += [marker_b_value(s["occ"]), marker_b_value(s["unocc"])]
        if len(set(vals)) != len(vals) or min(vals) <= 0:
            raise RuntimeError("harness: marker B values are not distinct")


def _explain(fit_type, marker, value, how):
    if value != value:
        return "NaN"
    if fit_type == "single":
        return repr(value)
    cands = [m for m in range(1, 13) if marker_expected(fit_type, marker, m, how) == value]
    if cands:
        return f"{value} = the answer of the model of month(s) {cands}"
    if marker == "B":
        segs = marker_tables(fit_type)
        hit = [(s["month"], fam) for s in segs for fam in ("occ", "unocc") if marker_b_value(s[fam]) == abs(value)]
        if hit:
            return f"{value} = bin tables of (month, family) {hit} with sign {'+' if value > 0 else '-'}"
    return f"{value} (no single segment answers this)"


def case_routing(case):
    from opendsm.eemeter.models.hourly_caltrack import HourlyModel, HourlyReportingData
    from opendsm.eemeter.models.hourly_caltrack.model import CalTRACKHourlyModelResults

    zone, ft, marker, entry = case["zone"], case["fit_type"], case["marker"], case["entry"]
    marker_b_sanity()
    idx, epochs = make_index(zone, *window_bounds(zone, case["window"]))
    fields = ref.local_fields(epochs, zone)
    months = np.array([f[1] for f in fields])
    hows = np.array([ref.hour_of_week(f[3], f[4]) for f in fields])
    temps = cycle_temps(idx, const=None if marker == "A" else 100.0)
    key = {"part": "routing", "fit_type": ft, "marker": marker}
    where = f"zone={zone} window={wname(case['window'])} entry={entry}"
    doc = json.loads(json.dumps(marker_doc(ft, marker)))
    viol = []
    try:
        if entry == "wrapper":
            model = HourlyModel.from_json(json.dumps(doc))
            rd = HourlyReportingData(pd.DataFrame({"temperature": temps}), is_electricity_data=True)
            out = model.predict(rd)["predicted"]
        else:
            res = CalTRACKHourlyModelResults.from_json(doc)
            out = res.predict(idx, temps).result["predicted_usage"]
    except Exception as exc:  # noqa
        viol.append({"clause": "predict_raised", "key": dict(key, exc=type(exc).__name__),
                     "detail": f"{where}: {type(exc).__name__}: {str(exc)[:200]}"})
        return {"behaviour": "raise_" + type(exc).__name__, "violations": viol}
    if not out.index.equals(idx):
        viol.append({"clause": "prediction_index", "key": key, "detail": f"{where}: prediction index differs from the reporting index "
                                                                        f"({len(out)} rows for {len(idx)} hours)"})
        return {"behaviour": "bad_index", "violations": viol}
    got = out.to_numpy(dtype=float)
    exp = np.array([marker_expected(ft, marker, int(m), int(h)) for m, h in zip(months, hows)])
    nan = np.flatnonzero(np.isnan(got))
    if len(nan):
        viol.append({"clause": "prediction_missing", "key": key,
                     "detail": f"{where}: {len(nan)} hours with a temperature have no prediction, first {_ts(idx, nan)} "
                               f"(months {sorted(set(months[nan].tolist()))})"})
    bad = np.flatnonzero(~np.isnan(got) & (got != exp))
    if len(bad):
        i = int(bad[0])
        viol.append({"clause": "routing_wrong_segment" if marker == "A" else "routing_wrong_tables", "key": key,
                     "detail": f"{where}: {idx[i]} (month {months[i]}, hour-of-week {hows[i]}) predicted "
                               f"{_explain(ft, marker, float(got[i]), int(hows[i]))}; its own month's model answers {exp[i]}; "
                               f"{len(bad)} hours in months {sorted(set(months[bad].tolist()))}"})
    answered = {}
    for m in sorted(set(months.tolist())):
        sel = months == m
        answered[str(m)] = int((got[sel] == exp[sel]).sum())
    return {"behaviour": {"own_month_answers": answered, "hours": len(idx)}, "violations": viol,
            "stats": {"hours_predicted": len(idx)}}


# ------------------------------------------------------------------ part: bins
def temperature_points(den):
    """Lattice k/den over [-40, 130], every candidate endpoint with its two float neighbours, NaN."""
    pts = [k / den for k in range(-40 * den, 130 * den + 1)]
    for e in CANDIDATES:
        pts += [float(np.nextafter(float(e), -np.inf)), float(e), float(np.nextafter(float(e), np.inf))]
    seen, out = set(), []
    for p in pts:
        if p not in seen:
            seen.add(p)
            out.append(p)
    return out + [float("nan")]


def _near_points():
    out = []
    for e in CANDIDATES:
        out += [float(np.nextafter(float(e), -np.inf)), float(e), float(np.nextafter(float(e), np.inf))]
    return out + [float("nan"), -40.0, 130.0]


def _temp_class(T, subset):
    if T != T:
        return "nan"
    for e in subset:
        if T == e:
            return "on_endpoint"
        if T == float(np.nextafter(float(e), np.inf)):
            return "just_above_endpoint"
        if T == float(np.nextafter(float(e), -np.inf)):
            return "just_below_endpoint"
    return "other"


def check_bin_row(T, feats, subset):
    """Clauses for one temperature.  Returns list of (clause, message)."""
    out = []
    if T != T:
        if not any(f != f for f in feats) or any((f == f) and f != 0 for f in feats):
            out.append(("bins_nan", f"T=NaN gives {feats}; expected a row that cannot be read as a temperature"))
        return out
    if any((f != f) or math.isinf(f) for f in feats):
        out.append(("bins_nan", f"T={T!r} gives non-finite features {feats}"))
        return out
    widths = ref.bin_widths(subset)
    if len(feats) != len(widths):
        return out  # reported by bins_shape
    fr = [Fraction(f) for f in feats]
    diff = abs(sum(fr) - Fraction(T))
    if diff != 0 and diff > 2 * Fraction(math.ulp(T)):
        out.append(("bins_sum", f"T={T!r} endpoints={subset}: features {feats} sum to {float(sum(fr))!r}"))
    for i, (f, w) in enumerate(zip(fr, widths)):
        if i >= 1 and f < 0:
            out.append(("bins_width", f"T={T!r} endpoints={subset}: bin_{i}={feats[i]!r} is negative"))
        if w is not None and f > w:
            out.append(("bins_width", f"T={T!r} endpoints={subset}: bin_{i}={feats[i]!r} exceeds its capacity {float(w)}"))
    for i in range(1, len(fr)):
        if fr[i] != 0:
            short = [j for j in range(i) if fr[j] != widths[j]]
            if short:
                out.append(("bins_order", f"T={T!r} endpoints={subset}: bin_{i}={feats[i]!r} is non-zero although bin(s) {short} "
                                          f"are not full (features {feats}, capacities {[float(w) for w in widths[:-1]]})"))
                break
    return out


def case_bins(case):
    import inspect

    from opendsm.eemeter.common.features import compute_temperature_bin_features, fit_temperature_bins

    lib_default = list(inspect.signature(fit_temperature_bins).parameters["default_bins"].default)
    if lib_default != CANDIDATES:
        raise RuntimeError(f"harness: the library's candidate endpoints are {lib_default}, the check enumerates {CANDIDATES}")
    subset, arr = list(case["subset"]), case["arrangement"]
    viol = []
    calls = []
    if arr == "asc_range":
        pts = temperature_points(case["den"])
        calls.append(pd.Series(pts, dtype=float, name="temperature_mean"))
    elif arr == "desc_hourly":
        pts = temperature_points(case["den"])[::-1]
        idx = pd.date_range("2024-03-09 00:00", periods=len(pts), freq="h", tz="America/Chicago")
        calls.append(pd.Series(pts, index=idx, dtype=float, name="temperature_mean"))
    elif arr == "singletons":
        for p in _near_points():
            calls.append(pd.Series([p], index=pd.date_range("2024-01-01", periods=1, freq="h", tz="UTC"), dtype=float))
    else:
        raise ValueError(arr)
    n_rows = n_exact = 0
    classes = {}
    for s in calls:
        before = s.copy()
        out = compute_temperature_bin_features(s, list(subset))
        if not s.equals(before):
            viol.append({"clause": "bins_input_modified", "key": {"part": "bins"}, "detail": f"endpoints={subset}"})
        want_cols = [f"bin_{i}" for i in range(len(subset) + 1)]
        if list(out.columns) != want_cols or not out.index.equals(s.index):
            viol.append({"clause": "bins_shape", "key": {"part": "bins", "n_endpoints": len(subset)},
                         "detail": f"endpoints={subset}: columns {list(out.columns)} (expected {want_cols}), "
                                   f"index preserved={out.index.equals(s.index)}"})
            continue
        F = out.to_numpy(dtype=float)
        for T, row in zip(s.to_numpy(dtype=float).tolist(), F.tolist()):
            n_rows += 1
            cls = _temp_class(T, subset)
            classes[cls] = classes.get(cls, 0) + 1
            probs = check_bin_row(T, row, subset)
            if T == T and not probs and sum(Fraction(f) for f in row) == Fraction(T):
                n_exact += 1
            for clause, msg in probs:
                viol.append({"clause": clause, "key": {"part": "bins", "where": cls}, "detail": msg + f" [{arr}]"})
    return {"behaviour": {"rows": n_rows, "exact_sums": n_exact, "classes": classes}, "violations": viol,
            "stats": {"bin_rows": n_rows, "bin_rows_exact_sum": n_exact}}


# ------------------------------------------------------------------ part: hour of week
def case_how(case):
    from opendsm.eemeter.common.features import compute_time_features

    zone, mode = case["zone"], case["mode"]
    start, end = window_bounds(zone, {"w": "years"})
    key = {"part": "how"}
    if case.get("shift"):
        # data on the UTC-hour lattice in a zone whose offset is not a whole number of hours: every stamp is hh:30 / hh:45 local
        start, end = start + case["shift"], end + case["shift"]
        key = {"part": "how", "stamps": "off_the_local_hour"}
    viol = []
    spans = []
    if mode == "years":
        spans = [(start, end, dict(hour_of_week=True, day_of_week=False, hour_of_day=False)), (start, end, {})]
    else:
        s = start
        while s + 168 * 3600 <= end:
            spans.append((s, s + 168 * 3600, dict(hour_of_week=True, day_of_week=False, hour_of_day=False)))
            s += 24 * 3600
    seen = set()
    n = 0
    distinct_hist = {}
    for a, b, kw in spans:
        idx, epochs = make_index(zone, a, b)
        fields = ref.local_fields(epochs, zone)
        exp = np.array([ref.hour_of_week(f[3], f[4]) for f in fields])
        seen.update(exp.tolist())
        distinct_hist[str(len(set(exp.tolist())))] = distinct_hist.get(str(len(set(exp.tolist()))), 0) + 1
        out = compute_time_features(idx, **kw)
        n += len(idx)
        if not out.index.equals(idx) or "hour_of_week" not in out.columns:
            viol.append({"clause": "hour_of_week_index", "key": key, "detail": f"zone={zone} span starting {idx[0]}: index/columns changed"})
            continue
        col = out["hour_of_week"]
        if col.isna().any():
            bad = np.flatnonzero(col.isna().to_numpy())
            viol.append({"clause": "hour_of_week_value", "key": key,
                         "detail": f"zone={zone}: hour_of_week missing at {_ts(idx, bad)}"})
            continue
        got = col.astype(int).to_numpy()
        bad = np.flatnonzero(got != exp)
        if len(bad):
            i = int(bad[0])
            viol.append({"clause": "hour_of_week_value", "key": key,
                         "detail": f"zone={zone}: {idx[i]} (weekday {fields[i][3]}, hour {fields[i][4]}) has hour_of_week {got[i]}, "
                                   f"expected {exp[i]}; {len(bad)} hours in the span starting {idx[0]}"})
    if len(seen) != 168:
        raise RuntimeError("harness: the enumeration does not exercise all 168 hour-of-week values")
    return {"behaviour": {"values_exercised": len(seen), "spans": len(spans), "distinct_values_per_span": distinct_hist},
            "violations": viol, "stats": {"how_rows": n}}


# ------------------------------------------------------------------ part: occupancy / design matrices
def lookup_column(kind, k, dtype):
    """Occupancy flags for the 168 hours of the week for the k-th segment."""
    if kind == "all0":
        v = [0] * 168
    elif kind == "all1":
        v = [1] * 168
    elif kind == "alternating":
        v = [h % 2 for h in range(168)]
    elif kind == "business":
        v = [1 if (h // 24 < 5 and 8 <= h % 24 < 18) else 0 for h in range(168)]
    elif kind == "per_segment":
        v = [(h + k) % 2 if k % 3 else (1 if (h // 24 < 5 and 8 <= h % 24 < 18) else 0) for h in range(168)]
    else:
        raise ValueError(kind)
    return [bool(x) for x in v] if dtype == "bool" else [int(x) for x in v]


def _subset_code(code):
    return [e for b, e in enumerate(CANDIDATES) if (code >> b) & 1]


def bins_for(config, k):
    """(occupied endpoints, unoccupied endpoints) of the k-th segment."""
    if config == "all_all":
        return list(CANDIDATES), list(CANDIDATES)
    if config == "all_none":
        return list(CANDIDATES), []
    if config == "none_all":
        return [], list(CANDIDATES)
    if config == "split":
        return [45, 65], [30, 55, 75, 90]
    if config == "per_segment":
        return _subset_code((5 * k + 1) % 64), _subset_code((11 * k + 7) % 64)
    raise ValueError(config)


def _tables(names, lookup, dtype, config):
    occ = pd.DataFrame({n: lookup_column(lookup, k, dtype) for k, n in enumerate(names)}, index=pd.CategoricalIndex(range(168)))
    ob = pd.DataFrame({n: [e in bins_for(config, k)[0] for e in CANDIDATES] for k, n in enumerate(names)},
                      index=pd.Series(CANDIDATES, name="bin_endpoints"))
    ub = pd.DataFrame({n: [e in bins_for(config, k)[1] for e in CANDIDATES] for k, n in enumerate(names)},
                      index=pd.Series(CANDIDATES, name="bin_endpoints"))
    return occ, ob, ub


def _check_design(dm, nrows, T, hows, flags, occ_eps, unocc_eps, exp_weight, key, where, idx, viol):
    """dm: design matrix of one segment; the first nrows rows are checked."""
    occ_cols = [f"bin_{i}_occupied" for i in range(len(occ_eps) + 1)]
    unocc_cols = [f"bin_{i}_unoccupied" for i in range(len(unocc_eps) + 1)]
    have_occ = [c for c in dm.columns if str(c).endswith("_occupied")]
    have_unocc = [c for c in dm.columns if str(c).endswith("_unoccupied")]
    if have_occ != occ_cols or have_unocc != unocc_cols or not dm.index[:nrows].equals(idx[:nrows]):
        viol.append({"clause": "design_shape", "key": key,
                     "detail": f"{where}: bin columns {have_occ + have_unocc}, expected {occ_cols + unocc_cols}; rows {len(dm)}"})
        return
    O = dm[occ_cols].to_numpy(dtype=float)[:nrows]
    U = dm[unocc_cols].to_numpy(dtype=float)[:nrows]
    if np.isnan(O).any() or np.isnan(U).any():
        bad = np.flatnonzero(np.isnan(O).any(axis=1) | np.isnan(U).any(axis=1))
        viol.append({"clause": "design_bins_nan", "key": key, "detail": f"{where}: NaN bin features at {_ts(idx, bad)} ({len(bad)} rows)"})
        return
    # hour of week
    hw = dm["hour_of_week"].astype(float).to_numpy()[:nrows]
    bad = np.flatnonzero(~(hw == hows))
    if len(bad):
        i = int(bad[0])
        viol.append({"clause": "design_hour_of_week", "key": key,
                     "detail": f"{where}: {idx[i]} has hour_of_week {hw[i]}, expected {hows[i]} ({len(bad)} rows)"})
    # never both
    both = np.flatnonzero((O != 0).any(axis=1) & (U != 0).any(axis=1))
    if len(both):
        i = int(both[0])
        viol.append({"clause": "occ_unocc_both_nonzero", "key": key,
                     "detail": f"{where}: {idx[i]} (hour-of-week {hows[i]}, T={T[i]}) occupied={O[i].tolist()} "
                               f"unoccupied={U[i].tolist()} ({len(both)} rows)"})
    # total equals T (all values are multiples of 1/2 far below 2**52, so float addition is exact in any order)
    allv = np.concatenate([O, U], axis=1)
    if not (np.all(allv * 2 == np.round(allv * 2)) and np.all(np.abs(allv) < 2 ** 40)):
        tot = np.array([float(sum(Fraction(x) for x in r)) for r in allv.tolist()])
    else:
        tot = allv.sum(axis=1)
    bad = np.flatnonzero(tot != T)
    if len(bad):
        i = int(bad[0])
        viol.append({"clause": "design_bins_sum", "key": key,
                     "detail": f"{where}: {idx[i]} (hour-of-week {hows[i]}, lookup flag {int(flags[i])}) has T={T[i]} but its bin features "
                               f"total {tot[i]} (occupied={O[i].tolist()} unoccupied={U[i].tolist()}); {len(bad)} rows"})
    # side and fill
    wrong_side = np.flatnonzero(np.where(flags, (U != 0).any(axis=1), (O != 0).any(axis=1)))
    if len(wrong_side):
        i = int(wrong_side[0])
        viol.append({"clause": "occupancy_side", "key": key,
                     "detail": f"{where}: {idx[i]} hour-of-week {hows[i]} has lookup flag {int(flags[i])} but occupied={O[i].tolist()} "
                               f"unoccupied={U[i].tolist()} ({len(wrong_side)} rows)"})
    refO = {t: [float(x) for x in ref.bin_features(Fraction(t), occ_eps)] for t in set(T.tolist())}
    refU = {t: [float(x) for x in ref.bin_features(Fraction(t), unocc_eps)] for t in set(T.tolist())}
    expO = np.array([refO[t] if f else [0.0] * len(occ_cols) for t, f in zip(T.tolist(), flags.tolist())])
    expU = np.array([[0.0] * len(unocc_cols) if f else refU[t] for t, f in zip(T.tolist(), flags.tolist())])
    bad = np.flatnonzero((O != expO).any(axis=1) | (U != expU).any(axis=1))
    bad = np.setdiff1d(bad, np.union1d(both, wrong_side))
    if len(bad):
        i = int(bad[0])
        viol.append({"clause": "design_bins_fill", "key": key,
                     "detail": f"{where}: {idx[i]} T={T[i]} flag={int(flags[i])} occupied endpoints {occ_eps} unoccupied {unocc_eps}: "
                               f"got occupied={O[i].tolist()} unoccupied={U[i].tolist()}, reference occupied={expO[i].tolist()} "
                               f"unoccupied={expU[i].tolist()} ({len(bad)} rows)"})
    # weight column
    w = dm["weight"].to_numpy(dtype=float)[:nrows]
    bad = np.flatnonzero(w != exp_weight)
    if len(bad):
        i = int(bad[0])
        viol.append({"clause": "design_weight", "key": key,
                     "detail": f"{where}: {idx[i]} has weight {w[i]}, expected {exp_weight[i]} ({len(bad)} rows)"})


def case_occupancy(case):
    from opendsm.eemeter.models.hourly_caltrack.design_matrices import (
        create_caltrack_hourly_preliminary_design_matrix,
        create_caltrack_hourly_segmented_design_matrices,
    )
    from opendsm.eemeter.models.hourly_caltrack.model import CalTRACKHourlyModel
    from opendsm.eemeter.models.hourly_caltrack.segmentation import iterate_segmented_dataset, segment_time_series

    zone, path, st = case["zone"], case["path"], case["segment_type"]
    lookup, dtype, config = case["lookup"], case["dtype"], case["bins"]
    start = ref.local_epoch(2024, 2, 5, zone)  # a Monday; 13 weeks reach 2024-05-06 and cross the Chicago and Sydney clock changes
    nrows = 168 * 13
    idx, epochs = make_index(zone, start, start + (nrows + 1) * 3600)  # one extra row closes the last period
    fields = ref.local_fields(epochs, zone)
    months = np.array([f[1] for f in fields])[:nrows]
    hows = np.array([ref.hour_of_week(f[3], f[4]) for f in fields], dtype=float)[:nrows]
    temps = cycle_temps(idx)
    T = temps.to_numpy(dtype=float)[:nrows]
    key = {"part": "occupancy", "path": path}  # coarse on purpose: lookup kind / dtype / bin tables are in the detail
    where0 = f"zone={zone} type={st} lookup={lookup}/{dtype} bins={config}"
    viol = []
    n_seg = 0
    sides = {"occupied": 0, "unoccupied": 0}
    try:
        if path == "fit":
            meter = pd.DataFrame({"value": (np.arange(len(idx)) % 7) + 1.0}, index=idx)
            # (optionally the weather series is localized differently from the meter - same instants, in UTC: hour of week, month
            # weights and bins follow the METER's local clock)
            pdm = create_caltrack_hourly_preliminary_design_matrix(meter, temps.tz_convert("UTC") if case.get("temps_tz") == "UTC" else temps)
            if case.get("temps_tz") and (str(pdm.index.tz) != str(idx.tz) or not pdm.index.equals(idx)):
                viol.append({"clause": "design_index_not_the_meters", "key": dict(key, temps_tz=case["temps_tz"]),
                             "detail": f"{where0}: the design matrix is indexed in {pdm.index.tz}, the meter in {idx.tz}"})
            seg = segment_time_series(pdm.index, st)
            names = [str(c) for c in seg.columns]
            occ, ob, ub = _tables(names, lookup, dtype, config)
            dms = create_caltrack_hourly_segmented_design_matrices(pdm, seg, occ, ob, ub)
            items = [(n, n, k, dms[n]) for k, n in enumerate(names)]
        else:
            fit_names = ["all"] if st == "single" else [ref.own_segment_name(st, m) for m in range(1, 13)]
            occ, ob, ub = _tables(fit_names, lookup, dtype, config)
            model = CalTRACKHourlyModel([], occ, ob, ub, st)
            pseg = segment_time_series(idx, model.prediction_segment_type, drop_zero_weight_segments=True)
            it = iterate_segmented_dataset(
                temps.to_frame("temperature_mean"), segmentation=pseg,
                feature_processor=model.prediction_feature_processor,
                feature_processor_kwargs=model.prediction_feature_processor_kwargs,
                feature_processor_segment_name_mapping=model.prediction_segment_name_mapping)
            items = []
            for pred_name, dm in it:
                cm = ref.centre_month(pred_name)
                fit_name = "all" if st == "single" else ref.own_segment_name(st, cm)
                items.append((pred_name, fit_name, fit_names.index(fit_name), dm))
    except Exception as exc:  # noqa
        viol.append({"clause": "design_raised", "key": dict(key, exc=type(exc).__name__),
                     "detail": f"{where0}: {type(exc).__name__}: {str(exc)[:200]}"})
        return {"behaviour": "raise_" + type(exc).__name__, "violations": viol}
    for seg_name, table_name, k, dm in items:
        n_seg += 1
        flags = np.array(lookup_column(lookup, k, "bool"))[hows.astype(int)]
        occ_eps, unocc_eps = bins_for(config, k)
        if path == "fit":
            table = [float(ref.expected_weight(st, seg_name, m)) for m in range(1, 13)]
        else:
            table = [1.0] * 12 if seg_name == "all" else [1.0 if ref.centre_month(seg_name) == m else 0.0 for m in range(1, 13)]
        exp_w = np.array(table)[months - 1]
        sides["occupied"] += int(flags.sum())
        sides["unoccupied"] += int((~flags).sum())
        _check_design(dm, nrows, T, hows, flags, occ_eps, unocc_eps, exp_w, key, f"{where0} segment={seg_name}", idx, viol)
    return {"behaviour": {"segments": n_seg, "rows_by_side": sides}, "violations": viol,
            "stats": {"design_rows": n_seg * nrows}}


# ------------------------------------------------------------------ part: the segment fitter honours the weight column
WLS_LEVELS = {0: (2, 8, 1000), 5: (3, 11, -500), 167: (-4, 6, 77)}  # hour-of-week -> meter value of the (1, 1/2, 0)-weight rows


def case_wls(case):
    from opendsm.eemeter.models.hourly_caltrack.model import fit_caltrack_hourly_model_segment

    n1, nh, n0 = case["n_full"], case["n_half"], case["n_zero"]
    rows = []
    for how, (a, b, c) in WLS_LEVELS.items():
        rows += [(how, float(a), 1.0)] * n1 + [(how, float(b), 0.5)] * nh + [(how, float(c), 0.0)] * n0
    if case["order"] == "reversed":
        rows = rows[::-1]
    idx = pd.date_range("2024-01-01", periods=len(rows), freq="h", tz="UTC")
    df = pd.DataFrame(rows, columns=["hour_of_week", "meter_value", "weight"], index=idx)
    df["hour_of_week"] = df["hour_of_week"].astype("category")
    key = {"part": "wls"}
    viol = []
    try:
        params = fit_caltrack_hourly_model_segment("own", df).model_params
    except Exception as exc:  # noqa
        return {"behaviour": "raise", "violations": [{"clause": "segment_fit_raised", "key": dict(key, exc=type(exc).__name__),
                                                      "detail": f"rows 1:{n1} 1/2:{nh} 0:{n0}: {type(exc).__name__}: {str(exc)[:200]}"}]}
    beh = {}
    for how, (a, b, c) in WLS_LEVELS.items():
        exp = (Fraction(n1) * a + Fraction(nh, 2) * b) / (Fraction(n1) + Fraction(nh, 2))
        got = (params or {}).get(f"C(hour_of_week)[{how}]")
        beh[str(how)] = str(exp)
        if got is None or not abs(Fraction(float(got)) - exp) <= abs(exp) * Fraction(1, 10 ** 9):
            plain = Fraction(n1 * a + nh * b + n0 * c, n1 + nh + n0)
            viol.append({"clause": "fit_weighting", "key": key,
                         "detail": f"hour-of-week {how}: {n1} rows of weight 1 (value {a}), {nh} of weight 1/2 (value {b}), {n0} of weight 0 "
                                   f"(value {c}) [{case['order']}]: fitted level {got!r}, weighted mean {float(exp)!r} "
                                   f"(unweighted mean would be {float(plain)!r})"})
    return {"behaviour": beh, "violations": viol, "stats": {"wls_levels": len(WLS_LEVELS)}}


# ------------------------------------------------------------------ part: tables estimated by a real fit on a baseline with holes
def case_fitted(case):
    """the occupancy lookup and bin tables as the library itself estimates them from a baseline in which one hour of the week is
    never metered (weekly maintenance): in every prediction design matrix of the fitted model the bin features of an hour still
    total its temperature and only one of the two families is non-zero"""
    from opendsm.eemeter.models.hourly_caltrack import HourlyBaselineData as CB, HourlyModel as CM
    from opendsm.eemeter.models.hourly_caltrack.segmentation import iterate_segmented_dataset, segment_time_series

    from .. import datasets as ds

    zone = case["zone"]
    fr = ds.hourly_frame(start="2021-01-01", days=365, tz=zone, wseed=1, seed=1)
    how_b = fr.index.dayofweek * 24 + fr.index.hour
    for h in case["holes"]:
        fr.loc[how_b == h, "observed"] = np.nan
    key = {"part": "fitted_tables"}
    where0 = f"zone={zone} hours of the week never metered={case['holes']}"
    viol = []
    try:
        wrapper = CM().fit(CB(fr, is_electricity_data=True))
        model = wrapper.model.model
        start = ref.local_epoch(2022, 1, 1, zone)
        idx, epochs = make_index(zone, start, ref.local_epoch(2023, 1, 1, zone))
        temps = cycle_temps(idx)
        pseg = segment_time_series(idx, model.prediction_segment_type, drop_zero_weight_segments=True)
        items = list(iterate_segmented_dataset(
            temps.to_frame("temperature_mean"), segmentation=pseg,
            feature_processor=model.prediction_feature_processor,
            feature_processor_kwargs=model.prediction_feature_processor_kwargs,
            feature_processor_segment_name_mapping=model.prediction_segment_name_mapping))
    except Exception as exc:  # noqa
        return {"behaviour": "raise_" + type(exc).__name__,
                "violations": [{"clause": "design_raised", "key": dict(key, exc=type(exc).__name__),
                                "detail": f"{where0}: {type(exc).__name__}: {str(exc)[:200]}"}]}
    n_rows = 0
    for seg_name, dm in items:
        occ_cols = [c for c in dm.columns if str(c).endswith("_occupied")]
        unocc_cols = [c for c in dm.columns if str(c).endswith("_unoccupied")]
        own = dm["weight"].to_numpy(dtype=float) > 0
        O = dm[occ_cols].to_numpy(dtype=float)[own]
        U = dm[unocc_cols].to_numpy(dtype=float)[own]
        T = temps.reindex(dm.index).to_numpy(dtype=float)[own]
        ix = dm.index[own]
        n_rows += int(own.sum())
        both = np.flatnonzero((O != 0).any(axis=1) & (U != 0).any(axis=1))
        if len(both):
            i = int(both[0])
            viol.append({"clause": "occ_unocc_both_nonzero", "key": key,
                         "detail": f"{where0} segment={seg_name}: {ix[i]} (T={T[i]}) occupied={O[i].tolist()} unoccupied={U[i].tolist()} ({len(both)} rows)"})
        tot = np.concatenate([O, U], axis=1).sum(axis=1)
        bad = np.flatnonzero(~(np.abs(tot - T) <= 2 * np.spacing(np.abs(T))))
        if len(bad):
            i = int(bad[0])
            viol.append({"clause": "design_bins_sum", "key": key,
                         "detail": f"{where0} segment={seg_name}: {ix[i]} has T={T[i]} but its bin features total {tot[i]} ({len(bad)} rows)"})
    return {"behaviour": {"segments": len(items), "rows": n_rows}, "violations": viol, "stats": {"design_rows": n_rows}}


# ------------------------------------------------------------------ driver
PARTS = {"weights": case_weights, "routing": case_routing, "bins": case_bins, "how": case_how, "occupancy": case_occupancy,
         "wls": case_wls, "fitted": case_fitted}


def run_case(case):
    return PARTS[case["part"]](case)


def cases(tier):
    """Simplest-first.  quick = thorough minus the fine (1/10 degree) temperature lattice."""
    out = {"weights": [], "how": [], "wls": [], "bins": [], "occupancy": [], "routing": [], "fitted": []}
    for zone in (ZONES[1:2] if tier == "quick" else ZONES):
        for holes in ([50], [0, 167], []):
            out["fitted"].append({"part": "fitted", "zone": zone, "holes": holes})
    for n1, nh, n0 in itertools.product((1, 3, 8), (0, 1, 3, 8), (0, 1, 3, 8)):
        for order in ("grouped", "reversed"):
            out["wls"].append({"part": "wls", "n_full": n1, "n_half": nh, "n_zero": n0, "order": order})
    wins = all_windows()
    for zone in ZONES:
        for st in SEGMENT_TYPES:
            for w in wins:
                for drop in (False, True):
                    out["weights"].append({"part": "weights", "zone": zone, "segment_type": st, "window": w, "drop": drop})
        for mode in ("years", "weeks"):
            out["how"].append({"part": "how", "zone": zone, "mode": mode})
    for zone, shift in (("Asia/Kolkata", 1800), ("Asia/Kathmandu", 900), ("Australia/Adelaide", 1800)):
        for mode in ("years", "weeks"):
            out["how"].append({"part": "how", "zone": zone, "mode": mode, "shift": shift})
    # two-call histories: one UTC window localised to zone A, then to zone B (all ordered pairs)
    for za, zb in itertools.permutations(ZONES, 2):
        for st in SEGMENT_TYPES:
            out["weights"].append({"part": "weights", "zone": zb, "segment_type": st, "window": {"w": "utc_year", "y": YEARS[0]},
                                   "drop": False, "after": za})
    subsets = [list(c) for r in range(len(CANDIDATES) + 1) for c in itertools.combinations(CANDIDATES, r)]
    dens = [2] if tier == "quick" else [2, 10]
    for subset in subsets:
        for den in dens:
            for arr in ("asc_range", "desc_hourly"):
                out["bins"].append({"part": "bins", "subset": subset, "arrangement": arr, "den": den})
        out["bins"].append({"part": "bins", "subset": subset, "arrangement": "singletons", "den": 0})
    for zone in ZONES:
        for path, types in (("fit", SEGMENT_TYPES), ("predict", FIT_TYPES)):
            for st in types:
                for lookup in LOOKUPS:
                    for config in BIN_CONFIGS:
                        for dtype in ("bool", "int"):
                            if dtype == "int" and config != "per_segment":
                                continue
                            out["occupancy"].append({"part": "occupancy", "zone": zone, "path": path, "segment_type": st,
                                                     "lookup": lookup, "dtype": dtype, "bins": config})
                            if path == "fit" and zone != "UTC" and dtype == "bool" and lookup == LOOKUPS[-1]:
                                out["occupancy"].append(dict(out["occupancy"][-1], temps_tz="UTC"))
    for zone in ZONES:
        for ft in FIT_TYPES:
            for marker in ("A", "B"):
                for w in wins:
                    entries = ["results", "wrapper"] if w["w"] in ("years", "year", "newyear") else ["results"]
                    for entry in entries:
                        out["routing"].append({"part": "routing", "zone": zone, "fit_type": ft, "marker": marker,
                                               "entry": entry, "window": w})
    return out


RULES = {
    "weights": "one case = (zone, segmentation type, window, drop flag); behaviour = per-hour weight pattern histogram",
    "how": "one case = (zone, whole span | every 168-hour window); behaviour = hour-of-week values exercised and distinct values per span",
    "wls": "one case = (numbers of rows of weight 1, 1/2, 0 per hour-of-week, row order) given to the public segment fitter; "
           "behaviour = the exact weighted means",
    "bins": "one case = (endpoint subset, series arrangement, lattice); behaviour = rows by temperature class and number of exact sums",
    "occupancy": "one case = (zone, fit|predict design matrix, segmentation type, occupancy lookup, lookup dtype, bin tables); "
                 "behaviour = segments and rows per active side",
    "routing": "one case = (zone, fitted segment type, marker model, entry point, window); behaviour = hours answered by the own-month "
               "model per month",
    "fitted": "one case = (zone, hours of the week never metered in the baseline): a real CalTRACK hourly fit, then every prediction "
              "design matrix of a year; behaviour = segments and rows checked",
}


def run(tier, seed):
    cs = cases(tier)
    exps = []
    with poolmod.Pool() as pool:
        for part in ("weights", "how", "wls", "bins", "occupancy", "routing", "fitted"):
            exps.append(explore.explore(pool, part, MOD, "run_case", cs[part], seed=seed))
    cov = explore.merge_coverage(exps, rule="; ".join(f"[{k}] {v}" for k, v in RULES.items()) + "; all cases are non-trivial")
    for e in exps:
        for k, v in e.stats.items():
            cov[k] = cov.get(k, 0) + v
    cov["zones"] = ZONES
    cov["years"] = YEARS
    cov["candidate_endpoints"] = CANDIDATES
    cov["endpoint_subsets"] = 2 ** len(CANDIDATES)
    cov["temperature_points"] = {str(d): len(temperature_points(d)) for d in ([2] if tier == "quick" else [2, 10])}
    viols = [v for e in exps for v in e.violations]
    return {"level": LEVEL, "coverage": cov, "violations": viols, "assumptions": ASSUMPTIONS}


def replay(rep):
    vs = []
    for k in range(2):
        r = run_case(rep["case"])
        vs = [v for v in r["violations"] if v["clause"] == rep["clause"]]
        print(f"run {k}: behaviour={json.dumps(r.get('behaviour'), default=str)[:300]}")
        print(f"run {k}: {len(r['violations'])} violations, {len(vs)} of clause {rep['clause']}")
        for v in vs[:3]:
            print("  ", v["key"], v["detail"])
    return 1 if vs else 0
