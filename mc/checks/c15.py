"""C15 — a building that follows the model is recovered by the fit.

Exhaustive over the stated finite grid of generating parameters (base load x slopes x balance points x shape x
climate x zone x noise draw x daily|monthly-billed): the fitted model must reproduce the generating curve within 5 %
of mean usage (normalised RMSE) on the baseline year and on a second weather year, and must not report a heating
(cooling) load above 5 % of usage where the generator has none.
"""
import itertools

import numpy as np
import pandas as pd

from .. import dailydocs as dd, datasets as ds, explore, pool as poolmod
from ..refmodels import curve as refcurve

PROP = "C15"
LEVEL = "exploration"
MOD = "mc.checks.c15"

ASSUMPTIONS = [
    "exhaustive over the stated finite grid only (the optimiser is a black box); a grid point at which the code misses the 5 % is a "
    "genuine finding keyed by its generating parameters",
    "generating family exactly as quantified: one curve on all days of the week and in all seasons, balance points 45/58 F (heating) and "
    "64/75 F (cooling), slopes 0.3/3 per degree, base load 5/50, multiplicative noise 1 % (uniform, three explicit integer draws)",
    "the smoothed members of the family (daily models): the same grid with the generating curve smoothed - smoothing length 4 F for the "
    "one-slope shapes, 0.3 of the dead band on each side for the two-slope shape - evaluated by refmodels/curve.py",
    "precondition (counted as rejected when not met): at least 30 baseline days beyond the balance point of every active regime; for the "
    "family billing_monthlyT (one pre-aggregated temperature per calendar month, usage following the curve of that temperature) at least "
    "three billing months beyond it, since a regime seen at one or two temperatures cannot be identified",
    "NRMSE = sqrt(mean((predicted - generating curve)^2)) / mean(generating curve) over the days predict() evaluates; the second weather "
    "year is the same climate with another weather seed; loads are compared as sum(load)/sum(generated usage)",
    "monthly-billed data: calendar-month sums of the same daily usage; for billing models the curve is compared per day AND per calendar "
    "month (monthly totals) and the better NRMSE counts, because a model that only ever sees monthly aggregates cannot resolve the daily "
    "curvature around a balance point and the statement does not fix the resolution",
]

BASES = [5.0, 50.0]
SLOPES = [0.3, 3.0]
HBPS = [45.0, 58.0]
CBPS = [64.0, 75.0]
SHAPES = ["heating", "cooling", "both", "flat"]
CLIMATES = ["continental", "mild", "hot"]
ZONES = ["UTC", "America/Chicago"]
DRAWS = [0, 1, 2]
NOISES = [0.01, 0.001]   # "at most 1 %": the maximum and a tenth of it
FAMILIES = ["daily", "billing", "daily_legacy", "billing_monthlyT"]
# billing_monthlyT: monthly bills with a PRE-AGGREGATED weather feed - one temperature per calendar month (its mean), constant over the
# days of the month - and usage that follows the curve of that temperature: 12 distinct temperatures in the whole baseline


def grid(tier):
    out = []
    for fam, noise, shape, base, slope, hbp, cbp, climate, zone, draw in itertools.product(FAMILIES, NOISES, SHAPES, BASES, SLOPES, HBPS, CBPS,
                                                                                          CLIMATES, ZONES, DRAWS):
        if fam in ("daily_legacy", "billing_monthlyT") and (zone != ZONES[0] or draw != 0):
            continue
        if noise != NOISES[0] and draw != 0:
            continue
        if shape == "flat" and (slope != SLOPES[0] or hbp != HBPS[0] or cbp != CBPS[0]):
            continue
        if shape == "heating" and cbp != CBPS[0]:
            continue
        if shape == "cooling" and hbp != HBPS[0]:
            continue
        h = 0
        if tier == "quick":
            if draw != 0:
                continue
            h = (SHAPES.index(shape) + BASES.index(base) + SLOPES.index(slope) + HBPS.index(hbp) + CBPS.index(cbp)
                 + CLIMATES.index(climate) + ZONES.index(zone))
            if noise == NOISES[0] and fam not in ("daily_legacy", "billing_monthlyT"):
                if h % (3 if fam == "daily" else 2) != 0:
                    continue
            elif fam == "billing_monthlyT":
                if noise != NOISES[0] or h % 3 != 0:
                    continue
            elif (h + FAMILIES.index(fam)) % 6 != 1:   # low noise and the legacy profile: a sixth of the points each
                continue
        out.append({"family": fam, "shape": shape, "base": base, "slope": slope, "hbp": hbp, "cbp": cbp, "climate": climate,
                    "zone": zone, "draw": draw, **({"noise": noise} if noise != NOISES[0] else {})})
        # the smoothed members of the family (daily models only: the billing model family has no smoothed shapes)
        if fam == "daily" and noise == NOISES[0] and shape != "flat" and (tier == "thorough" or h % 2 == 0):
            out.append(dict(out[-1], smooth=True))
    # every 4th case uses a model OBJECT that was already fitted on another building (a building that follows the model must be
    # recovered by the fit whatever the object was used for before)
    for i, c in enumerate(out):
        if i % 4 == 0:
            c["reused_object"] = True
    return out


def gen(case):
    hs = case["slope"] if case["shape"] in ("heating", "both") else 0.0
    cs = case["slope"] if case["shape"] in ("cooling", "both") else 0.0
    return dict(base=case["base"], hs=hs, hbp=case["hbp"], cs=cs, cbp=case["cbp"])


SMOOTH_LENGTH = 4.0    # single-slope shapes: smoothing length in deg F
SMOOTH_FRACTION = 0.3  # two-slope shape: fraction of the dead band, each side
_TC = {"T_min": -100.0, "T_max": 200.0, "T_min_seg": -100.0, "T_max_seg": 200.0}


def truth_fn(case):
    """the generating curve as a function of an array of temperatures"""
    g = gen(case)
    if not case.get("smooth"):
        return lambda T: ds.curve(T, **g)
    shape = {"heating": "hdd_tidd_smooth", "cooling": "tidd_cdd_smooth", "both": "hdd_tidd_cdd_smooth"}[case["shape"]]
    k = SMOOTH_FRACTION if case["shape"] == "both" else SMOOTH_LENGTH
    c = dd.coeffs(shape, intercept=g["base"], hdd_bp=g["hbp"], hdd_beta=g["hs"], hdd_k=k, cdd_bp=g["cbp"], cdd_beta=g["cs"], cdd_k=k)
    return lambda T: np.array(refcurve.evaluate(c, _TC, np.asarray(T, float))[1])


def run_case(case):
    import opendsm.eemeter as em

    class LegacyDaily(em.DailyModel):   # the legacy profile of the daily model (constructor argument model="legacy")
        def __init__(self):
            super().__init__(model="legacy")

    g = gen(case)
    truth_of = truth_fn(case)
    zone = case["zone"]
    idx = ds.local_days("2021-01-01", 365, zone)
    T = ds.daily_temperature(idx, case["climate"], 20 + case["draw"])
    if case["family"] == "billing_monthlyT":
        T = T.groupby([T.index.year, T.index.month]).transform("mean")
    Tn = T.to_numpy()
    # precondition: a month of days in every active regime
    if g["hs"] > 0 and int((Tn < g["hbp"]).sum()) < 30:
        return {"rejected": "fewer than 30 baseline days below the heating balance point"}
    if g["cs"] > 0 and int((Tn > g["cbp"]).sum()) < 30:
        return {"rejected": "fewer than 30 baseline days above the cooling balance point"}
    if case["family"] == "billing_monthlyT":
        # one temperature per month: a regime seen in fewer than three billing months is a line through one or two points and cannot
        # be told from the base load (a remark on the input, not on the fit)
        if g["hs"] > 0 and len(set(Tn[Tn < g["hbp"]].tolist())) < 3:
            return {"rejected": "fewer than three billing months below the heating balance point (one temperature per month)"}
        if g["cs"] > 0 and len(set(Tn[Tn > g["cbp"]].tolist())) < 3:
            return {"rejected": "fewer than three billing months above the cooling balance point (one temperature per month)"}
    noise = case.get("noise", NOISES[0])
    if case.get("smooth"):
        rng = np.random.default_rng(4100 + case["draw"])
        y = pd.Series(truth_of(Tn) * (1 + noise * rng.uniform(-1, 1, len(Tn))), index=idx, name="observed")
    else:
        y = ds.daily_usage(T, noise=noise, seed=100 + case["draw"], **g)
    idx2 = ds.local_days("2022-01-01", 365, zone)
    T2 = ds.daily_temperature(idx2, case["climate"], 40 + case["draw"])
    if case["family"] == "billing_monthlyT":
        T2 = T2.groupby([T2.index.year, T2.index.month]).transform("mean")
    key = {"family": case["family"], **({"noise": noise} if noise != NOISES[0] else {}),
           "gp": f"{case['shape']}{'~smooth' if case.get('smooth') else ''}|base={case['base']}|slope={case['slope']}|hbp={case['hbp']}|cbp={case['cbp']}|{case['climate']}"}
    def fresh(cls):
        m = cls()
        if case.get("reused_object"):
            other = ds.daily_usage(T, noise=0.01, seed=7, base=30.0, hs=2.0, hbp=50.0, cs=0.0, cbp=70.0) if g["cs"] > 0 or g["hs"] == 0 else \
                ds.daily_usage(T, noise=0.01, seed=7, base=30.0, hs=0.0, hbp=50.0, cs=2.0, cbp=66.0)
            if issubclass(cls, em.DailyModel) and cls is not em.BillingModel:
                m.fit(em.DailyBaselineData(pd.DataFrame({"observed": other, "temperature": T}), is_electricity_data=True), ignore_disqualification=True)
            else:
                m.fit(em.BillingBaselineData.from_series(ds.billing_reads(other), T, is_electricity_data=True), ignore_disqualification=True)
        return m

    try:
        if case["family"] in ("daily", "daily_legacy"):
            model = fresh(em.DailyModel if case["family"] == "daily" else LegacyDaily).fit(em.DailyBaselineData(pd.DataFrame({"observed": y, "temperature": T}), is_electricity_data=True),
                                        ignore_disqualification=True)
            r1 = em.DailyReportingData(pd.DataFrame({"temperature": T}), is_electricity_data=True)
            r2 = em.DailyReportingData(pd.DataFrame({"temperature": T2}), is_electricity_data=True)
        else:
            model = fresh(em.BillingModel).fit(em.BillingBaselineData.from_series(ds.billing_reads(y), T, is_electricity_data=True),
                                          ignore_disqualification=True)
            r1 = em.BillingReportingData.from_series(None, T, is_electricity_data=True)
            r2 = em.BillingReportingData.from_series(None, T2, is_electricity_data=True)
        p1 = model.predict(r1, ignore_disqualification=True)
        p2 = model.predict(r2, ignore_disqualification=True)
    except Exception as exc:
        return {"behaviour": ["raises", type(exc).__name__],
                "violations": [{"clause": "fit_or_predict_raises", "key": dict(key, exc=type(exc).__name__),
                                "detail": f"{case}: {type(exc).__name__}: {str(exc)[:200]}"}]}
    viol = []
    res = []
    for name, p in (("baseline_year", p1), ("second_weather_year", p2)):
        ok = p["predicted"].notna().to_numpy()
        truth = truth_of(p["temperature"].to_numpy(float)[ok])
        pred = p["predicted"].to_numpy(float)[ok]
        nrmse = float(np.sqrt(np.mean((pred - truth) ** 2)) / truth.mean())
        if case["family"] in ("billing", "billing_monthlyT"):
            # a monthly-billed model sees monthly aggregates only: the statement does not say at which resolution the curve is
            # compared, so the better of the two readings counts - per day, or per calendar month (what a bill can resolve)
            months = p.index[ok].to_period("M")
            tm = pd.Series(truth).groupby(np.asarray(months.astype(str))).sum().to_numpy()
            pm = pd.Series(pred).groupby(np.asarray(months.astype(str))).sum().to_numpy()
            nrmse = min(nrmse, float(np.sqrt(np.mean((pm - tm) ** 2)) / tm.mean()))
        res.append(round(nrmse, 4))
        if not (nrmse <= 0.05):
            viol.append({"clause": "curve_not_recovered", "key": dict(key, on=name),
                         "detail": f"NRMSE {nrmse:.4f} > 0.05 on the {name}; model {model.to_dict()['submodels']} | case {case}"})
        for load, active in (("heating_load", g["hs"] > 0), ("cooling_load", g["cs"] > 0)):
            if not active:
                frac = float(np.nansum(p[load].to_numpy(float)[ok]) / truth.sum())
                if not (abs(frac) <= 0.05):
                    viol.append({"clause": "spurious_load", "key": dict(key, load=load, on=name),
                                 "detail": f"{load} is {frac:.3%} of usage although the generator has none ({name}); case {case}"})
    return {"behaviour": [model.best_combination, [s["coefficients"]["model_type"] for s in model.to_dict()["submodels"].values()], len(viol)],
            "violations": viol, "stats": {"fits": 1, "max_nrmse_x1e4": int(max(res) * 1e4)}}


def run(tier, seed):
    cs = grid(tier)
    with poolmod.Pool() as pool:
        ex = explore.explore(pool, "generating-parameter grid", MOD, "run_case", cs, seed=seed, chunk=1)
    cov = explore.merge_coverage(
        [ex],
        rule="one case = one generated building (shape, base load, slope, balance points, climate, zone, noise draw, daily|billing) fitted "
        "with default settings; behaviour = (chosen split, model types, #clauses failed)",
    )
    cov["fits"] = ex.stats.get("fits", 0)
    cov["grid"] = {"bases": BASES, "slopes": SLOPES, "hbp": HBPS, "cbp": CBPS, "shapes": SHAPES, "climates": CLIMATES, "zones": ZONES, "draws": DRAWS}
    return {"level": LEVEL, "coverage": cov, "violations": ex.violations, "assumptions": ASSUMPTIONS}


def replay(rep):
    vs = []
    for k in range(2):
        r = run_case(rep["case"])
        vs = [v for v in r.get("violations", []) if v["clause"] == rep["clause"]]
        print(f"run {k}: behaviour={r.get('behaviour')} rejected={r.get('rejected')} violations={sorted(set(v['clause'] for v in r.get('violations', [])))}")
        for v in vs[:3]:
            print("  ", v["detail"][:700])
    return 1 if vs else 0
