"""CLI:  python -m mc.run C07 [--tier quick|thorough] [--replay file]

Exit 0: property held on everything explored (KNOWN-FINDING lines allowed).
Exit 1: at least one `VIOLATION property=<id> replay=<path>` line was printed.
Exit 2: harness error (never a verdict).
"""
import argparse
import importlib
import json
import os
import sys
import time
import traceback

from . import env

if os.environ.get("PYTHONHASHSEED") != "0" and __name__ == "__main__":
    # own the hash seed of the driver process too (workers inherit it from the environment)
    os.environ["PYTHONHASHSEED"] = "0"
    os.execve(sys.executable, [sys.executable, "-m", "mc.run"] + sys.argv[1:], os.environ)

env.setup_env()


def main(argv=None):
    ap = argparse.ArgumentParser()
    ap.add_argument("prop")
    ap.add_argument("--tier", default=os.environ.get("VERIF_TIER", "quick"), choices=["quick", "thorough"])
    ap.add_argument("--replay")
    args = ap.parse_args(argv)
    prop = args.prop.upper()
    seed = int(os.environ.get("VERIF_SEED", "0") or 0)
    env.quiet_library()
    from . import evidence, findings

    mod = importlib.import_module(f"mc.checks.{prop.lower()}")
    if args.replay:
        with open(args.replay) as fh:
            rep = json.load(fh)
        return mod.replay(rep)
    t0 = time.time()
    print(f"[{prop}] tier={args.tier} seed={seed} repo={env.REPO_DIR} src={env.source_hash()}", flush=True)
    try:
        res = mod.run(args.tier, seed)
    except Exception:
        traceback.print_exc()
        print(f"[{prop}] HARNESS ERROR (no verdict)")
        return 2
    n_unlisted, n_known = findings.report(prop, res["violations"])
    wall = time.time() - t0
    cov = res["coverage"]
    cov.setdefault("known_finding_groups", n_known)
    p = evidence.write(prop, args.tier, seed, res["level"], cov, res.get("assumptions", []), wall,
                       n_unlisted)
    print(f"[{prop}] evaluations={cov.get('evaluations')} states={cov.get('states')} transitions={cov.get('transitions')} "
          f"exhaustive={cov.get('exhaustive')} unlisted_violation_groups={n_unlisted} known={n_known} wall={wall:.1f}s evidence={p}")
    return 1 if n_unlisted else 0


if __name__ == "__main__":
    sys.exit(main())
