"""Process environment owned by the harness.  Import this module before numpy/opendsm.

Everything that could make two runs of the same case differ is pinned here:
hash seed, BLAS/OMP threads, TZ, numba cache location (keyed by a hash of the
opendsm sources so an edited file is never served by a stale compiled kernel,
and /repo is never written to), logging noise.
"""
import hashlib
import os
import sys

VERIF_DIR = os.path.dirname(os.path.dirname(os.path.abspath(__file__)))
REPO_DIR = os.environ.get("VERIF_REPO", "/repo")
GUARD = "OPENDSM_EEMETER_VERIF"


def source_hash(repo=REPO_DIR):
    h = hashlib.sha256()
    root = os.path.join(repo, "opendsm")
    for d, dirs, files in sorted(os.walk(root)):
        dirs.sort()
        if "__pycache__" in d:
            continue
        for f in sorted(files):
            if f.endswith(".py"):
                p = os.path.join(d, f)
                h.update(os.path.relpath(p, root).encode())
                with open(p, "rb") as fh:
                    h.update(fh.read())
    return h.hexdigest()[:16]


def setup_env():
    """Set os.environ for this process and every spawned worker.  Idempotent."""
    if os.environ.get("_MC_ENV_DONE") == "1":
        return
    e = os.environ
    e["PYTHONHASHSEED"] = "0"
    if e.get("VERIF_KEEP_THREAD_ENV") != "1":  # C03 varies these on purpose
        for k in ("OMP_NUM_THREADS", "MKL_NUM_THREADS", "OPENBLAS_NUM_THREADS", "NUMBA_NUM_THREADS"):
            e[k] = "1"
    if e.get("VERIF_KEEP_TZ") != "1":  # C03 varies the process's own timezone on purpose
        e["TZ"] = "UTC"
    e[GUARD] = "1"
    e["PYTHONWARNINGS"] = "ignore"
    e["PYTHONDONTWRITEBYTECODE"] = "1"
    cache = e.get("VERIF_NUMBA_CACHE") or os.path.join(VERIF_DIR, ".cache", "numba", source_hash())
    os.makedirs(cache, exist_ok=True)
    e["NUMBA_CACHE_DIR"] = cache
    # the working tree under test takes precedence over any installed copy
    pp = [REPO_DIR, VERIF_DIR] + [p for p in e.get("PYTHONPATH", "").split(os.pathsep) if p]
    e["PYTHONPATH"] = os.pathsep.join(dict.fromkeys(pp))
    e["_MC_ENV_DONE"] = "1"
    for p in (VERIF_DIR, REPO_DIR):
        if p not in sys.path:
            sys.path.insert(0, p)


def quiet_library():
    """Silence the library's logging/warnings (it logs every EEMeterWarning)."""
    import logging
    import warnings

    warnings.simplefilter("ignore")
    logging.disable(logging.CRITICAL)
