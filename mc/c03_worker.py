"""Executes one history of operations in THIS fresh interpreter and prints a JSON report (used by check C03).

usage: python -m mc.c03_worker '<json list of op names>' [--threads '<json schedule>']
Each fit operation reports sha256(to_json()) and the fingerprint of predict() on a fixed reporting set.  After every
operation the process-global fingerprint (E4) is taken.
"""
import hashlib
import json
import sys
import threading

from . import env

env.setup_env()
env.quiet_library()

ZONE = "America/Chicago"
KEPT = []  # every model fitted in this process, with what it serialised to / predicted right after its fit


def _sha(s):
    return hashlib.sha256(s.encode()).hexdigest()[:20]


def _frames(family, which):
    from . import datasets as ds

    seed = {"A": 0, "B": 5, "C": 9}[which]
    if family in ("daily", "daily_legacy", "billing", "daily_spiky", "daily_crs2", "daily_stogo", "daily_esch"):
        if family == "daily_spiky":
            return ds.daily_frame(start="2021-01-01", days=365, tz=ZONE, wseed=seed, seed=seed, noise=0.05, spikes=6)
        return ds.daily_frame(start="2021-01-01", days=365, tz=ZONE, wseed=seed, seed=seed, noise=0.05, weekend_factor=1.2)
    if family in ("caltrack_pacific", "caltrack_eastern"):
        # one extract cut on UTC boundaries (the same instants for every meter of a fleet), localised to the meter's own zone
        fr = ds.hourly_frame(start="2021-01-01", days=365, tz="UTC", wseed=seed, seed=seed)
        return fr.tz_convert("US/Pacific" if family == "caltrack_pacific" else "US/Eastern")
    return ds.hourly_frame(start="2021-01-01", days=365, tz=ZONE, wseed=seed, seed=seed, solar=family == "hourly_solar")


def do_fit(family, which, reuse=None):
    """fit a NEW model object (or `reuse`, an object that has been fitted before) on meter `which`"""
    import opendsm.eemeter as em
    from . import datasets as ds, fingerprint as F

    fr = _frames(family, which)
    if family in ("daily", "daily_spiky"):
        m = (reuse if reuse is not None else em.DailyModel()).fit(em.DailyBaselineData(fr, is_electricity_data=True))
        rep = em.DailyReportingData(ds.daily_frame(start="2022-01-01", days=120, tz=ZONE, wseed=3, seed=3), is_electricity_data=True)
    elif family in ("daily_crs2", "daily_stogo", "daily_esch"):
        # developer profiles selecting one of nlopt's RANDOMISED algorithms for the initial guess (same settings => same model)
        algo = {"daily_crs2": "nlopt_crs2_lm", "daily_stogo": "nlopt_stogo_rand", "daily_esch": "nlopt_esch"}[family]
        m = em.DailyModel(settings={"developer_mode": True, "silent_developer_mode": True, "initial_guess_algorithm_choice": algo}).fit(
            em.DailyBaselineData(fr, is_electricity_data=True))
        rep = em.DailyReportingData(ds.daily_frame(start="2022-01-01", days=120, tz=ZONE, wseed=3, seed=3), is_electricity_data=True)
    elif family == "daily_legacy":
        m = em.DailyModel(model="legacy").fit(em.DailyBaselineData(fr, is_electricity_data=True))
        rep = em.DailyReportingData(ds.daily_frame(start="2022-01-01", days=120, tz=ZONE, wseed=3, seed=3), is_electricity_data=True)
    elif family == "billing":
        m = (reuse if reuse is not None else em.BillingModel()).fit(em.BillingBaselineData.from_series(ds.billing_reads(fr["observed"]), fr["temperature"], is_electricity_data=True))
        rep = em.BillingReportingData.from_series(None, ds.daily_frame(start="2022-01-01", days=120, tz=ZONE, wseed=3, seed=3)["temperature"],
                                                  is_electricity_data=True)
    elif family in ("hourly", "hourly_solar", "hourly_seed0", "hourly_late", "hourly_adaptive", "hourly_silhouette"):
        hs_ = {"seed": 0 if family == "hourly_seed0" else 7}
        if family == "hourly_silhouette":
            hs_["temporal_cluster"] = {"score_metric": "silhouette"}
        if family == "hourly_adaptive":
            hs_["elasticnet"] = {"adaptive_weights": True, "adaptive_weight_max_iter": 5, "adaptive_weight_tol": 1e-4}
        m = reuse if reuse is not None else em.HourlyModel(settings=hs_)
        if family == "hourly_late":
            # the model is BUILT first, other hourly models/settings objects with other seeds are built in between, then it is fitted
            em.HourlyModel(settings={"seed": 99})
            em.HourlyModel()
            from opendsm.eemeter.models.hourly import settings as hs

            hs.HourlySolarSettings(seed=5)
        m = m.fit(em.HourlyBaselineData(fr, is_electricity_data=True))
        rep = em.HourlyReportingData(ds.hourly_frame(start="2022-02-01", days=60, tz=ZONE, wseed=3, seed=3, solar=family == "hourly_solar"),
                                     is_electricity_data=True)
    elif family in ("caltrack", "caltrack_pacific", "caltrack_eastern"):
        from opendsm.eemeter.models.hourly_caltrack import HourlyBaselineData as CB, HourlyModel as CM, HourlyReportingData as CR

        m = CM().fit(CB(fr, is_electricity_data=True))
        rep = CR(ds.hourly_frame(start="2022-02-01", days=45, tz="UTC", wseed=3, seed=3).tz_convert(str(fr.index.tz)) if family != "caltrack"
                 else ds.hourly_frame(start="2022-02-01", days=45, tz=ZONE, wseed=3, seed=3), is_electricity_data=True)
    else:
        raise ValueError(family)
    js = m.to_json()
    p = m.predict(rep)
    res = {"doc": _sha(js), "pred": F.fp(p["predicted"].to_numpy(float)), "len": len(js)}
    if reuse is None:
        KEPT.append((f"{family}:{which}", m, rep, dict(res)))
    else:  # the object was fitted again: what is kept for it is its latest fit
        KEPT[:] = [k for k in KEPT if k[1] is not m] + [(f"{family}:{which}", m, rep, dict(res))]
    return res, m, rep


def late_reads():
    """Every model fitted earlier in this process is serialised and used once more at the end of the history."""
    from . import fingerprint as F

    out = []
    for name, m, rep, then in KEPT:
        try:
            now = {"doc": _sha(m.to_json()), "pred": F.fp(m.predict(rep)["predicted"].to_numpy(float))}
        except Exception as exc:
            now = {"raised": f"{type(exc).__name__}: {str(exc)[:200]}"}
        if now.get("doc") != then["doc"] or now.get("pred") != then["pred"]:
            out.append({"fit": name, "then": [then["doc"], then["pred"]], "now": now})
    return out


def run_op(op):
    import numpy as np

    parts = op.split(":")
    if parts[0] == "fit":
        res, _, _ = do_fit(parts[1], parts[2])
        return res
    if parts[0] == "refit":  # one object: fit meter A, use it, then fit the named meter -> must equal a fresh object's fit of that meter
        _, m, rep = do_fit(parts[1], "A" if parts[2] != "A" else "B")
        m.predict(rep)
        res, _, _ = do_fit(parts[1], parts[2], reuse=m)
        return res
    if parts[0] == "use":  # fit, predict twice, round trip, predict with the loaded model
        res, m, rep = do_fit(parts[1], parts[2])
        m.predict(rep)
        m2 = type(m).from_json(m.to_json())
        m2.predict(rep)
        return res
    if op == "fit_unseeded:hourly":
        import opendsm.eemeter as em

        fr = _frames("hourly", "C")
        m = em.HourlyModel().fit(em.HourlyBaselineData(fr, is_electricity_data=True))
        m.to_json()
        return {"unchecked": True}
    if op == "fit_devalpha:daily":
        # a developer-mode fit with non-default loss settings (unchecked itself): must not leave anything behind - in this
        # process or in the shared JIT cache - that changes later default fits
        import opendsm.eemeter as em

        fr = _frames("daily_spiky", "C")
        em.DailyModel(settings={"developer_mode": True, "silent_developer_mode": True, "alpha_minimum": -1e9, "alpha_selection": 1.0,
                                "regularization_alpha": 0.01}).fit(em.DailyBaselineData(fr, is_electricity_data=True), ignore_disqualification=True)
        return {"unchecked": True}
    if op == "np:seed0":
        np.random.seed(0)
        return {}
    if op == "np:seed1":
        np.random.seed(1)
        return {}
    if op == "np:rand":
        np.random.rand(3)
        return {}
    if op == "import:hourly_first":
        import opendsm.eemeter.models.hourly.model  # noqa

        return {}
    if op == "settings:custom":
        from opendsm.eemeter.models.daily.utilities.settings import DailyLegacySettings, DailySettings
        from opendsm.eemeter.models.hourly import settings as hs

        DailySettings(season={"march": "winter"}, weekday_weekend={"friday": "weekend"}, uncertainty_alpha=0.2)
        DailySettings(developer_mode=True, silent_developer_mode=True, split_selection={"reduce_splits_num_std": [2.0, 1.0],
                                                                                        "allow_separate_summer": False})
        DailyLegacySettings(developer_mode=True, silent_developer_mode=True, segment_minimum_count=4)
        hs.HourlySolarSettings(train_features=["ghi"], seed=3)
        hs.HourlyNonSolarSettings(train_features=["temperature", "extra"], supplemental_time_series_columns=["extra"], seed=4)
        return {}
    if op == "abuse:settings_lists":
        # a caller mutating the lists/dicts a settings object hands out; defaults of later objects must not follow
        from opendsm.eemeter.models.daily.utilities.settings import DailySettings
        from opendsm.eemeter.models.hourly import settings as hs

        s = DailySettings()
        for lst in (s.season.options, s.weekday_weekend.options, s.split_selection.reduce_splits_num_std):
            try:
                lst.append("junk" if isinstance(lst[0], str) else 99.0)
            except Exception:
                pass
        for cls in (hs.HourlySolarSettings, hs.HourlyNonSolarSettings):
            try:
                cls().train_features.append("junk")
            except Exception:
                pass
        d = DailySettings().model_dump()
        try:
            d["season"]["options"].append("junk2")
            d["split_selection"]["reduce_splits_num_std"].append(1.0)
        except Exception:
            pass
        return {}
    raise ValueError(op)


def global_fp():
    from . import fingerprint as F

    items = F.global_state()
    sig = F.numba_signatures()
    h = hashlib.sha256(json.dumps(items, sort_keys=True).encode()).hexdigest()[:16]
    hs = hashlib.sha256(json.dumps(sig, sort_keys=True).encode()).hexdigest()[:16]
    return h, hs, items


def main():
    hist = json.loads(sys.argv[1])
    threads = None
    if len(sys.argv) > 3 and sys.argv[2] == "--threads":
        threads = json.loads(sys.argv[3])
    import opendsm.eemeter  # noqa  (state of a process that has merely imported the library)

    out = {"ops": [], "states": []}
    g0 = global_fp()
    out["states"].append([g0[0], g0[1]])
    prev_items = g0[2]
    if threads is None:
        for op in hist:
            try:
                res = run_op(op)
            except Exception as exc:
                res = {"raised": f"{type(exc).__name__}: {str(exc)[:200]}"}
            g = global_fp()
            res["changed_globals"] = sorted(k for k in set(g[2]) | set(prev_items) if g[2].get(k) != prev_items.get(k))[:12]
            prev_items = g[2]
            out["ops"].append(res)
            out["states"].append([g[0], g[1]])
        out["late"] = late_reads()
        out["kept"] = len(KEPT)
    else:
        # threads: {"programs": [[ops of thread 0], [ops of thread 1], ...], "schedule": [thread ids in execution order] | "free"}
        progs = threads["programs"]
        sched = threads["schedule"]
        results = [[None] * len(p) for p in progs]
        if sched == "free":
            def body(t):
                for i, op in enumerate(progs[t]):
                    try:
                        results[t][i] = run_op(op)
                    except Exception as exc:
                        results[t][i] = {"raised": f"{type(exc).__name__}: {str(exc)[:200]}"}
            ths = [threading.Thread(target=body, args=(t,)) for t in range(len(progs))]
            [t.start() for t in ths]
            [t.join() for t in ths]
        else:
            # baton scheduler: every public call is atomic; the schedule names which thread runs its next call
            batons = [threading.Semaphore(0) for _ in progs]
            done = threading.Semaphore(0)

            def body(t):
                for i, op in enumerate(progs[t]):
                    batons[t].acquire()
                    try:
                        results[t][i] = run_op(op)
                    except Exception as exc:
                        results[t][i] = {"raised": f"{type(exc).__name__}: {str(exc)[:200]}"}
                    done.release()
            ths = [threading.Thread(target=body, args=(t,)) for t in range(len(progs))]
            [t.start() for t in ths]
            for t in sched:
                batons[t].release()
                done.acquire()
            [t.join() for t in ths]
        out["thread_results"] = results
        out["late"] = late_reads()
        out["kept"] = len(KEPT)
        g = global_fp()
        out["states"].append([g[0], g[1]])
    print("C03RESULT " + json.dumps(out))


if __name__ == "__main__":
    main()
