"""E5: TLC model <-> implementation conformance.

Runs TLC with `-dump dot,actionlabels`, parses the COMPLETE reachable state graph (states with their variable
valuations, edges with action name and parameters) and hands it to a check that replays every edge on the real code.
"""
import os
import re
import shutil
import subprocess
import tempfile

from . import env


class TLCError(RuntimeError):
    pass


def run_tlc(spec_dir, module, timeout=600):
    """-> dict(states={id: valuation dict}, edges=[(src, dst, action, [params])], init=[ids], tlc={...stats})"""
    work = tempfile.mkdtemp(prefix="tlc-", dir=os.path.join(env.VERIF_DIR, ".work") if os.path.isdir(os.path.join(env.VERIF_DIR, ".work")) else None)
    try:
        for f in os.listdir(spec_dir):
            if f.endswith((".tla", ".cfg")):
                shutil.copy(os.path.join(spec_dir, f), work)
        dot = os.path.join(work, "graph.dot")
        cmd = ["tlc", "-workers", "1", "-noGenerateSpecTE", "-metadir", os.path.join(work, "meta"), "-deadlock",
               "-dump", "dot,actionlabels", dot, module + ".tla"]
        r = subprocess.run(cmd, cwd=work, capture_output=True, text=True, timeout=timeout)
        out = r.stdout + r.stderr
        if "Model checking completed. No error has been found." not in out:
            raise TLCError("TLC did not complete cleanly:\n" + out[-3000:])
        m = re.search(r"(\d+) states generated, (\d+) distinct states found, (\d+) states left on queue", out)
        stats = {"states_generated": int(m.group(1)), "distinct_states": int(m.group(2)), "left_on_queue": int(m.group(3))} if m else {}
        d = re.search(r"depth of the complete state graph search is (\d+)", out)
        if d:
            stats["depth"] = int(d.group(1))
        with open(dot) as fh:
            text = fh.read()
        g = parse_dot(text)
        g["tlc"] = stats
        if stats and len(g["states"]) != stats["distinct_states"]:
            raise TLCError(f"parsed {len(g['states'])} states, TLC reports {stats['distinct_states']}")
        return g
    finally:
        shutil.rmtree(work, ignore_errors=True)


_NODE = re.compile(r'^(-?\d+) \[label="((?:[^"\\]|\\.)*)"(.*)\];?$')
_EDGE = re.compile(r'^(-?\d+) -> (-?\d+) \[label="((?:[^"\\]|\\.)*)"')


def _unescape(s):
    return s.replace("\\n", "\n").replace('\\"', '"').replace("\\\\", "\\")


def parse_dot(text):
    states, edges, init = {}, [], []
    for line in text.splitlines():
        line = line.strip()
        m = _EDGE.match(line)
        if m:
            label = _unescape(m.group(3))
            am = re.match(r"^(\w+)(?:\((.*)\))?$", label, re.S)
            params = parse_value("<<" + am.group(2) + ">>") if am and am.group(2) else []
            edges.append((m.group(1), m.group(2), am.group(1) if am else label, params))
            continue
        m = _NODE.match(line)
        if m:
            states[m.group(1)] = parse_valuation(_unescape(m.group(2)))
            if "style = filled" in m.group(3):
                init.append(m.group(1))
    return {"states": states, "edges": edges, "init": init}


def parse_valuation(s):
    """'/\\ a = 1\n/\\ b = {..}' -> dict"""
    out = {}
    parts = re.split(r"(?:^|\n)/\\ ", s)
    for p in parts:
        p = p.strip()
        if not p:
            continue
        name, _, val = p.partition(" = ")
        out[name.strip()] = parse_value(val.strip())
    return out


def parse_value(s):
    v, rest = _pv(s.strip())
    if rest.strip():
        raise TLCError(f"trailing text in TLA value: {rest!r}")
    return v


def _pv(s):
    s = s.lstrip()
    if s.startswith('"'):
        m = re.match(r'"((?:[^"\\]|\\.)*)"', s)
        return m.group(1), s[m.end():]
    if s.startswith("TRUE"):
        return True, s[4:]
    if s.startswith("FALSE"):
        return False, s[5:]
    m = re.match(r"-?\d+", s)
    if m:
        return int(m.group(0)), s[m.end():]
    if s.startswith("{"):
        items, rest = _plist(s[1:], "}")
        return frozenset(items), rest
    if s.startswith("<<"):
        items, rest = _plist(s[2:], ">>")
        return list(items), rest
    if s.startswith("["):
        rec = {}
        rest = s[1:]
        while True:
            rest = rest.lstrip()
            if rest.startswith("]"):
                return rec, rest[1:]
            m = re.match(r"(\w+)\s*\|->\s*", rest)
            if not m:
                raise TLCError(f"cannot parse record at {rest[:40]!r}")
            val, rest = _pv(rest[m.end():])
            rec[m.group(1)] = val
            rest = rest.lstrip()
            if rest.startswith(","):
                rest = rest[1:]
    raise TLCError(f"cannot parse TLA value at {s[:40]!r}")


def _plist(s, close):
    items = []
    while True:
        s = s.lstrip()
        if s.startswith(close):
            return items, s[len(close):]
        v, s = _pv(s)
        items.append(v)
        s = s.lstrip()
        if s.startswith(","):
            s = s[1:]


def spanning_tree(g):
    """BFS tree from the initial state(s): state id -> list of edge indices leading to it"""
    paths = {i: [] for i in g["init"]}
    out = {}
    for k, (a, b, act, params) in enumerate(g["edges"]):
        out.setdefault(a, []).append(k)
    frontier = list(g["init"])
    while frontier:
        nxt = []
        for s in frontier:
            for k in out.get(s, []):
                b = g["edges"][k][1]
                if b not in paths:
                    paths[b] = paths[s] + [k]
                    nxt.append(b)
        frontier = nxt
    return paths
