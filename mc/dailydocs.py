"""Daily / billing model documents built by hand (the JSON document is a public interface: from_dict/from_json).

Shapes, coefficient lattices, split layouts and settings profiles used by the document-built-model checks
(C01a, C07, C11, C13, C19).
"""
import copy
import itertools

SHAPES = ["tidd", "hdd_tidd", "tidd_cdd", "hdd_tidd_cdd", "hdd_tidd_smooth", "tidd_cdd_smooth", "hdd_tidd_cdd_smooth"]

TC_WIDE = {"T_min": 8.0, "T_max": 97.0, "T_min_seg": 10.0, "T_max_seg": 95.0}
TC_NARROW = {"T_min": 38.5, "T_max": 61.25, "T_min_seg": 40.0, "T_max_seg": 60.0}
# a baseline in which at least segment_minimum_count days tie at the extreme temperatures (whole-degree feeds, capped sensors):
# the segment limits coincide with the observed range, so a balance point on the limit is ON the edge of the fitted range
TC_TIED = {"T_min": 10.0, "T_max": 95.0, "T_min_seg": 10.0, "T_max_seg": 95.0}


def coeffs(shape, intercept=20.0, hdd_bp=55.0, hdd_beta=1.0, hdd_k=0.0, cdd_bp=68.0, cdd_beta=1.0, cdd_k=0.0):
    """Stored-convention coefficients; hdd_beta/cdd_beta are given as magnitudes."""
    c = {"model_type": shape, "intercept": intercept, "hdd_bp": None, "hdd_beta": None, "hdd_k": None,
         "cdd_bp": None, "cdd_beta": None, "cdd_k": None}
    smooth = shape.endswith("smooth")
    if shape in ("hdd_tidd", "hdd_tidd_smooth"):
        c.update(hdd_bp=hdd_bp, hdd_beta=-hdd_beta)
        if smooth:
            c["hdd_k"] = hdd_k
    elif shape in ("tidd_cdd", "tidd_cdd_smooth"):
        c.update(cdd_bp=cdd_bp, cdd_beta=cdd_beta)
        if smooth:
            c["cdd_k"] = cdd_k
    elif shape in ("hdd_tidd_cdd", "hdd_tidd_cdd_smooth"):
        c.update(hdd_bp=hdd_bp, hdd_beta=hdd_beta, cdd_bp=cdd_bp, cdd_beta=cdd_beta)
        if smooth:
            c.update(hdd_k=hdd_k, cdd_k=cdd_k)
    return c


def submodel(c, tc=TC_WIDE, f_unc=1.5):
    return {"coefficients": dict(c), "temperature_constraints": dict(tc), "f_unc": f_unc}


def settings_dump(profile="current", **over):
    """model_dump() of the library's own settings object for a profile (so the document is exactly what a fit emits)."""
    from opendsm.eemeter.models.daily.utilities.settings import DailyLegacySettings, DailySettings

    if profile == "current":
        s = DailySettings(**over).model_dump()
    elif profile == "legacy":
        s = DailyLegacySettings(**over).model_dump()
    elif profile == "billing":
        from opendsm.eemeter.models.billing.settings import BillingSettings  # noqa

        s = BillingSettings(**over).model_dump()
    else:
        raise ValueError(profile)
    return s


def document(submodels, settings, tz="UTC", warnings=(), disqualification=(), error=None):
    return {
        "submodels": copy.deepcopy(submodels),
        "info": {
            "error": error or {"wRMSE": 1.0, "RMSE": 1.0, "MAE": 0.8, "CVRMSE": 0.05, "PNRMSE": 0.1},
            "baseline_timezone": tz,
            "disqualification": list(disqualification),
            "warnings": list(warnings),
        },
        "settings": copy.deepcopy(settings),
    }


def lattice(shape, tier="quick", tc=TC_WIDE):
    """Admissible coefficient lattice for a shape: balance points at the segment limits, interior and equal;
    slopes; smoothing (fractions for the full smooth model, lengths for the one-sided ones); intercepts."""
    lo, hi = tc["T_min_seg"], tc["T_max_seg"]
    mid = (lo + hi) / 2
    if tier == "quick":
        bps = [lo, lo + 0.3 * (hi - lo), mid, hi]
        slopes = [0.05, 1.0, 20.0]
        fracs = [0.0, 0.005, 0.01, 0.3, 1.0]
        ints = [0.5, 50.0]
    else:
        bps = [lo, lo + 0.2 * (hi - lo), lo + 0.45 * (hi - lo), mid, lo + 0.8 * (hi - lo), hi]
        slopes = [0.05, 1.0, 20.0]
        fracs = [0.0, 0.005, 0.01, 0.3, 0.7, 1.0]
        ints = [0.5, 50.0]
    out = []
    if shape == "tidd":
        return [coeffs(shape, intercept=i) for i in ints]
    if shape in ("hdd_tidd", "tidd_cdd"):
        for bp, b, i in itertools.product(bps, slopes, ints):
            out.append(coeffs(shape, intercept=i, hdd_bp=bp, cdd_bp=bp, hdd_beta=b, cdd_beta=b))
        return out
    if shape in ("hdd_tidd_smooth", "tidd_cdd_smooth"):
        ks = [0.0, 0.05, 2.0, 15.0] if tier == "quick" else [0.0, 0.05, 0.5, 2.0, 15.0, 60.0]
        for bp, b, k, i in itertools.product(bps, slopes, ks, ints):
            out.append(coeffs(shape, intercept=i, hdd_bp=bp, cdd_bp=bp, hdd_beta=b, cdd_beta=b, hdd_k=k, cdd_k=k))
        return out
    pairs = [(a, b) for a in bps for b in bps if a <= b]
    if shape == "hdd_tidd_cdd":
        for (hb, cb), bh, bc, i in itertools.product(pairs, slopes, slopes, ints):
            out.append(coeffs(shape, intercept=i, hdd_bp=hb, cdd_bp=cb, hdd_beta=bh, cdd_beta=bc))
        return out
    sl = [(0.05, 20.0), (1.0, 1.0), (20.0, 0.05)] if tier == "quick" else list(itertools.product(slopes, slopes))
    for (hb, cb), (bh, bc), fh, fc, i in itertools.product(pairs, sl, fracs, fracs, ints):
        out.append(coeffs(shape, intercept=i, hdd_bp=hb, cdd_bp=cb, hdd_beta=bh, cdd_beta=bc, hdd_k=fh, cdd_k=fc))
    return out
