"""E3: explicit-state breadth-first search over call histories of a real object.

A state is the canonical fingerprint of the live object after a history; a transition is one real API call.
States are kept as live objects and expanded on deep copies (the harness asserts that a deep copy has the same
fingerprint as its source every time, so the copy is a faithful snapshot).  When every operation maps every
discovered state into the discovered set the search has reached a fixpoint and the verdict holds for histories
of any length over the alphabet.
"""
import copy
import collections


class Graph:
    def __init__(self):
        self.states = {}      # key -> {"hist": [...], "depth": n}
        self.edges = []       # (src key, op name, dst key, outcome summary)
        self.violations = []
        self.fixpoint = False
        self.depth_reached = 0
        self.outcomes = set()

    def summary(self):
        return {"states": len(self.states), "transitions": len(self.edges), "fixpoint": self.fixpoint,
                "depth_reached": self.depth_reached, "distinct_outcomes": len(self.outcomes)}


def bfs(initial, alphabet, step, canon, check_state=None, check_transition=None, max_depth=2, snapshot=copy.deepcopy,
        max_states=400, explain=None):
    """
    initial            live object in its initial state (never mutated by the search: only copies are stepped)
    alphabet           list of (name, op) ; simplest first
    step(obj, op)      performs the call on obj, returns a JSON-able/hashable outcome summary; an operation that produces a
                       new object returns ("__replace__", (new_obj, outcome))
    canon(obj)         canonical key of the object's state
    check_state(obj, hist)                -> list of violations
    check_transition(src_hist, name, op, outcome, obj_after) -> list of violations
    """
    g = Graph()
    k0 = canon(initial)
    g.states[k0] = {"hist": [], "depth": 0}
    live = {k0: initial}
    if check_state:
        g.violations += check_state(snapshot(initial), [])  # on a copy: a state check may itself call the object
    frontier = collections.deque([k0])
    while frontier:
        k = frontier.popleft()
        info = g.states[k]
        if info["depth"] >= max_depth:
            # unexpanded state at the depth bound: the search did not close
            continue
        for name, op in alphabet:
            obj = snapshot(live[k])
            if canon(obj) != k:
                why = explain(live[k], obj) if explain else ""
                raise RuntimeError(f"snapshot is not faithful: fingerprint changed by deepcopy after history {info['hist']} {why}")
            outcome = step(obj, op)
            if isinstance(outcome, tuple) and len(outcome) == 2 and outcome[0] == "__replace__":
                # the operation yields a new object (e.g. a model loaded from a document): it becomes the state's object
                obj, outcome = outcome[1]
            k2 = canon(obj)
            hist2 = info["hist"] + [name]
            g.edges.append((k, name, k2, outcome))
            g.outcomes.add(repr(outcome))
            if check_transition:
                g.violations += check_transition(info["hist"], name, op, outcome, obj)
            if k2 not in g.states:
                g.states[k2] = {"hist": hist2, "depth": info["depth"] + 1}
                g.depth_reached = max(g.depth_reached, info["depth"] + 1)
                live[k2] = obj
                if check_state:
                    g.violations += check_state(snapshot(obj), hist2)
                if len(g.states) < max_states:
                    frontier.append(k2)
    expanded_all = all(s["depth"] < max_depth for s in g.states.values()) and len(g.states) < max_states
    g.fixpoint = expanded_all
    return g
