"""Writes /verif/evidence/<id>.json and validates it against the schema."""
import json
import os
import subprocess

from . import env

SCHEMA = "/root/.vp/EVIDENCE.schema.json"


def write(prop, tier, seed, level, coverage, assumptions, wall_s, violations):
    # seed evaluations (tools/eval_seed.py, recheck_seed.py) redirect their output so that /verif/evidence only ever
    # holds what the registered commands wrote about /repo itself
    d = os.environ.get("VERIF_EVIDENCE_DIR") or os.path.join(env.VERIF_DIR, "evidence")
    os.makedirs(d, exist_ok=True)
    doc = {
        "property_id": prop,
        "tier": tier,
        "seed": int(seed),
        "level": level,
        "coverage": coverage,
        "assumptions": list(assumptions),
        "wall_s": round(float(wall_s), 2),
        "violations": int(violations),
    }
    p = os.path.join(d, f"{prop}.json")
    tmp = p + ".tmp"
    with open(tmp, "w") as fh:
        json.dump(doc, fh, indent=1, default=str)
    os.replace(tmp, p)
    validate(p)
    return p


def validate(path):
    """Schema validation in the tooling venv (jsonschema is not in /venv)."""
    if not os.path.exists(SCHEMA):
        return
    code = (
        "import json,sys,jsonschema;"
        "jsonschema.validate(json.load(open(sys.argv[1])), json.load(open(sys.argv[2])))"
    )
    try:
        r = subprocess.run(["python3-vt", "-c", code, path, SCHEMA], capture_output=True, text=True, timeout=60)
    except (FileNotFoundError, subprocess.TimeoutExpired):
        return
    if r.returncode != 0:
        raise RuntimeError(f"evidence {path} does not validate: {r.stderr[-800:]}")
