"""Bounded exhaustive exploration (model checking) harness for OpenDSM/eemeter."""
