"""Long-lived spawn-started worker processes running `module.function(case)`.

Cases are dispatched in chunks; VERIF_SEED only permutes dispatch order.  A
worker crash or a chunk timeout is a hard harness error, never a silent skip.
"""
import importlib
import multiprocessing as mp
import os
import random
import time
import traceback
from concurrent.futures import ProcessPoolExecutor, as_completed

from . import env


class HarnessError(RuntimeError):
    pass


def _init_worker():
    env.setup_env()
    env.quiet_library()


def _run_chunk(module, func, chunk):
    mod = importlib.import_module(module)
    f = getattr(mod, func)
    out = []
    for idx, case in chunk:
        try:
            out.append((idx, f(case)))
        except BaseException as exc:
            lib = _raised_inside_library(exc)
            if lib:
                # the library itself raised in a flow that the check drives without any exception on a tree where the
                # property holds: a verdict about the library (every property's flows imply "does not raise"), not a harness bug
                out.append((idx, {"behaviour": ["library_call_raised", type(exc).__name__],
                                  "violations": [{"clause": "library_call_raised", "key": {"exc": type(exc).__name__, "where": lib},
                                                  "detail": f"{type(exc).__name__}: {str(exc)[:300]} (raised in {lib}) while running case {str(case)[:300]}"}]}))
            else:  # a harness bug, never a property verdict
                out.append((idx, {"harness_error": "".join(traceback.format_exception(exc))[-3000:]}))
    return out


def _raised_inside_library(exc):
    """'<file>:<function>' of the innermost library frame if the exception originated inside the library under test
    (possibly deeper, in numpy/pandas called by it) and not in harness code; else None."""
    repo = os.path.realpath(env.REPO_DIR) + os.sep
    verif = os.path.realpath(env.VERIF_DIR) + os.sep
    frames = traceback.extract_tb(exc.__traceback__)
    for fr in reversed(frames):  # innermost first
        fn = os.path.realpath(fr.filename)
        if fn.startswith(repo):
            return f"{os.path.relpath(fn, repo)}:{fr.name}"
        if fn.startswith(verif):
            return None
    return None


def n_workers(default=None):
    n = int(os.environ.get("VERIF_WORKERS", default or min(16, os.cpu_count() or 1)))
    return max(1, n)


class Pool:
    def __init__(self, workers=None):
        env.setup_env()
        self.workers = workers or n_workers()
        self.ex = ProcessPoolExecutor(
            max_workers=self.workers, mp_context=mp.get_context("spawn"), initializer=_init_worker
        )

    def close(self):
        self.ex.shutdown(wait=False, cancel_futures=True)

    def __enter__(self):
        return self

    def __exit__(self, *a):
        self.close()

    def map(self, module, func, cases, chunk=None, seed=0, timeout=3600, deadline=None, progress=None):
        """Run func(case) for every case.  Returns (results list aligned with `cases`
        (None where not run), n_run, cap_hit)."""
        cases = list(cases)
        n = len(cases)
        if n == 0:
            return [], 0, False
        if chunk is None:
            chunk = max(1, min(200, n // (self.workers * 8) or 1))
        chunks = [list(enumerate(cases))[i : i + chunk] for i in range(0, n, chunk)]
        random.Random(seed).shuffle(chunks)  # order of dispatch only
        results = [None] * n
        futs = {}
        cap_hit = False
        it = iter(chunks)
        inflight_max = self.workers * 3
        done_n = 0

        def submit_some():
            nonlocal cap_hit
            while len(futs) < inflight_max:
                if deadline is not None and time.time() > deadline:
                    cap_hit = True
                    return
                c = next(it, None)
                if c is None:
                    return
                futs[self.ex.submit(_run_chunk, module, func, c)] = c

        submit_some()
        while futs:
            for fut in as_completed(list(futs), timeout=timeout):
                futs.pop(fut)
                try:
                    out = fut.result()
                except Exception as exc:
                    raise HarnessError(f"worker failed: {exc!r}")
                for idx, r in out:
                    if isinstance(r, dict) and "harness_error" in r:
                        raise HarnessError(f"case {idx} ({cases[idx]!r}): {r['harness_error']}")
                    results[idx] = r
                    done_n += 1
                if progress:
                    progress(done_n, n)
                break
            submit_some()
        if next(it, None) is not None:
            cap_hit = True
        return results, done_n, cap_hit
