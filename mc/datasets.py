"""Synthetic, integer-seeded weather / meter generators.  No wall clock, no global RNG.

All randomness comes from numpy Generators seeded by explicit integers that are
part of the case descriptor (never from VERIF_SEED).
"""
import numpy as np
import pandas as pd

CLIMATES = {
    # annual mean, annual amplitude, diurnal amplitude, day-to-day noise (deg F)
    "continental": (52.0, 28.0, 9.0, 6.0),
    "mild": (60.0, 10.0, 6.0, 3.0),
    "hot": (74.0, 16.0, 10.0, 4.0),
    "cold": (38.0, 26.0, 8.0, 6.0),
}


def local_days(start, days, tz):
    """Local-midnight DatetimeIndex of `days` days (DST safe)."""
    return pd.date_range(pd.Timestamp(start), periods=days, freq="D").tz_localize(tz)


def local_hours(start, days, tz):
    """Contiguous (in UTC) hourly index covering `days` whole local days from local midnight of `start`."""
    d0 = pd.Timestamp(start).tz_localize(tz)
    d1 = (pd.Timestamp(start) + pd.Timedelta(days=days)).tz_localize(tz)
    return pd.date_range(d0.tz_convert("UTC"), d1.tz_convert("UTC"), freq="h", inclusive="left").tz_convert(tz)


def daily_temperature(index, climate="continental", seed=0):
    mean, amp, _, sd = CLIMATES[climate]
    rng = np.random.default_rng(1000 + seed)
    doy = index.dayofyear.to_numpy()
    t = mean - amp * np.cos(2 * np.pi * (doy - 15) / 365.25)
    # AR(1) day-to-day noise
    e = rng.normal(0, sd, len(index))
    for i in range(1, len(e)):
        e[i] = 0.6 * e[i - 1] + 0.8 * e[i]
    return pd.Series(np.round(t + e, 2), index=index, name="temperature")


def hourly_temperature(index, climate="continental", seed=0):
    mean, amp, diur, sd = CLIMATES[climate]
    rng = np.random.default_rng(2000 + seed)
    doy = index.dayofyear.to_numpy()
    hour = index.hour.to_numpy()
    days = (index.tz_localize(None).normalize() - index.tz_localize(None).normalize()[0]).days.to_numpy()
    e = rng.normal(0, sd, days.max() + 1)
    for i in range(1, len(e)):
        e[i] = 0.6 * e[i - 1] + 0.8 * e[i]
    t = mean - amp * np.cos(2 * np.pi * (doy - 15) / 365.25) - diur * np.cos(2 * np.pi * (hour - 3) / 24) + e[days]
    return pd.Series(np.round(t, 2), index=index, name="temperature")


def hourly_ghi(index, seed=0):
    rng = np.random.default_rng(3000 + seed)
    hour = index.hour.to_numpy()
    doy = index.dayofyear.to_numpy()
    peak = 600 + 300 * -np.cos(2 * np.pi * (doy - 15) / 365.25)
    g = np.clip(peak * np.sin(np.pi * (hour - 6) / 12), 0, None)
    cloud = rng.uniform(0.4, 1.0, len(index))
    return pd.Series(np.round(g * cloud, 1), index=index, name="ghi")


def curve(T, base=20.0, hs=1.0, hbp=55.0, cs=1.0, cbp=68.0):
    """The generating piecewise-linear heating/cooling curve (hs/cs = 0 switches a branch off)."""
    T = np.asarray(T, dtype=float)
    return base + hs * np.clip(hbp - T, 0, None) + cs * np.clip(T - cbp, 0, None)


def daily_usage(temp, base=20.0, hs=1.0, hbp=55.0, cs=1.0, cbp=68.0, noise=0.02, seed=0,
                weekend_factor=1.0, summer_factor=1.0, spikes=0, lognormal=False, step=None):
    rng = np.random.default_rng(4000 + seed)
    idx = temp.index
    y = curve(temp.to_numpy(), base, hs, hbp, cs, cbp)
    if weekend_factor != 1.0:
        y = np.where(idx.dayofweek >= 5, y * weekend_factor, y)
    if summer_factor != 1.0:
        y = np.where(idx.month.isin([6, 7, 8, 9]), y * summer_factor, y)
    if step is not None:  # (first day, added constant load): a non-weather step inside the year -> strongly autocorrelated residuals
        y = y + np.where(np.arange(len(y)) >= step[0], step[1], 0.0)
    if lognormal:
        y = y * rng.lognormal(0, noise, len(y))
    else:
        y = y * (1 + noise * rng.uniform(-1, 1, len(y)))
    if spikes:
        pos = rng.choice(len(y), spikes, replace=False)
        y[pos] *= 4
    return pd.Series(y, index=idx, name="observed")


def hourly_usage(temp, base=1.0, hs=0.05, hbp=55.0, cs=0.06, cbp=68.0, noise=0.05, seed=0, ghi=None, pv=0.0):
    rng = np.random.default_rng(5000 + seed)
    idx = temp.index
    hour = idx.hour.to_numpy()
    occ = np.where((hour >= 7) & (hour <= 22), 1.0, 0.5) * np.where(idx.dayofweek >= 5, 1.15, 1.0)
    y = occ * curve(temp.to_numpy(), base, hs, hbp, cs, cbp)
    y = y * (1 + noise * rng.uniform(-1, 1, len(y)))
    if ghi is not None and pv:
        y = y - pv * ghi.to_numpy() / 1000.0
    return pd.Series(y, index=idx, name="observed")


def billing_reads(daily, period_days=None, start_offset=0):
    """Aggregate a daily usage series to billing reads.  Returns a Series indexed by period start whose value is the
    period total; a final NaN row closes the last period (the from_series convention)."""
    idx = daily.index
    if period_days is None:
        # calendar months
        starts = [i for i, t in enumerate(idx) if t.day == 1]
        if not starts or starts[0] != 0:
            starts = [0] + starts
    else:
        starts, i, k = [], start_offset, 0
        while i < len(idx):
            starts.append(i)
            i += period_days[k % len(period_days)]
            k += 1
    vals, ts = [], []
    for a, b in zip(starts, starts[1:] + [None]):
        if b is None:
            break
        ts.append(idx[a])
        vals.append(float(daily.iloc[a:b].sum()))
    ts.append(idx[starts[-1]])
    vals.append(np.nan)
    return pd.Series(vals, index=pd.DatetimeIndex(ts), name="observed")


def daily_frame(start="2021-01-01", days=365, tz="America/Chicago", climate="continental", wseed=0, **usage):
    idx = local_days(start, days, tz)
    t = daily_temperature(idx, climate, wseed)
    y = daily_usage(t, **usage)
    return pd.DataFrame({"observed": y, "temperature": t})


def hourly_frame(start="2021-01-01", days=365, tz="America/Chicago", climate="continental", wseed=0, solar=False, **usage):
    idx = local_hours(start, days, tz)
    t = hourly_temperature(idx, climate, wseed)
    cols = {}
    if solar:
        g = hourly_ghi(idx, wseed)
        y = hourly_usage(t, ghi=g, pv=usage.pop("pv", 0.8), **usage)
        cols["ghi"] = g
    else:
        y = hourly_usage(t, **usage)
    return pd.DataFrame({"observed": y, "temperature": t, **cols})
