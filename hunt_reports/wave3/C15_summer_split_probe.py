import sys; sys.argv=['x']
import numpy as np, pandas as pd
from opendsm.eemeter import DailyBaselineData, DailyModel
def weather(n=365):
    d=np.arange(n); T=55.0-35.0*np.cos(2*np.pi*(d-15)/365.0)
    return T+3.0*np.sin(2*np.pi*d/7.3)+2.0*np.sin(2*np.pi*d/3.1)
def curve(T,b,hs,hb,cs,cb): return b+hs*np.maximum(hb-T,0)+cs*np.maximum(T-cb,0)
idx=pd.date_range("2021-01-01",periods=365,freq="D",tz="America/Chicago")
T=weather(); truth=curve(T,20,1,52,1,68)
for noise in (0.002,0.0):
    rng=np.random.default_rng(13)
    obs=truth*(1+noise*rng.standard_normal(365))
    df=pd.DataFrame({"observed":obs,"temperature":T},index=idx)
    m=DailyModel().fit(DailyBaselineData(df,is_electricity_data=True))
    p=m.predict(DailyBaselineData(df,is_electricity_data=True))
    pred=p["predicted"].to_numpy(float)
    print(noise, np.sqrt(np.mean((pred-truth)**2))/truth.mean(), m.best_combination if hasattr(m,'best_combination') else None)
    for k,v in m.params.submodels.items(): print(k, v.model_type, [round(c,3) for c in v.coefficients.to_np_array()] if hasattr(v.coefficients,'to_np_array') else v.coefficients)
