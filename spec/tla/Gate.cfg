SPECIFICATION Spec
CONSTANTS
  Kinds = {"ok", "dq", "poor", "dq_poor"}
  DTypes = {"own_reporting", "own_baseline", "foreign", "frame"}
  TZs = {"same", "other"}
INVARIANTS FailClosed FitGate StorePreserves UnfittedNeverPredicts
