SPECIFICATION Spec
CONSTANTS
  Kinds = {"ok", "dq", "poor", "dq_poor"}
  DTypes = {"own_reporting", "own_baseline", "fit_data", "foreign", "foreign2", "frame"}
  TZs = {"same", "other", "other_same_offset"}
INVARIANTS FailClosed FitGate StorePreserves UnfittedNeverPredicts
