------------------------------- MODULE Gate -------------------------------
(* The disqualification gate of the eemeter model families (property C04) as a small protocol:
   model object x override flags x storage.  `last` is a history variable recording the action taken
   and the outcome the statement allows, so that every edge of the dumped state graph identifies the
   call to replay against the implementation and the admissible observable outcome. *)
EXTENDS TLC, FiniteSets

CONSTANTS Kinds,   \* abstract kinds of baseline data: "ok", "dq", "poor", "dq_poor"
          DTypes,  \* what is passed to predict: "own_reporting", "own_baseline", "fit_data" (the very data object the model was
                   \* fitted on - same class and zone by construction), "foreign", "foreign2" (the data classes of the two other
                   \* model families), "frame" (a bare DataFrame)
          TZs      \* "same", "other" (different UTC offset), "other_same_offset" (another zone that shares the
                   \* baseline zone's UTC offset throughout the reporting data)

VARIABLES fitted, kind, mdq, stored, last

vars == <<fitted, kind, mdq, stored, last>>

HasDQ(k) == k \in {"dq", "dq_poor"}
Poor(k)  == k \in {"poor", "dq_poor"}

Rec(a, p1, p2, ign, out) == [act |-> a, p1 |-> p1, p2 |-> p2, ign |-> ign, out |-> out]

Init == /\ fitted = FALSE
        /\ kind = "none"
        /\ mdq = {}
        /\ stored = FALSE
        /\ last = Rec("init", "-", "-", FALSE, "-")

(* fit() on a fresh model object *)
Fit(k, ign) ==
    /\ ~fitted
    /\ IF HasDQ(k) /\ ~ign
         THEN /\ UNCHANGED <<fitted, kind, mdq, stored>>
              /\ last' = Rec("fit", k, "-", ign, "DataSufficiencyError")
         ELSE /\ fitted' = TRUE
              /\ kind' = k
              /\ mdq' = (IF HasDQ(k) THEN {"base"} ELSE {}) \cup (IF Poor(k) THEN {"poorfit"} ELSE {})
              /\ UNCHANGED stored
              /\ last' = Rec("fit", k, "-", ign, "model")

(* fit() on a model object that already holds a fit (freshly fitted or loaded from storage): it becomes the model of the new data;
   a refused refit leaves the gate as it was *)
Refit(k, ign) ==
    /\ fitted
    /\ IF HasDQ(k) /\ ~ign
         THEN /\ UNCHANGED <<fitted, kind, mdq, stored>>
              /\ last' = Rec("refit", k, "-", ign, "DataSufficiencyError")
         ELSE /\ kind' = k
              /\ mdq' = (IF HasDQ(k) THEN {"base"} ELSE {}) \cup (IF Poor(k) THEN {"poorfit"} ELSE {})
              /\ stored' = FALSE
              /\ UNCHANGED fitted
              /\ last' = Rec("refit", k, "-", ign, "model")

(* predict(): when several causes hold at once the statement only demands that it raises *)
Predict(d, tz, ign) ==
    /\ (d = "fit_data" => tz = "same")   \* the object the model was fitted on is in the baseline's zone by construction
    /\ UNCHANGED <<fitted, kind, mdq, stored>>
    /\ last' = Rec("predict", d, tz, ign,
                   IF ~fitted \/ d \in {"foreign", "foreign2", "frame"} \/ tz # "same"
                     THEN "SomeException"
                     ELSE IF mdq # {} /\ ~ign THEN "DisqualifiedModelError" ELSE "frame")

(* to_json -> from_json *)
Store ==
    /\ fitted
    /\ stored' = TRUE
    /\ UNCHANGED <<fitted, kind, mdq>>
    /\ last' = Rec("store", "-", "-", FALSE, "model")

Next == \/ \E k \in Kinds, ign \in BOOLEAN : Fit(k, ign)
        \/ \E k \in Kinds, ign \in BOOLEAN : Refit(k, ign)
        \/ \E d \in DTypes, tz \in TZs, ign \in BOOLEAN : Predict(d, tz, ign)
        \/ Store

Spec == Init /\ [][Next]_vars

(* fail-closed: a prediction frame is never produced by a disqualified model without the override *)
FailClosed == (last.act = "predict" /\ last.out = "frame") => (mdq = {} \/ last.ign)
(* fit raises exactly when the data is disqualified and the override is absent *)
FitGate == (last.act \in {"fit", "refit"}) => ((last.out = "DataSufficiencyError") <=> (HasDQ(last.p1) /\ ~last.ign))
(* the disqualifications of a fitted model are determined by the data it was fitted on, stored or not *)
StorePreserves == fitted => (mdq = (IF HasDQ(kind) THEN {"base"} ELSE {}) \cup (IF Poor(kind) THEN {"poorfit"} ELSE {}))
(* an unfitted model never predicts *)
UnfittedNeverPredicts == (last.act = "predict" /\ ~fitted) => last.out = "SomeException"
=============================================================================
